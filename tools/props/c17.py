"""C17 — Derived geometry follows the format's indexing conventions (BlockModel / Grid2D / Octree / DrapeModel
centroids, Curve cells <-> parts)."""
from __future__ import annotations

import itertools
import os
from fractions import Fraction

from vlib.common import cbool, clist, cnat, cz

ID = "C17"
PROPERTIES_V = "theories/Properties/C17.v"
CASE_IMPORTS = "From GV Require Import Prelude.Base Model.GridIndex Model.Octree Model.Parts.\nFrom Coq Require Import QArith."
ALLOWED_AXIOMS: list = []
REFUTED = [
    "C17_origin_inplace_refuted (an accepted in-place write `obj.origin[\"x\"] = v` changes the reported origin without resetting the "
    "centroid cache; open finding origin-inplace-stale; proposed fixes/C17-origin-inplace-readonly.patch)",
    "C17_parts_from_cells_refuted (labels from unordered cells disagree with connectivity; open finding parts-unordered-cells)",
    "C17_parts_unused_refuted (a vertex outside every segment shares label 0; open finding parts-unused-vertex)",
    "C17_first_delim_old_code_refuted (pre-repair transcription; repaired by /repo commit 4d6510a = fixes/C17-first-delimiter.patch)",
    "C17_default_origin_old_code_refuted (pre-repair transcription; repaired by /repo commit 28d2509 = fixes/C17-default-origin.patch)",
]
PARTIAL = [
    "C17_parts_from_cells_partial (chain-ordered, vertex-disjoint open polylines, vertices that belong to a segment)",
    "rotation / dip: the code's matrices are proved to be rigid motions about the origin for any (cos, sin) with c^2+s^2=1 "
    "(C17_*_rotated_about_origin); that numpy's cos/sin are such a pair is not proved (correspondence on multiples of 90 degrees "
    "compared after rounding to 2^-20; arbitrary angles by the oracle to 1e-9)",
]
TRUSTED = [
    "Coq 8.16.1 kernel + vm_compute (correspondence evaluation); no axioms (Print Assumptions: closed)",
    "hand-written models coq/theories/Model/{GridIndex,Octree,Parts}.v of BlockModel/Grid2D/Octree/DrapeModel.centroids, "
    "Octree.base_refine, Curve.cells/parts; tied to the code by running both on the same generated inputs and setter histories",
    "numpy meshgrid/ravel/cumsum/unique/where semantics and float arithmetic on dyadic inputs (exercised, not modelled); "
    "floats are compared after rounding to multiples of 2^-20 (tolerance 1e-9)",
    "tools/props/c17.py (generator, driver, float->rational canonicalisation, oracle written from docs/content/geoh5_format/analyst/objects.rst)",
    "the `vertical`/`dip` interplay of Grid2D is modelled as observed (the dip getter snaps to 90 while vertical)",
]
ASSUMPTIONS = [
    "delimiters, cell sizes and origins are dyadic rationals of small magnitude; rotations and dips are multiples of 90 degrees",
    "octree counts are powers of two (enforced by the setters); custom octree cells are given as int (I,J,K,NCells) rows",
    "the model follows the repaired code (/repo commits 28d2509 default origin, 4d6510a first delimiter = fixes/C17-*.patch); on a tree "
    "without them the oracle reports bm-default-origin-indexerror / octree-default-origin-indexerror / bm-first-delimiter-ignored",
]
RULE = (
    "block models of every shape up to 4x4x4 (thorough) / 3x3x3 plus random 4s (quick) with increasing, decreasing and mixed "
    "delimiters whose first entry is 0, negative or positive, origin given or not, rotation in multiples of 90, followed by a "
    "history of setter calls and centroid reads; 2-D grids up to 4x4 with dip/vertical/rotation histories; octrees for all "
    "exponent triples up to 2^5 (cell count capped) with default and custom cells; every part labelling (restricted growth "
    "strings, randomly relabelled) of up to 6 (quick) / 8 (thorough) vertices and random cell lists (chains, unordered, "
    "branching, out-of-range); drape models well-formed and malformed. non-trivial = more than one cell and (a history with a "
    "setter between two reads, or a non-zero first delimiter, or no origin, or a non-trivial labelling)"
)
LEVEL_TEXT = (
    "Proved for all inputs (Coq, no axioms): block-model cell (i,j,k) is at index k+i*nZ+j*nU*nZ and 2-D grid cell (i,j) at "
    "i+j*nU of the centroid array, each centre being rot(dip(local centre))+origin with local centres the mid points of "
    "consecutive delimiters (all delimiter vectors, origin given or not); the number of centroids equals n_cells for block "
    "model, grid and octree; every read after any history of API CALLS (setters / getters; writes into arrays that getters hand out "
    "are not calls: origin[\"x\"] = v is modelled and refuted, writes into the returned centroid array are out of scope) returns the "
    "centroids of the current attributes (cache coherence); a well-formed drape model has one centre per layer at (x, y, mid point of the layer's top and bottom); the default octree tiles the base grid exactly once for ALL power-of-two dimensions (unbounded); curve cells "
    "derived from parts join exactly the consecutive vertices of a part. Partial: parts derived from cells agree with "
    "connectivity only for chain-ordered vertex-disjoint polylines on used vertices (refuted otherwise: two open findings); "
    "rotation and dip are parameters (float trigonometry not proved). Two defects of the pre-repair code (default origin "
    "IndexError, first delimiter ignored) are refuted for the old transcription and repaired by fix patches. The model is tied "
    "to the code on every run by evaluating it inside Coq on generated inputs and histories."
)
TECHNIQUE = "Coq proofs by induction on lists (flat_map index lemma, div/mod tiling argument, loop invariant) + in-Coq differential evaluation"

SCALE = 1 << 20


# ----------------------------------------------------------------------------- small helpers
def _fr(x) -> Fraction:
    return Fraction(x).limit_denominator(1 << 24) if isinstance(x, float) else Fraction(x)


def cq(x) -> str:
    f = _fr(x)
    n = f"({f.numerator})%Z" if f.numerator < 0 else f"{f.numerator}%Z"
    return f"(Qmake {n} {f.denominator}%positive)"


def cv3(p) -> str:
    return "(" + ", ".join(cq(x) for x in p) + ")"


def _obs_num(x):
    """float -> 'n/d' string after rounding to the 2^-20 grid, or a tagged float when that is not within 1e-9."""
    x = float(x)
    if x != x or abs(x) > 1e12:
        return {"float": repr(x)}
    r = round(x * SCALE)
    if abs(x - r / SCALE) > 1e-9:
        return {"float": repr(x)}
    f = Fraction(r, SCALE)
    return f"{f.numerator}/{f.denominator}"


def _obs_arr(a):
    return [[_obs_num(x) for x in row] for row in a]


def _exact(rows) -> bool:
    return all(isinstance(x, str) for row in rows for x in row)


def _rows_term(rows) -> str:
    return clist(cv3([Fraction(x) for x in row]) for row in rows)


# ----------------------------------------------------------------------------- generation
ANGLES = [0, 90, 180, 270, -90, 450, 360, -180]
STEPS = [0.5, 1, 2, 2.5, 0.25, 3]
FIRSTS = [0, 0, 0, -10, 2.5, -0.5, 4]


def gen_delims(rng, n):
    """n cells -> n+1 delimiters: increasing / decreasing / (rarely) mixed sign steps."""
    mode = rng.weighted([("inc", 50), ("dec", 35), ("mixed", 15)])
    d = [rng.choice(FIRSTS)]
    for _ in range(n):
        s = rng.choice(STEPS)
        if mode == "dec" or (mode == "mixed" and rng.chance(50)):
            s = -s
        d.append(d[-1] + s)
    return d


def gen_origin(rng, p_none=35):
    if rng.chance(p_none):
        return None
    return [rng.range(-8, 8) * 0.5, rng.range(-8, 8) * 0.5, rng.range(-4, 4) * 0.25]


def gen_bm_ops(rng, shape):
    ops = [["read"]]
    for _ in range(rng.range(0, 4)):
        kind = rng.weighted([("origin", 25), ("rotation", 25), ("du", 15), ("dv", 15), ("dz", 15), ("read", 5)])
        if kind == "origin":
            ops.append(["origin", gen_origin(rng, 0)])
        elif kind == "rotation":
            ops.append(["rotation", rng.choice(ANGLES)])
        elif kind in ("du", "dv", "dz"):
            ops.append([kind, gen_delims(rng, rng.range(1, 4))])
        else:
            ops.append(["read"])
        if rng.chance(75):
            ops.append(["read"])
    if ops[-1] != ["read"]:
        ops.append(["read"])
    return _with_inplace(rng, ops)


def _with_inplace(rng, ops):
    """sometimes: read, then an in-place edit of the array the `origin` getter hands out (obj.origin["x"] = v), then read."""
    if rng.chance(15):
        k = rng.range(1, len(ops))
        ops = ops[:k] + [["origin_x", rng.range(-8, 8) * 0.5], ["read"]] + ops[k:]
    return ops


def gen_bm(rng, shape, with_ops):
    nu, nv, nz = shape
    return {"kind": "bm", "origin": gen_origin(rng), "rotation": rng.choice(ANGLES) if rng.chance(70) else None,
            "du": gen_delims(rng, nu), "dv": gen_delims(rng, nv), "dz": gen_delims(rng, nz),
            "ops": gen_bm_ops(rng, shape) if with_ops else [["read"]]}


def gen_g2(rng, shape):
    nu, nv = shape
    sizes = [0.5, 1.0, 2.0, 2.5, -1.0, 0.25]
    case = {"kind": "g2", "origin": gen_origin(rng, 40), "nu": nu, "nv": nv, "su": rng.choice(sizes), "sv": rng.choice(sizes),
            "rotation": rng.choice(ANGLES) if rng.chance(70) else None, "dip": None, "vertical": None}
    w = rng.below(100)
    if w < 35:
        case["dip"] = rng.choice([0, 90, 180, -90, 270])
    elif w < 50:
        case["vertical"] = True
    ops = [["read"]]
    for _ in range(rng.range(0, 4)):
        kind = rng.weighted([("origin", 15), ("rotation", 20), ("dip", 20), ("vertical", 10), ("nu", 8), ("nv", 8), ("su", 8), ("sv", 8), ("read", 3)])
        if kind == "origin":
            ops.append(["origin", gen_origin(rng, 0)])
        elif kind == "rotation":
            ops.append(["rotation", rng.choice(ANGLES)])
        elif kind == "dip":
            ops.append(["dip", rng.choice([0, 90, 180, -90, 270])])
        elif kind == "vertical":
            ops.append(["vertical", rng.chance(60)])
        elif kind in ("nu", "nv"):
            ops.append([kind, rng.range(1, 4)])
        elif kind in ("su", "sv"):
            ops.append([kind, rng.choice(sizes)])
        else:
            ops.append(["read"])
        if rng.chance(75):
            ops.append(["read"])
    if ops[-1] != ["read"]:
        ops.append(["read"])
    case["ops"] = _with_inplace(rng, ops)
    return case


def gen_oct(rng, exps, custom=False):
    sizes = [0.5, 1.0, 2.0, 2.5, 0.25]
    case = {"kind": "oct", "origin": gen_origin(rng, 40), "rotation": rng.choice(ANGLES) if rng.chance(60) else None,
            "eu": exps[0], "ev": exps[1], "ew": exps[2], "su": rng.choice(sizes), "sv": rng.choice(sizes), "sw": rng.choice(sizes),
            "cells": None}
    if custom:
        # a refined mesh: split the first default cube into 8 when possible, else arbitrary rows
        n = rng.range(1, 6)
        case["cells"] = [[rng.range(0, 6), rng.range(0, 6), rng.range(0, 6), rng.choice([1, 1, 2, 4])] for _ in range(n)]
    ops = [["read"]]
    for _ in range(rng.range(0, 3)):
        kind = rng.weighted([("origin", 30), ("rotation", 30), ("su", 12), ("sv", 12), ("sw", 12), ("cells", 6)])
        if kind == "origin":
            ops.append(["origin", gen_origin(rng, 0)])
        elif kind == "rotation":
            ops.append(["rotation", rng.choice(ANGLES)])
        elif kind == "cells":
            ops.append(["cells", [[rng.range(0, 6), rng.range(0, 6), rng.range(0, 6), rng.choice([1, 2, 4])] for _ in range(rng.range(1, 4))]])
        else:
            ops.append([kind, rng.choice(sizes)])
        if rng.chance(75):
            ops.append(["read"])
    if ops[-1] != ["read"]:
        ops.append(["read"])
    case["ops"] = _with_inplace(rng, ops)
    return case


def rgs(n):
    """all restricted growth strings of length n (= set partitions of n labelled vertices)."""
    out = []

    def rec(prefix, mx):
        if len(prefix) == n:
            out.append(list(prefix))
            return
        for v in range(mx + 2):
            rec(prefix + [v], max(mx, v))

    rec([0], 0)
    return out


def gen_cells_case(rng):
    nv = rng.range(2, 8)
    mode = rng.weighted([("chains", 45), ("shuffled", 25), ("random", 25), ("oob", 5)])
    verts = rng.shuffle(list(range(nv)))
    if rng.chance(40):
        verts = sorted(verts)
    if rng.chance(35) and nv > 2:
        verts = verts[: nv - rng.range(1, 2)]  # unused vertices
    chains, i = [], 0
    while i < len(verts) - 1:
        ln = min(len(verts) - i, rng.range(2, 4))
        chains.append(verts[i:i + ln])
        i += ln
    cells = [[c[k], c[k + 1]] for c in chains for k in range(len(c) - 1)]
    if mode == "shuffled":
        cells = rng.shuffle(cells)
        if rng.chance(40):
            cells = [c[::-1] if rng.chance(50) else c for c in cells]
    elif mode == "random":
        cells = [[rng.below(nv), rng.below(nv)] for _ in range(rng.range(0, 6))]
    elif mode == "oob" and cells:
        k = rng.below(len(cells))
        cells[k] = [cells[k][0], nv + rng.range(0, 2)]
    return {"kind": "cells", "nv": nv, "cells": cells}


def gen_drape(rng):
    npr = rng.range(1, 4)
    prisms, layers, first = [], [], 0
    for p in range(npr):
        cnt = rng.range(1, 4)
        top = rng.range(-4, 8) * 0.5
        prisms.append([rng.range(-4, 4) * 0.5, rng.range(-4, 4) * 0.5, top, first, cnt])
        z = top
        for k in range(cnt):
            z -= rng.choice([0.5, 1, 1.5, 2])
            layers.append([p, k, z])
        first += cnt
    mal = rng.below(100)
    if mal < 12 and len(layers) >= 3:  # malformed: counts that do not add up to the number of layers
        prisms[-1][4] += rng.choice([1, 2])
    elif mal < 20 and npr >= 2:  # malformed: first-layer indices out of order
        prisms[0][3], prisms[1][3] = prisms[1][3], prisms[0][3]
    return {"kind": "drape", "prisms": prisms, "layers": layers}


def generate(rng, tier):
    thorough = tier != "quick"
    cases = []
    # ---- block models: all small shapes
    top = 4 if thorough else 3
    for shape in itertools.product(range(1, top + 1), repeat=3):
        cases.append(gen_bm(rng, shape, with_ops=rng.chance(40)))
    for _ in range(400 if thorough else 45):
        cases.append(gen_bm(rng, (rng.range(1, 4), rng.range(1, 4), rng.range(1, 4)), with_ops=True))
    # the probe of the design phase
    cases.append({"kind": "bm", "origin": [0, 0, 0], "rotation": None, "du": [-10, -5, 0], "dv": [0, 1], "dz": [0, 1, 3, 4], "ops": [["read"]]})
    cases.append({"kind": "bm", "origin": None, "rotation": None, "du": [0, 1, 2], "dv": [0, 1], "dz": [0, 1, 3, 4], "ops": [["read"]]})
    # ---- arbitrary rotation / dip angles (oracle only, 1e-9): rotated about the origin, counter-clockwise, dip before rotation
    odd = [30, 45, -37.5, 200.25, 123, 60, 10]
    for _ in range(200 if thorough else 14):
        c = gen_bm(rng, (rng.range(1, 3), rng.range(1, 3), rng.range(1, 3)), with_ops=True)
        c["rotation"] = rng.choice(odd)
        c["origin"] = gen_origin(rng, 10)
        c["ops"] = [["rotation", rng.choice(odd)] if op[0] == "rotation" and rng.chance(70) else op for op in c["ops"]]
        cases.append(c)
    for _ in range(200 if thorough else 14):
        c = gen_g2(rng, (rng.range(1, 3), rng.range(1, 3)))
        c["rotation"] = rng.choice(odd)
        c["origin"] = gen_origin(rng, 10)
        if c.get("vertical") is None:
            c["dip"] = rng.choice([30, 45, -20, 60, 0, 90])
        c["ops"] = [[op[0], rng.choice(odd)] if op[0] in ("rotation", "dip") and rng.chance(70) else op for op in c["ops"]]
        cases.append(c)
    for _ in range(120 if thorough else 8):
        c = gen_oct(rng, (rng.range(0, 2), rng.range(0, 2), rng.range(0, 2)), custom=rng.chance(40))
        c["rotation"] = rng.choice(odd)
        c["origin"] = gen_origin(rng, 10)
        cases.append(c)
    # ---- 2-D grids
    for shape in itertools.product(range(1, 5), repeat=2):
        cases.append(gen_g2(rng, shape))
    for _ in range(300 if thorough else 40):
        cases.append(gen_g2(rng, (rng.range(1, 4), rng.range(1, 4))))
    # ---- octrees: all exponent triples up to 2^5 whose default cell count stays small
    cap = 4096 if thorough else 128
    triples = [t for t in itertools.product(range(0, 6), repeat=3) if 2 ** (sum(t) - 3 * min(t)) <= cap]
    if not thorough:
        triples = [t for t in triples if rng.chance(45) or max(t) == 5 or min(t) == max(t)]
    for t in triples:
        cases.append(gen_oct(rng, t))
    for _ in range(60 if thorough else 12):
        cases.append(gen_oct(rng, (rng.range(0, 3), rng.range(0, 3), rng.range(0, 3)), custom=True))
    cases.append({"kind": "oct", "origin": None, "rotation": None, "eu": 2, "ev": 1, "ew": 3, "su": 1.0, "sv": 1.0, "sw": 1.0,
                  "cells": None, "ops": [["read"]]})
    # ---- curves: every labelling (up to relabelling) of few vertices + relabelled copies
    nmax = 8 if thorough else 6
    for n in range(1, nmax + 1):
        for lab in rgs(n):
            cases.append({"kind": "parts", "parts": lab})
            if n >= 2 and rng.chance(100 if thorough else 35):
                perm = rng.shuffle(list(range(-2, n + 2)))
                cases.append({"kind": "parts", "parts": [perm[v] for v in lab]})
    for _ in range(1500 if thorough else 120):
        cases.append(gen_cells_case(rng))
    cases.append({"kind": "cells", "nv": 3, "cells": [[1, 2], [0, 1]]})
    cases.append({"kind": "cells", "nv": 3, "cells": [[1, 2]]})
    # ---- drape models
    for _ in range(300 if thorough else 40):
        cases.append(gen_drape(rng))
    return cases


# ----------------------------------------------------------------------------- implementation driver
def _org(o):
    import numpy as np

    if getattr(o, "dtype", None) is not None and o.dtype.names:
        return [float(o["x"]), float(o["y"]), float(o["z"])]
    return [float(x) for x in np.asarray(o, dtype=float).ravel().tolist()]


def _read(obj, kind):
    """centroids + n_cells, then the attributes the object reports at that moment (what the format formulas are applied to)."""
    import numpy as np

    c = obj.centroids
    n = obj.n_cells
    res = {"centroids": _obs_arr(np.asarray(c, dtype=float).tolist()), "raw": np.asarray(c, dtype=float).tolist(),
           "n_cells": None if n is None else int(n)}
    at = {"origin": _org(obj.origin), "rotation": float(obj.rotation)}
    if kind == "bm":
        at.update(du=obj.u_cell_delimiters.tolist(), dv=obj.v_cell_delimiters.tolist(), dz=obj.z_cell_delimiters.tolist())
    elif kind == "g2":
        at.update(nu=int(obj.u_count), nv=int(obj.v_count), su=float(obj.u_cell_size), sv=float(obj.v_cell_size),
                  dip=float(obj.dip), vertical=bool(obj.vertical))
    else:
        oc = obj.octree_cells
        at.update(su=float(obj.u_cell_size), sv=float(obj.v_cell_size), sw=float(obj.w_cell_size),
                  cells=[[int(r["I"]), int(r["J"]), int(r["K"]), int(r["NCells"])] for r in oc])
    res["attrs"] = at
    return res


def _drive_grid(case, ws):
    import numpy as np
    from geoh5py.objects import BlockModel, Grid2D, Octree

    kind = case["kind"]
    kw = {}
    if case.get("origin") is not None:
        kw["origin"] = [float(x) for x in case["origin"]]
    if case.get("rotation") is not None:
        kw["rotation"] = float(case["rotation"])
    res = {"reads": []}
    if kind == "bm":
        kw.update(u_cell_delimiters=np.array(case["du"], dtype=float), v_cell_delimiters=np.array(case["dv"], dtype=float),
                  z_cell_delimiters=np.array(case["dz"], dtype=float))
        obj = BlockModel.create(ws, **kw)
        setters = {"origin": lambda v: setattr(obj, "origin", [float(x) for x in v]), "rotation": lambda v: setattr(obj, "rotation", float(v)),
                   "du": lambda v: setattr(obj, "u_cell_delimiters", np.array(v, dtype=float)),
                   "dv": lambda v: setattr(obj, "v_cell_delimiters", np.array(v, dtype=float)),
                   "dz": lambda v: setattr(obj, "z_cell_delimiters", np.array(v, dtype=float))}
    elif kind == "g2":
        kw.update(u_count=case["nu"], v_count=case["nv"], u_cell_size=float(case["su"]), v_cell_size=float(case["sv"]))
        if case.get("dip") is not None:
            kw["dip"] = float(case["dip"])
        if case.get("vertical") is not None:
            kw["vertical"] = bool(case["vertical"])
        obj = Grid2D.create(ws, **kw)
        setters = {"origin": lambda v: setattr(obj, "origin", [float(x) for x in v]), "rotation": lambda v: setattr(obj, "rotation", float(v)),
                   "dip": lambda v: setattr(obj, "dip", float(v)), "vertical": lambda v: setattr(obj, "vertical", bool(v)),
                   "nu": lambda v: setattr(obj, "u_count", int(v)), "nv": lambda v: setattr(obj, "v_count", int(v)),
                   "su": lambda v: setattr(obj, "u_cell_size", float(v)), "sv": lambda v: setattr(obj, "v_cell_size", float(v))}
    else:
        kw.update(u_count=2 ** case["eu"], v_count=2 ** case["ev"], w_count=2 ** case["ew"],
                  u_cell_size=float(case["su"]), v_cell_size=float(case["sv"]), w_cell_size=float(case["sw"]))
        if case.get("cells") is not None:
            kw["octree_cells"] = np.array(case["cells"], dtype="int32")
        obj = Octree.create(ws, **kw)
        oc = obj.octree_cells
        res["octree_cells"] = [[int(r["I"]), int(r["J"]), int(r["K"]), int(r["NCells"])] for r in oc]
        setters = {"origin": lambda v: setattr(obj, "origin", [float(x) for x in v]), "rotation": lambda v: setattr(obj, "rotation", float(v)),
                   "su": lambda v: setattr(obj, "u_cell_size", float(v)), "sv": lambda v: setattr(obj, "v_cell_size", float(v)),
                   "sw": lambda v: setattr(obj, "w_cell_size", float(v)),
                   "cells": lambda v: setattr(obj, "octree_cells", np.array(v, dtype="int32"))}
    res["inplace_refused"] = []
    for k, op in enumerate(case["ops"]):
        try:
            if op[0] == "read":
                res["reads"].append(_read(obj, kind))
            elif op[0] == "origin_x":
                # not a setter call: a write into the array the getter handed out; a refusal (read-only array) is an outcome
                try:
                    obj.origin["x"] = float(op[1])
                    res["inplace_refused"].append(False)
                except (ValueError, TypeError, IndexError):
                    res["inplace_refused"].append(True)
            else:
                setters[op[0]](op[1])
        except Exception as e:  # noqa: BLE001 - the refusal is the observation
            res["error"] = type(e).__name__
            res["msg"] = str(e)[:160]
            res["at"] = k
            break
    return res


def _drive_curve(case, ws):
    import numpy as np
    from geoh5py.objects import Curve

    if case["kind"] == "parts":
        n = len(case["parts"])
        verts = np.c_[np.arange(n, dtype=float), np.zeros(n), np.zeros(n)]
        res = {}
        try:
            c = Curve.create(ws, vertices=verts, parts=list(case["parts"]))
            cells = c.cells
            res["cells"] = np.asarray(cells).astype(int).tolist()
            res["parts"] = np.asarray(c.parts).astype(int).tolist()
        except Exception as e:  # noqa: BLE001
            res["error"] = type(e).__name__
            res["msg"] = str(e)[:160]
        return res
    n = case["nv"]
    verts = np.c_[np.arange(n, dtype=float), np.zeros(n), np.zeros(n)]
    res = {}
    try:
        c = Curve.create(ws, vertices=verts, cells=np.array(case["cells"], dtype="int32").reshape((-1, 2)))
        res["cells"] = np.asarray(c.cells).astype(int).tolist()
        res["parts"] = np.asarray(c.parts).astype(int).tolist()
    except Exception as e:  # noqa: BLE001
        res["error"] = type(e).__name__
        res["msg"] = str(e)[:160]
    return res


def _drive_drape(case, ws):
    import numpy as np
    from geoh5py.objects import DrapeModel

    res = {}
    try:
        dm = DrapeModel.create(ws, layers=np.array(case["layers"], dtype=float), prisms=np.array(case["prisms"], dtype=float))
        c = dm.centroids
        res["centroids"] = _obs_arr(np.asarray(c, dtype=float).tolist())
        res["n_cells"] = int(dm.n_cells)
    except Exception as e:  # noqa: BLE001
        res["error"] = type(e).__name__
        res["msg"] = str(e)[:160]
    return res


def drive_one(case, work):
    from geoh5py import Workspace

    path = f"{work}/c17.geoh5"
    if os.path.exists(path):
        os.remove(path)
    try:
        with Workspace.create(path) as ws:
            if case["kind"] in ("bm", "g2", "oct"):
                return _drive_grid(case, ws)
            if case["kind"] in ("parts", "cells"):
                return _drive_curve(case, ws)
            return _drive_drape(case, ws)
    finally:
        if os.path.exists(path):
            os.remove(path)


# ----------------------------------------------------------------------------- Coq case terms
def _opt_v3(o):
    return "None" if o is None else f"(Some {cv3(o)})"


def _qlist(l):
    return clist(cq(x) for x in l)


def _reads_term(obs):
    return clist(_rows_term(r["centroids"]) for r in obs["reads"])


def _ocells(rows):
    return clist("(" + ", ".join(cz(int(x)) for x in r) + ")" for r in rows)


def _n_reads(case):
    return sum(1 for op in case["ops"] if op[0] == "read")


def case_term(case, obs):
    kind = case["kind"]
    if kind in ("bm", "g2", "oct"):
        if not _exact_angles(case):
            return None  # arbitrary angle: float trigonometry, judged by the oracle to 1e-9
        if "error" in obs or len(obs.get("reads", [])) != _n_reads(case):
            return "false"  # the model of the (repaired) code never refuses these histories
        if not all(_exact(r["centroids"]) for r in obs["reads"]):
            return "false"
        rot = cq(case["rotation"] if case.get("rotation") is not None else 0)
    if kind == "bm":
        ops = []
        refused = iter(obs.get("inplace_refused", []))
        for op in case["ops"]:
            if op[0] == "origin_x":
                ops.append(f"BmOriginX {cbool(next(refused))} {cq(op[1])}")
                continue
            ops.append({"read": lambda v: "BmRead", "origin": lambda v: f"BmOrigin {cv3(v)}", "rotation": lambda v: f"BmRotation {cq(v)}",
                        "du": lambda v: f"BmDU {_qlist(v)}", "dv": lambda v: f"BmDV {_qlist(v)}", "dz": lambda v: f"BmDZ {_qlist(v)}"}[op[0]](op[1] if len(op) > 1 else None))
        b = "{| bm_origin := %s; bm_rotation := %s; bm_du := %s; bm_dv := %s; bm_dz := %s; bm_cache := None |}" % (
            _opt_v3(case["origin"]), rot, _qlist(case["du"]), _qlist(case["dv"]), _qlist(case["dz"]))
        return f"bm_agree {b} {clist(ops)} {_reads_term(obs)}"
    if kind == "g2":
        ops = []
        refused = iter(obs.get("inplace_refused", []))
        for op in case["ops"]:
            if op[0] == "origin_x":
                ops.append(f"GOriginX {cbool(next(refused))} {cq(op[1])}")
                continue
            ops.append({"read": lambda v: "GRead", "origin": lambda v: f"GOrigin {cv3(v)}", "rotation": lambda v: f"GRotation {cq(v)}",
                        "dip": lambda v: f"GDip {cq(v)}", "vertical": lambda v: f"GVertical {cbool(bool(v))}",
                        "nu": lambda v: f"GNu {cnat(v)}", "nv": lambda v: f"GNv {cnat(v)}", "su": lambda v: f"GSu {cq(v)}",
                        "sv": lambda v: f"GSv {cq(v)}"}[op[0]](op[1] if len(op) > 1 else None))
        vertical = bool(case.get("vertical")) or case.get("dip") == 90
        dip = 90 if vertical else (case.get("dip") or 0)
        g = "{| g_origin := %s; g_nu := %s; g_nv := %s; g_su := %s; g_sv := %s; g_rotation := %s; g_dip := %s; g_vertical := %s; g_cache := None |}" % (
            cv3(case["origin"] or [0, 0, 0]), cnat(case["nu"]), cnat(case["nv"]), cq(case["su"]), cq(case["sv"]), rot, cq(dip), cbool(vertical))
        return f"g_agree {g} {clist(ops)} {_reads_term(obs)}"
    if kind == "oct":
        ops = []
        refused = iter(obs.get("inplace_refused", []))
        for op in case["ops"]:
            if op[0] == "origin_x":
                ops.append(f"OOriginX {cbool(next(refused))} {cq(op[1])}")
                continue
            ops.append({"read": lambda v: "ORead", "origin": lambda v: f"OOrigin {cv3(v)}", "rotation": lambda v: f"ORotation {cq(v)}",
                        "su": lambda v: f"OSu {cq(v)}", "sv": lambda v: f"OSv {cq(v)}", "sw": lambda v: f"OSw {cq(v)}",
                        "cells": lambda v: f"OCells {_ocells(v)}"}[op[0]](op[1] if len(op) > 1 else None))
        cells = "None" if case.get("cells") is None else f"(Some {_ocells(case['cells'])})"
        o = ("{| o_origin := %s; o_rotation := %s; o_eu := %s; o_ev := %s; o_ew := %s; o_su := %s; o_sv := %s; o_sw := %s; "
             "o_cells := %s; o_cache := None |}") % (_opt_v3(case["origin"]), rot, cnat(case["eu"]), cnat(case["ev"]), cnat(case["ew"]),
                                                    cq(case["su"]), cq(case["sv"]), cq(case["sw"]), cells)
        return f"o_agree {o} {clist(ops)} {_ocells(obs['octree_cells'])} {_reads_term(obs)}"
    if kind == "parts":
        if "error" in obs:
            return "false"
        cells = clist(f"({cnat(a)}, {cnat(b)})" for a, b in obs["cells"])
        parts = "(Ok %s)" % clist(cnat(p) for p in obs["parts"])
        return f"roundtrip_agree {clist(cz(p) for p in case['parts'])} {cells} {parts}"
    if kind == "cells":
        if any(v < 0 for c in case["cells"] for v in c):
            return None
        cells = clist(f"({cnat(a)}, {cnat(b)})" for a, b in case["cells"])
        if "error" in obs:
            if obs["error"] != "IndexError":
                return "false"
            return f"parts_agree {cnat(case['nv'])} {cells} (Err IndexError)"
        return f"parts_agree {cnat(case['nv'])} {cells} (Ok {clist(cnat(p) for p in obs['parts'])})"
    if kind == "drape":
        prisms = clist("{| px := %s; py := %s; ptop := %s; pfirst := %s; pcount := %s |}" % (cq(p[0]), cq(p[1]), cq(p[2]), cnat(int(p[3])), cnat(int(p[4])))
                       for p in case["prisms"])
        bottoms = _qlist([l[2] for l in case["layers"]])
        # numpy broadcasts length-1 operands: outside the model
        n = len(case["layers"])
        ntops = sum(1 + max(0, min(n, int(p[3]) + int(p[4]) - 1) - int(p[3])) for p in case["prisms"])
        nxy = sum(int(p[4]) for p in case["prisms"])
        if len({n, ntops, nxy}) > 1 and 1 in (n, ntops, nxy):
            return None
        if "error" in obs:
            if obs["error"] != "ValueError":
                return "false"
            return f"drape_agree {prisms} {bottoms} (Err ValueError)"
        if not _exact(obs["centroids"]):
            return "false"
        return f"drape_agree {prisms} {bottoms} (Ok {_rows_term(obs['centroids'])})"
    return None


def model_term(case):
    kind = case["kind"]
    if kind == "parts":
        p = clist(cz(x) for x in case["parts"])
        return f"(cells_of_parts {p}, parts_of_cells {cnat(len(case['parts']))} (cells_of_parts {p}))"
    if kind == "cells" and all(v >= 0 for c in case["cells"] for v in c):
        cells = clist(f"({cnat(a)}, {cnat(b)})" for a, b in case["cells"])
        return f"parts_of_cells {cnat(case['nv'])} {cells}"
    if kind == "oct":
        return f"base_refine {cnat(case['eu'])} {cnat(case['ev'])} {cnat(case['ew'])}"
    return None


# ----------------------------------------------------------------------------- oracle (property text / format documentation)
def _cs(angle):
    """(cos, sin) of an angle in degrees: exact for multiples of 90, floats otherwise."""
    q = (Fraction(angle) / 90) % 4
    if q.denominator == 1:
        return {0: (1, 0), 1: (0, 1), 2: (-1, 0), 3: (0, -1)}[int(q)]
    import math

    return (math.cos(math.radians(float(angle))), math.sin(math.radians(float(angle))))


def _quarter(angle) -> bool:
    return angle is None or (Fraction(angle) / 90).denominator == 1


def _exact_angles(case) -> bool:
    vals = [case.get("rotation"), case.get("dip")] + [op[1] for op in case.get("ops", []) if op[0] in ("rotation", "dip")]
    return all(_quarter(v) for v in vals)


def _rotz(angle, p):
    c, s = _cs(angle)
    return (c * p[0] - s * p[1], s * p[0] + c * p[1], p[2])


def _rotx(angle, p):
    c, s = _cs(angle)
    return (p[0], c * p[1] - s * p[2], s * p[1] + c * p[2])


def _mid(d):
    return [(Fraction(d[i]) + Fraction(d[i + 1])) / 2 for i in range(len(d) - 1)]


def _as_fr(rows):
    return [tuple(Fraction(x) for x in r) for r in rows]


def _oracle_grid(case, obs):
    """every read: centroids follow the format formulas applied to the attributes the object reports at that moment."""
    fails = []
    kind = case["kind"]
    origin_given = case.get("origin") is not None
    if kind == "oct" and case.get("cells") is None and obs.get("octree_cells") is not None:
        # the default octree tiles the base grid exactly once
        import numpy as np

        nu, nv, nw = 2 ** case["eu"], 2 ** case["ev"], 2 ** case["ew"]
        cover = np.zeros((nu, nv, nw), dtype=int)
        inside = True
        for i, j, k, s in obs["octree_cells"]:
            if s <= 0 or i < 0 or j < 0 or k < 0 or i + s > nu or j + s > nv or k + s > nw:
                inside = False
                continue
            cover[i:i + s, j:j + s, k:k + s] += 1
        if not inside or not (cover == 1).all():
            fails.append({"key": "octree-default-not-a-tiling", "what": f"default cells of {nu}x{nv}x{nw} do not cover every base cell exactly once"})
    ri = 0
    prev_expected = None
    refused = iter(obs.get("inplace_refused", []))
    inplace_pending = False  # an accepted origin["x"] = v since the last setter call
    for k, op in enumerate(case["ops"]):
        if op[0] == "origin_x":
            if not next(refused, True):
                inplace_pending = True
            continue
        if op[0] not in ("read",):
            inplace_pending = False
        if "error" in obs and obs.get("at") == k:
            if obs["error"] == "IndexError" and not origin_given and op[0] == "read":
                key = "bm-default-origin-indexerror" if kind == "bm" else ("octree-default-origin-indexerror" if kind == "oct" else "grid-read-refused")
            else:
                key = f"{kind}-op-refused-{op[0]}"
            fails.append({"key": key, "what": f"op {k} {op[0]} raised {obs['error']}: {obs.get('msg')}"})
            break
        if op[0] == "origin":
            origin_given = True
        if op[0] != "read":
            continue
        if ri >= len(obs.get("reads", [])):
            break
        rd = obs["reads"][ri]
        ri += 1
        st = rd["attrs"]
        approx = not (_quarter(st["rotation"]) and (kind != "g2" or st["vertical"] or _quarter(st["dip"])))
        if approx:
            got = [tuple(r) for r in rd["raw"]]  # arbitrary angle: floats, compared to 1e-9
        elif not _exact(rd["centroids"]):
            fails.append({"key": f"{kind}-inexact-centroid", "what": "a centroid is not a dyadic rational within 1e-9 on exact inputs"})
            continue
        else:
            got = _as_fr(rd["centroids"])
        org = tuple(Fraction(x) for x in st["origin"])
        rot = Fraction(st["rotation"])
        alt = None
        if kind == "bm":
            cu, cv, cw = _mid(st["du"]), _mid(st["dv"]), _mid(st["dz"])
            nU, nV, nZ = len(cu), len(cv), len(cw)
            exp = [None] * (nU * nV * nZ)
            alt = [None] * (nU * nV * nZ)
            for i in range(nU):
                for j in range(nV):
                    for kk in range(nZ):
                        p = _rotz(rot, (cu[i], cv[j], cw[kk]))
                        exp[kk + i * nZ + j * nU * nZ] = tuple(a + b for a, b in zip(p, org))
                        q = _rotz(rot, (cu[i] - Fraction(st["du"][0]), cv[j] - Fraction(st["dv"][0]), cw[kk] - Fraction(st["dz"][0])))
                        alt[kk + i * nZ + j * nU * nZ] = tuple(a + b for a, b in zip(q, org))
            ncell = nU * nV * nZ
        elif kind == "g2":
            nU, nV = st["nu"], st["nv"]
            dip = 90 if st["vertical"] else Fraction(st["dip"])
            exp = [None] * (nU * nV)
            for i in range(nU):
                for j in range(nV):
                    loc = ((i + Fraction(1, 2)) * Fraction(st["su"]), (j + Fraction(1, 2)) * Fraction(st["sv"]), Fraction(0))
                    p = _rotz(rot, _rotx(dip, loc))
                    exp[i + j * nU] = tuple(a + b for a, b in zip(p, org))
            ncell = nU * nV
        else:
            exp = []
            for i, j, kk, s in st["cells"]:
                loc = ((i + Fraction(s, 2)) * Fraction(st["su"]), (j + Fraction(s, 2)) * Fraction(st["sv"]), (kk + Fraction(s, 2)) * Fraction(st["sw"]))
                p = _rotz(rot, loc)
                exp.append(tuple(a + b for a, b in zip(p, org)))
            ncell = len(st["cells"])
        if rd["n_cells"] != ncell or len(got) != ncell:
            fails.append({"key": f"{kind}-count", "what": f"read {ri - 1}: {len(got)} centroids, n_cells={rd['n_cells']}, expected {ncell}"})
        elif _differ(got, exp, approx):
            if inplace_pending and _x_shift_only(got, exp, approx):
                # the recorded defect: an accepted in-place write into the origin array, no setter call since: the cache (and
                # every read from it) keeps the centroids of the OLD origin, i.e. the expected ones shifted along x only
                key = "origin-inplace-stale"
            elif alt is not None and not _differ(got, alt, approx):
                key = "bm-first-delimiter-ignored"
            elif prev_expected is not None and len(prev_expected) == len(got) and not _differ(got, prev_expected, approx):
                # the recorded defect: the stale read follows an accepted in-place edit of the origin array
                key = f"{kind}-stale-centroid-cache"
            else:
                key = f"{kind}-centroid-position"
            bad = next(i for i in range(ncell) if _differ([got[i]], [exp[i]], approx))
            fails.append({"key": key, "what": f"read {ri - 1}: centroid {bad} is {tuple(map(str, got[bad]))}, format says {tuple(map(str, exp[bad]))}"})
        prev_expected = exp
    return fails


def _x_shift_only(got, exp, approx) -> bool:
    """got = exp + (d, 0, 0) for one non-zero d, for every centroid."""
    if len(got) != len(exp) or not got:
        return False
    tol = (lambda a, b: abs(float(a) - float(b)) <= 1e-9 * max(1.0, abs(float(b)))) if approx else (lambda a, b: a == b)
    d = got[0][0] - exp[0][0]
    if tol(d, 0):
        return False
    return all(tol(g[0] - e[0], d) and tol(g[1], e[1]) and tol(g[2], e[2]) for g, e in zip(got, exp))


def _differ(got, exp, approx) -> bool:
    if not approx:
        return got != exp
    return any(abs(float(g) - float(e)) > 1e-9 * max(1.0, abs(float(e))) for a, b in zip(got, exp) for g, e in zip(a, b))


def _components(nv, cells):
    par = list(range(nv))

    def find(x):
        while par[x] != x:
            par[x] = par[par[x]]
            x = par[x]
        return x

    for a, b in cells:
        par[find(a)] = find(b)
    return [find(v) for v in range(nv)]


def _chain_ordered(cells):
    """cells = vertex-disjoint open chains listed one after the other (the hypothesis of the partial theorem)."""
    chains = []
    for a, b in cells:
        if chains and chains[-1][-1] == a:
            chains[-1].append(b)
        else:
            chains.append([a, b])
    flat = [v for c in chains for v in c]
    return len(flat) == len(set(flat))


def _oracle_parts_from_cells(nv, cells, parts, tag):
    """equal label <-> connected, for all vertex pairs."""
    fails = []
    if len(parts) != nv:
        return [{"key": "parts-length", "what": f"{len(parts)} labels for {nv} vertices"}]
    comp = _components(nv, cells)
    used = {v for c in cells for v in c}
    bad_used = bad_unused = None
    for v in range(nv):
        for w in range(v + 1, nv):
            if (parts[v] == parts[w]) != (comp[v] == comp[w]):
                if v in used and w in used:
                    bad_used = bad_used or (v, w)
                else:
                    bad_unused = bad_unused or (v, w)
    if bad_used:
        key = "parts-unordered-cells" if not _chain_ordered(cells) else "parts-labels-wrong"
        v, w = bad_used
        fails.append({"key": key, "what": f"{tag}: vertices {v},{w} labels {parts[v]},{parts[w]} but connected={comp[v] == comp[w]} (cells {cells})"})
    if bad_unused:
        v, w = bad_unused
        lone = v if v not in used else w
        key = "parts-unused-vertex" if parts[lone] == 0 else "parts-labels-wrong"
        fails.append({"key": key, "what": f"{tag}: vertex {lone} is in no segment yet shares label {parts[lone]} with vertex {w if lone == v else v} (cells {cells})"})
    return fails


def _oracle_curve(case, obs):
    if case["kind"] == "parts":
        if "error" in obs:
            return [{"key": "parts-refused", "what": f"valid part labels raised {obs['error']}: {obs.get('msg')}"}]
        parts = case["parts"]
        n = len(parts)
        exp = set()
        for a in range(n):
            for b in range(a + 1, n):
                if parts[a] == parts[b] and all(parts[c] != parts[a] for c in range(a + 1, b)):
                    exp.add((a, b))
        got = [tuple(c) for c in obs["cells"]]
        fails = []
        if len(got) != len(set(got)) or set(got) != exp:
            fails.append({"key": "cells-from-parts", "what": f"parts {parts}: segments {got}, expected exactly {sorted(exp)}"})
        # labels read back must describe the same polylines
        fails += _oracle_parts_from_cells(n, got, obs["parts"], f"parts {parts} read back")
        return fails
    cells = case["cells"]
    nv = case["nv"]
    oob = [c for c in cells if not (0 <= c[0] < nv and 0 <= c[1] < nv)]
    if "error" in obs:
        if oob:
            return []
        return [{"key": "parts-refused", "what": f"cells {cells} raised {obs['error']}: {obs.get('msg')}"}]
    if oob:
        return []  # garbage in: not judged
    return _oracle_parts_from_cells(nv, [tuple(c) for c in cells], obs["parts"], "cells")


def _oracle_drape(case, obs):
    prisms, layers = case["prisms"], case["layers"]
    wf, first = True, 0
    for p in prisms:
        if int(p[3]) != first or int(p[4]) < 1:
            wf = False
        first += int(p[4])
    wf = wf and first == len(layers)
    if not wf:
        return []  # malformed model: the implementation may refuse or not; not judged
    if "error" in obs:
        return [{"key": "drape-refused", "what": f"well-formed drape model raised {obs['error']}: {obs.get('msg')}"}]
    exp = []
    for p in prisms:
        top = Fraction(p[2])
        for l in range(int(p[3]), int(p[3]) + int(p[4])):
            bot = Fraction(layers[l][2])
            exp.append((Fraction(p[0]), Fraction(p[1]), (top + bot) / 2))
            top = bot
    if not _exact(obs["centroids"]):
        return [{"key": "drape-inexact-centroid", "what": "inexact centroid on dyadic input"}]
    got = _as_fr(obs["centroids"])
    if obs["n_cells"] != len(layers) or len(got) != len(layers):
        return [{"key": "drape-count", "what": f"{len(got)} centroids for {len(layers)} cells"}]
    if got != exp:
        return [{"key": "drape-centroid-position", "what": f"centroids {obs['centroids']} differ from layer mid points"}]
    return []


def oracle(case, obs):
    if "crash" in obs:
        return [{"key": "driver-crash", "what": obs["crash"][:300]}]
    if case["kind"] in ("bm", "g2", "oct"):
        return _oracle_grid(case, obs)
    if case["kind"] in ("parts", "cells"):
        return _oracle_curve(case, obs)
    return _oracle_drape(case, obs)


# ----------------------------------------------------------------------------- evidence
def nontrivial(case, obs):
    k = case["kind"]
    if k in ("bm", "g2", "oct"):
        reads = [i for i, op in enumerate(case["ops"]) if op[0] == "read"]
        hist = len(reads) >= 2 and any(op[0] != "read" for op in case["ops"][reads[0]:reads[-1]])
        if k == "bm":
            big = (len(case["du"]) - 1) * (len(case["dv"]) - 1) * (len(case["dz"]) - 1) > 1
            return big and (hist or case["origin"] is None or any(d[0] != 0 for d in (case["du"], case["dv"], case["dz"])))
        if k == "g2":
            return case["nu"] * case["nv"] > 1 and (hist or case["rotation"] not in (None, 0) or case.get("dip") or case.get("vertical"))
        return len(obs.get("octree_cells") or []) > 1 or case.get("cells") is not None
    if k == "parts":
        return len(set(case["parts"])) > 1 and len(case["parts"]) > len(set(case["parts"]))
    if k == "cells":
        return len(case["cells"]) >= 2
    return len(case["prisms"]) >= 2


def histogram(cases, obs):
    h = {"kind": {}, "outcome": {}, "bm_shapes": {}, "bm_first_delim_nonzero": 0, "origin_not_given": 0, "histories_with_setter_between_reads": 0,
         "octree_exponents": {}, "parts_n": {}, "cells_mode": {"chain_ordered": 0, "unordered": 0, "with_unused_vertex": 0, "out_of_range": 0},
         "drape_malformed": 0}
    for c, o in zip(cases, obs):
        k = c["kind"]
        h["kind"][k] = h["kind"].get(k, 0) + 1
        oc = o.get("error", "ok") if isinstance(o, dict) else "crash"
        h["outcome"][f"{k}:{oc}"] = h["outcome"].get(f"{k}:{oc}", 0) + 1
        if k in ("bm", "g2", "oct"):
            if c.get("origin") is None:
                h["origin_not_given"] += 1
            reads = [i for i, op in enumerate(c["ops"]) if op[0] == "read"]
            if len(reads) >= 2 and any(op[0] != "read" for op in c["ops"][reads[0]:reads[-1]]):
                h["histories_with_setter_between_reads"] += 1
        if k == "bm":
            s = "x".join(str(len(c[d]) - 1) for d in ("du", "dv", "dz"))
            h["bm_shapes"][s] = h["bm_shapes"].get(s, 0) + 1
            if any(c[d][0] != 0 for d in ("du", "dv", "dz")):
                h["bm_first_delim_nonzero"] += 1
        elif k == "oct":
            s = f"{c['eu']},{c['ev']},{c['ew']}"
            h["octree_exponents"][s] = h["octree_exponents"].get(s, 0) + 1
        elif k == "parts":
            n = str(len(c["parts"]))
            h["parts_n"][n] = h["parts_n"].get(n, 0) + 1
        elif k == "cells":
            cells, nv = c["cells"], c["nv"]
            if any(not (0 <= v < nv) for cc in cells for v in cc):
                h["cells_mode"]["out_of_range"] += 1
            elif _chain_ordered(cells):
                h["cells_mode"]["chain_ordered"] += 1
            else:
                h["cells_mode"]["unordered"] += 1
            if len({v for cc in cells for v in cc}) < nv:
                h["cells_mode"]["with_unused_vertex"] += 1
        elif k == "drape":
            first, wf = 0, True
            for p in c["prisms"]:
                wf = wf and int(p[3]) == first
                first += int(p[4])
            if not wf or first != len(c["layers"]):
                h["drape_malformed"] += 1
    return h
