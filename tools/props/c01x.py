"""Development module: correspondence of the extended workspace model (Model/WsX.v) — not a registered check."""
from props import wsmodel as W

ID = "C01X"
PROPERTIES_V = "theories/Properties/C01.v"
CASE_IMPORTS = "From GV Require Import Prelude.Base Model.WsX Model.WsXCheck."
RULE = "extended histories"


def generate(rng, tier):
    n = 60 if tier == "quick" else 1000
    return [{"ops": W.gen_history_x(rng.fork(i), rng.range(12, 28))} for i in range(n)]


def drive_one(case, work):
    return W.run_history_x(case["ops"], work, "c01x")


def case_term(case, obs):
    return W.history_case_term_x(obs["ops_filled"], obs["steps"])


def model_term(case):
    return None


def oracle(case, obs):
    return []


def nontrivial(case, obs):
    return True
