"""C20 — Linked surveys stay mutually consistent (receivers/transmitters/base stations, potential/current electrodes)."""
from __future__ import annotations

import hashlib
import json

from vlib.common import cbool, clist, cnat

ID = "C20"
PROPERTIES_V = "theories/Properties/C20.v"
CASE_IMPORTS = "From GV Require Import Prelude.Base Model.Linked.\nOpen Scope Z_scope."
ALLOWED_AXIOMS: list = []
REFUTED = ["C20_copy_isolated_refuted (a TEM copy shares the nested Waveform dict with its source: copy.waveform = ... changes the source pair's live metadata)"]
PARTIAL = ["C20_copy_isolated_partial (edits of the copied pair leave the source pair's metadata unchanged when no nested dict is shared, i.e. for every non-TEM family or when the edit is not a waveform edit)",
           "large-loop copies link the copies only when both sides carry the Tx ID property (hypothesis of C20_copy_links_copies_large); direct-current pairs: only the link (C20_dc_*), neither shared-parameter visibility nor copies are proved"]
TRUSTED = [
    "Coq 8.16.1 kernel + vm_compute (correspondence evaluation); no axioms (Print Assumptions: closed)",
    "hand-written model coq/theories/Model/Linked.v of BaseEMSurvey.metadata getter/setter, edit_em_metadata, partner getters/setters, TEM waveform setter, copy + copy_complement (moving/large loop, tipper), BaseElectrode metadata/link/copy, re-open; tied to the code by running both on the same histories",
    "tools/props/c20.py (generator, driver, canonicalisation: uuids -> creation positions, metadata values -> tokens, oracle)",
    "geometry (vertices, cells, tx-id intersection masks) is exercised by the driver and checked by the oracle, not modelled beyond vertex counts",
]
ASSUMPTIONS = [
    "entities stay referenced between operations (the driver holds them, as the model does); re-open drops every in-memory object",
    "histories stop at the first refused operation",
]
RULE = (
    "the eight linked class pairs (airborne TEM/FEM, moving-loop ground TEM/FEM, large-loop ground TEM/FEM, tipper receivers/base stations, "
    "potential/current electrodes) x both linking directions, followed by parameter edits from either side (edit_em_metadata, channels, "
    "unit, loop_radius, waveform for TEM, free metadata keys for electrodes), re-opens, copies from either side (plain, masked, other "
    "workspace), edits of copies and copies of copies; non-trivial = the history links a pair and performs a copy or a re-open after an edit"
)
LEVEL_TEXT = (
    "Proved, ELECTROMAGNETIC pairs only (receivers/transmitters, tipper receivers/base stations; the invariant `inv` requires a "
    "non-direct-current family): linking from either side puts both identifiers on both entities and stores them "
    "(C20_link_symmetric); `inv` (both entities read the same metadata, which is what is stored, and it names both) is preserved by "
    "every link / scalar edit / waveform / airborne-parameter / re-open operation from either side, hence by all sequences "
    "(C20_edit_shared, induction); after re-open each side resolves its partner (C20_reopen_resolves); the copy of either side of a "
    "NON-large-loop pair yields a new pair satisfying `inv`, distinct from the originals (C20_copy_links_copies, C20_copy_of_copy, "
    "C20_copy_then_edit_isolated); for LARGE-LOOP pairs the same only when both sides carry the Tx ID property "
    "(C20_copy_links_copies_large; without it no partner is copied - open finding copy-without-id-property-drops-partner). "
    "DIRECT-CURRENT pairs, weaker invariant `dinv`: the link is recorded on both sides (C20_dc_link_symmetric), persists over all "
    "lists of free-metadata edits, CRS assignments, re-links and re-opens (C20_dc_link_persists) and resolves after re-open "
    "(C20_dc_reopen_resolves); that a shared-parameter edit is visible on BOTH electrodes is NOT proved and false of the code (open "
    "finding dc-shared-dict-partner-not-stored); electrode COPIES have no theorem (correspondence + oracle only). "
    "Refuted: isolation of a TEM copy from its source (shared Waveform dict). Not in the model (oracle only): which vertices a "
    "masked large-loop / electrode copy keeps of the partner (Tx-ID / A-B intersection masks); the model copies the partner whole. "
    "Tie: the model is evaluated in Coq on every generated history and compared with the implementation step by step (live metadata, "
    "stored metadata, partner getters, dict identity)."
)
TECHNIQUE = "Coq state machine with a dict heap and a stored-JSON table; invariant proof by induction over histories; vm_compute correspondence"
DRIVE_TIMEOUT = 900

PAIRS = {
    "AirborneTEM": ("AirborneTEMReceivers", "AirborneTEMTransmitters", "FAirTEM"),
    "AirborneFEM": ("AirborneFEMReceivers", "AirborneFEMTransmitters", "FAirEM"),
    "MovingLoopGroundTEM": ("MovingLoopGroundTEMReceivers", "MovingLoopGroundTEMTransmitters", "FTEM"),
    "MovingLoopGroundFEM": ("MovingLoopGroundFEMReceivers", "MovingLoopGroundFEMTransmitters", "FEM"),
    "LargeLoopGroundTEM": ("LargeLoopGroundTEMReceivers", "LargeLoopGroundTEMTransmitters", "FLargeTEM"),
    "LargeLoopGroundFEM": ("LargeLoopGroundFEMReceivers", "LargeLoopGroundFEMTransmitters", "FLarge"),
    "Tipper": ("TipperReceivers", "TipperBaseStations", "FTipper"),
    "DC": ("PotentialElectrode", "CurrentElectrode", "FDC"),
}
LINK_KEYS = {"Receivers": 0, "Potential Electrodes": 0, "Transmitters": 1, "Base stations": 1, "Current Electrodes": 1}
KEYMAP = {"Waveform": 2, "Tx ID property": 3, "Unit": 10, "Channels": 11, "Loop radius": 12, "Input type": 13, "Survey type": 14,
          "Property groups": 15, "Angles relative to bearing": 16, "Coordinate Reference System": 30, "Nested": 31, "Current": 0, "Previous": 1, "a": 40, "P0": 20, "P1": 21, "P2": 22, "P3": 23, "note": 24, "Timing mark": 0,
          "Discretization": 1}


# AirborneEMSurvey._PROPERTY_MAP: python attribute -> metadata field; stored as "<Field> value" (a constant) or "<Field> property"
# (the uid of a data property), never both
PARAMS = {"crossline_offset": "Crossline offset", "inline_offset": "Inline offset", "pitch": "Pitch", "roll": "Roll",
          "vertical_offset": "Vertical offset", "yaw": "Yaw"}
for _i, _f in enumerate(sorted(PARAMS.values())):
    KEYMAP[_f + " value"] = 50 + 2 * _i
    KEYMAP[_f + " property"] = 51 + 2 * _i


def _param_uuid(n):
    import uuid

    return uuid.UUID(int=0xC2000000 + int(n))


def _param_token(op):
    """token of the value a 'param' op assigns, as the canonical metadata shows it"""
    if op["kind"] == "float":
        return tokz(_num(float(op["val"]) + 0.5))
    if op["kind"] == "uuid":
        return tokz(str(_param_uuid(op["val"])))
    return None


# concrete survey classes whose `default_input_types` / `default_units` getter reads a name-mangled private attribute that the
# defining class does not assign (AttributeError at run time) — read from the source under test by regenerate()
BROKEN = {"default_input_types": set(), "default_units": set()}


def _scan_private_getters(repo):
    import ast
    from pathlib import Path

    classes = {}   # name -> (bases, {method: broken?})
    for f in sorted((Path(repo) / "geoh5py/objects/surveys/electromagnetics").glob("*.py")):
        tree = ast.parse(f.read_text())
        for cls in [n for n in ast.walk(tree) if isinstance(n, ast.ClassDef)]:
            assigned = {t.id for st in cls.body if isinstance(st, ast.Assign) for t in st.targets if isinstance(t, ast.Name)}
            meths = {}
            for st in cls.body:
                if isinstance(st, ast.FunctionDef):
                    used = {n.attr for n in ast.walk(st) if isinstance(n, ast.Attribute) and isinstance(n.value, ast.Name) and n.value.id == "self"}
                    meths[st.name] = any(a.startswith("__") and not a.endswith("__") and a not in assigned for a in used)
            bases = [b.id if isinstance(b, ast.Name) else getattr(b, "attr", "") for b in cls.bases]
            classes[cls.name] = (bases, meths)

    def mro(name, seen=None):
        # depth-first, left to right, last occurrence kept (a sufficient approximation of C3 for this hierarchy)
        out = [name]
        for b in classes.get(name, ([], {}))[0]:
            out += mro(b)
        res = []
        for c in reversed(out):
            if c not in res:
                res.append(c)
        return list(reversed(res))
    out = {"default_input_types": set(), "default_units": set()}
    for name in classes:
        for prop in out:
            for c in mro(name):
                if c in classes and prop in classes[c][1]:
                    if classes[c][1][prop]:
                        out[prop].add(name)
                    break
    return out


def regenerate(repo):
    """coq/generated/C20_Flags.v: is TipperSurvey.default_units the broken override (reads a name-mangled attribute the class
    does not define)?  The interpreter of histories (Model/Linked.v, step OUnit) follows this fact."""
    import ast
    from pathlib import Path

    from vlib import common as C

    tree = ast.parse((Path(repo) / "geoh5py/objects/surveys/electromagnetics/tipper.py").read_text())
    cls = [n for n in ast.walk(tree) if isinstance(n, ast.ClassDef) and n.name == "TipperSurvey"]
    if not cls:
        raise RuntimeError("class TipperSurvey not found")
    broken = False
    assigned = {t.id for st in cls[0].body if isinstance(st, ast.Assign) for t in st.targets if isinstance(t, ast.Name)}
    for st in cls[0].body:
        if isinstance(st, ast.FunctionDef) and st.name == "default_units":
            used = {n.attr for n in ast.walk(st) if isinstance(n, ast.Attribute) and isinstance(n.value, ast.Name) and n.value.id == "self"}
            if any(a.startswith("__") and not a.endswith("__") and a not in assigned for a in used):
                broken = True
    gen = C.COQ / "generated"
    gen.mkdir(exist_ok=True)
    text = ("(* generated by tools/props/c20.py:regenerate from geoh5py/objects/surveys/electromagnetics/tipper.py *)\n"
            "Definition tipper_units_broken : bool := %s.\n" % ("true" if broken else "false"))
    f = gen / "C20_Flags.v"
    if not f.exists() or f.read_text() != text:
        f.write_text(text)
    scan = _scan_private_getters(repo)
    for k_ in BROKEN:
        BROKEN[k_] = scan[k_]
    return {"tables": {"tipper_units_broken": int(broken), "broken_default_input_types": sorted(scan["default_input_types"]),
                       "broken_default_units": sorted(scan["default_units"])}}


def tokz(x):
    """value token: small ints are themselves, anything else a 40-bit hash (only equality matters)."""
    if isinstance(x, bool):
        return int(x)
    if isinstance(x, int) and abs(x) < 1000:
        return x
    if isinstance(x, float) and x.is_integer() and abs(x) < 1000:
        return int(x)
    return 1000 + int.from_bytes(hashlib.sha1(json.dumps(x, sort_keys=True, default=str).encode()).digest()[:5], "big")


def keynum(k):
    if k in LINK_KEYS:
        return LINK_KEYS[k]
    if k in KEYMAP:
        return KEYMAP[k]
    return 100 + int.from_bytes(hashlib.sha1(k.encode()).digest()[:2], "big")


# ----------------------------------------------------------------------------- generation
def base_history(pair, direction, n, rng, ws=0):
    fam = PAIRS[pair][2]
    large = fam.startswith("FLarge")
    loops = rng.choice([2, 3, 3]) if large else 0
    h = [{"op": "create", "pair": pair, "role": "A", "ws": ws, "ids": large or pair == "DC", "n": n, "loops": loops},
         {"op": "create", "pair": pair, "role": "B", "ws": ws, "ids": large or pair == "DC", "n": 4 * loops if large else n, "loops": loops}]
    h.append({"op": "link", "a": 0, "b": 1} if direction == 0 else {"op": "link", "a": 1, "b": 0})
    return h


def ll_masks(h, keep_loops):
    """masks of a large-loop pair (entities 0 = receivers, 1 = transmitters) keeping the given loops (1-based)"""
    n, loops = h[0]["n"], h[0]["loops"]
    rx = [1 if rx_loop(i, n, loops) in keep_loops else 0 for i in range(n)]
    tx = [1 if (v // 4 + 1) in keep_loops else 0 for v in range(4 * loops)]
    return rx, tx


def rand_edit(rng, pair, who):
    fam = PAIRS[pair][2]
    if pair == "DC":
        if rng.chance(35):
            return {"op": "crs", "a": who, "code": rng.below(9)}
        return {"op": "edit", "a": who, "key": "note", "val": rng.below(50)}
    c = rng.below(130)
    if pair.startswith("Airborne") and rng.chance(25):
        return {"op": "param", "a": who, "field": rng.choice(sorted(PARAMS)[:3] if rng.chance(70) else sorted(PARAMS)),
                "kind": rng.weighted([("float", 40), ("uuid", 45), ("none", 15)]), "val": rng.below(40)}
    if c >= 100:
        if c < 110 and fam in ("FTEM", "FLargeTEM", "FAirTEM"):
            return {"op": "timing", "a": who, "val": rng.range(1, 9)}
        if c < 118:
            return {"op": "nest", "a": who, "val": rng.below(50)}
        if c < 124:
            return {"op": "edit", "a": who, "key": "Input type", "val": None}
        if pair.startswith("Airborne"):
            return {"op": "edit", "a": who, "key": "Angles relative to bearing", "val": rng.chance(50)}
        return {"op": "nest", "a": who, "val": rng.below(50)}
    if c < 40:
        return {"op": "edit", "a": who, "key": "P%d" % rng.below(3), "val": rng.below(50)}
    if c < 55:
        return {"op": "edit", "a": who, "key": "Channels", "val": [float(rng.range(1, 9)) for _ in range(rng.range(1, 3))]}
    if c < 70:
        return {"op": "unit", "a": who, "idx": rng.below(4)}
    if c < 85 and fam in ("FTEM", "FLargeTEM", "FAirTEM"):
        return {"op": "wave", "a": who, "seed": rng.below(100)}
    if pair.startswith(("Airborne", "MovingLoop")):
        return {"op": "edit", "a": who, "key": "Loop radius", "val": float(rng.range(1, 20))}
    return {"op": "edit", "a": who, "key": "P3", "val": rng.below(50)}


def generate(rng, tier):
    cases = []
    # the ten scripted sequences per pair and direction
    for pair in PAIRS:
        fam = PAIRS[pair][2]
        for direction in (0, 1):
            n = 6
            h = base_history(pair, direction, n, rng)
            h += [rand_edit(rng, pair, 0), rand_edit(rng, pair, 1), {"op": "reopen"}, rand_edit(rng, pair, 1 - direction)]
            cases.append({"hist": h + [{"op": "copy", "a": 0, "tws": 0, "mask": None}, {"op": "copy", "a": 2, "tws": 0, "mask": None}, rand_edit(rng, pair, 2), {"op": "reopen"}]})
            cases.append({"hist": h + [{"op": "copy", "a": 1, "tws": 1, "mask": None}, rand_edit(rng, pair, 3), {"op": "reopen"}, {"op": "copy", "a": 2, "tws": 1, "mask": None}]})
            mask = mask_b = [1, 1, 0, 1, 0, 1]
            if fam.startswith("FLarge"):
                loops = h[0]["loops"]
                mask, mask_b = ll_masks(h, {1, loops})   # three loops: the non-adjacent ids 1 and 3
            cases.append({"hist": h + [{"op": "copy", "a": 0, "tws": 0, "mask": mask}, {"op": "reopen"}]})
            cases.append({"hist": h + [{"op": "copy", "a": 1, "tws": 1, "mask": mask_b}, {"op": "reopen"}]})
            # re-linking: a second partner, linked from either side, and back; every step fully observed, then re-open
            third = dict(h[1 if direction == 0 else 0])
            third = {k_: v_ for k_, v_ in third.items() if k_ != "quiet"}
            a_side = 0 if third["role"] == "B" else 1          # the entity that gets a new partner
            hr = base_history(pair, direction, n, rng)
            for o_, src_ in zip(hr[:2], h[:2]):
                o_.update({k_: src_[k_] for k_ in ("n", "loops")})
            hr.insert(2, third)                                 # entity 2 = the alternative partner
            hr[3] = {"op": "link", "a": hr[3]["a"], "b": hr[3]["b"]}
            cases.append({"hist": hr + [rand_edit(rng, pair, 0), {"op": "link", "a": a_side, "b": 2}, rand_edit(rng, pair, a_side), {"op": "reopen"},
                                        {"op": "link", "a": 1 - a_side, "b": a_side}, {"op": "reopen"}]})
            cases.append({"hist": hr + [{"op": "link", "a": 2, "b": a_side}, rand_edit(rng, pair, 2), {"op": "reopen"}]})
            # every metadata setter applied when its block already exists, as the last edit before the file is closed, then again
            # on the re-opened entities (alternating sides)
            if pair != "DC":
                setters = [{"op": "edit", "key": "Channels", "val": [2.0, 4.0]}, {"op": "unit", "idx": 2}, {"op": "edit", "key": "Input type", "val": None},
                           {"op": "nest", "val": 7}]
                if fam in ("FTEM", "FLargeTEM", "FAirTEM"):
                    setters += [{"op": "wave", "seed": 11}, {"op": "timing", "val": 5}, {"op": "timing", "val": 6}, {"op": "wave", "seed": 12}]
                if pair.startswith(("Airborne", "MovingLoop")):
                    setters.append({"op": "edit", "key": "Loop radius", "val": 3.0})
                if pair.startswith("Airborne"):
                    setters.append({"op": "edit", "key": "Angles relative to bearing", "val": True})
                hs = base_history(pair, direction, n, rng)
                for j, st_ in enumerate(setters):
                    hs += [dict(st_, a=j % 2), {"op": "reopen"}]
                for j, st_ in enumerate(setters):
                    hs += [dict(st_, a=(j + 1) % 2, quiet=True), {"op": "reopen"}]
                cases.append({"hist": hs})
            else:
                hs = base_history(pair, direction, n, rng)
                cases.append({"hist": hs + [{"op": "crs", "a": 0, "code": 1}, {"op": "reopen"}, {"op": "edit", "a": 1, "key": "note", "val": 4}, {"op": "crs", "a": 1, "code": 2},
                                            {"op": "reopen"}, {"op": "copy", "a": 0, "tws": 0, "mask": None}, {"op": "reopen"}]})
            # edits through the side whose partner has never been read, observed on the file only; then fetch-one-and-edit after re-open
            if pair != "DC":
                other = 1 - (0 if direction == 0 else 1)   # the side that did NOT perform the link
                hq = base_history(pair, direction, n, rng)
                hq[0]["quiet"] = hq[1]["quiet"] = hq[2]["quiet"] = True
                e1, e2 = rand_edit(rng, pair, other), rand_edit(rng, pair, rng.below(2))
                e1["quiet"] = e2["quiet"] = True
                cases.append({"hist": hq + [e1, {"op": "reopen"}, {"op": "reopen", "quiet": True}, e2, {"op": "reopen"}]})
            # airborne orientation / offset parameters: every field through constant -> property, property -> constant,
            # constant -> cleared -> property, property -> property, from either side, each as the last edit before the file is closed
            if pair.startswith("Airborne"):
                seqs = [("float", "uuid"), ("uuid", "float"), ("float", "none", "uuid"), ("uuid", "uuid"), ("float", "float", "none")]
                hp = base_history(pair, direction, n, rng)
                for j, field in enumerate(sorted(PARAMS)):
                    kinds = seqs[(j + direction) % len(seqs)]
                    for t, kind in enumerate(kinds):
                        hp += [{"op": "param", "a": (j + t + direction) % 2, "field": field, "kind": kind, "val": 3 * j + t + 1}, {"op": "reopen"}]
                cases.append({"hist": hp})
                hp = base_history(pair, direction, n, rng)
                for j, field in enumerate(sorted(PARAMS)):
                    kinds = seqs[(j + 1 - direction) % len(seqs)]
                    for t, kind in enumerate(kinds):   # the same without a re-open in between, the file looked at only at the end of each field
                        hp.append({"op": "param", "a": (j + t + 1) % 2, "field": field, "kind": kind, "val": 5 * j + t + 2, "quiet": t + 1 < len(kinds) and (j % 2 == 0)})
                    hp.append({"op": "reopen"})
                cases.append({"hist": hp})
            if fam in ("FTEM", "FLargeTEM", "FAirTEM"):
                # a Waveform block WITHOUT a timing mark (written through edit_em_metadata): the waveform setter must start a new block
                hw = base_history(pair, direction, n, rng)
                cases.append({"hist": hw + [{"op": "nest", "a": direction, "val": 5, "key": "Waveform"}, {"op": "wave", "a": 1 - direction, "seed": 21}, {"op": "reopen"},
                                            {"op": "timing", "a": direction, "val": 4}, {"op": "nest", "a": 1 - direction, "val": 6, "key": "Waveform"},
                                            {"op": "wave", "a": direction, "seed": 22, "quiet": True}, {"op": "reopen"}]})
                cases.append({"hist": h + [{"op": "wave", "a": 0, "seed": 3}, {"op": "copy", "a": 0, "tws": 0, "mask": None}, {"op": "wave", "a": 2, "seed": 7}, {"op": "reopen"}]})
    # tipper with a single base station, unequal vertex counts, unlinked copies, pairs without ids
    cases.append({"hist": [{"op": "create", "pair": "Tipper", "role": "A", "ws": 0, "ids": False, "n": 5}, {"op": "create", "pair": "Tipper", "role": "B", "ws": 0, "ids": False, "n": 1},
                           {"op": "link", "a": 0, "b": 1}, {"op": "copy", "a": 0, "tws": 0, "mask": None}, {"op": "copy", "a": 0, "tws": 0, "mask": [1, 1, 0, 1, 0]}]})
    cases.append({"hist": [{"op": "create", "pair": "AirborneFEM", "role": "A", "ws": 0, "ids": False, "n": 5}, {"op": "create", "pair": "AirborneFEM", "role": "B", "ws": 0, "ids": False, "n": 4},
                           {"op": "link", "a": 1, "b": 0}, {"op": "copy", "a": 1, "tws": 1, "mask": [1, 0, 1, 1]}]})
    cases.append({"hist": [{"op": "create", "pair": "DC", "role": "A", "ws": 0, "ids": False, "n": 5}, {"op": "create", "pair": "DC", "role": "B", "ws": 0, "ids": False, "n": 5},
                           {"op": "link", "a": 0, "b": 1}, {"op": "edit", "a": 0, "key": "note", "val": 3}, {"op": "reopen"}, {"op": "copy", "a": 0, "tws": 0, "mask": None}]})
    cases.append({"hist": [{"op": "create", "pair": "LargeLoopGroundFEM", "role": "A", "ws": 0, "ids": False, "n": 6}, {"op": "create", "pair": "LargeLoopGroundFEM", "role": "B", "ws": 0, "ids": False, "n": 8},
                           {"op": "link", "a": 0, "b": 1}, {"op": "copy", "a": 0, "tws": 0, "mask": None}]})
    cases.append({"hist": [{"op": "create", "pair": "AirborneTEM", "role": "A", "ws": 0, "ids": False, "n": 4}, {"op": "copy", "a": 0, "tws": 0, "mask": None},
                           {"op": "edit", "a": 0, "key": "P0", "val": 4}, {"op": "create", "pair": "AirborneTEM", "role": "B", "ws": 0, "ids": False, "n": 4},
                           {"op": "edit", "a": 2, "key": "P1", "val": 9}, {"op": "link", "a": 2, "b": 0}, {"op": "reopen"}]})
    n = 60 if tier == "quick" else 3000
    for _ in range(n):
        pair = rng.choice(list(PAIRS))
        fam = PAIRS[pair][2]
        large = fam.startswith("FLarge")
        nv = rng.range(4, 7)
        h = base_history(pair, rng.below(2), nv, rng)
        if rng.chance(15):  # edits before the link
            h.insert(2, rand_edit(rng, pair, rng.below(2)))
        count = 2
        sizes = {0: nv, 1: h[1]["n"]}
        for _ in range(rng.range(2, 8)):
            c = rng.below(100)
            if c < 45:
                h.append(rand_edit(rng, pair, rng.below(count)))
            elif c < 60:
                h.append({"op": "reopen"})
            elif c < 90 and count <= 6:
                a = rng.below(count)
                mask = None
                if rng.chance(30) and a in sizes:
                    mask = [1 if rng.chance(65) else 0 for _ in range(sizes[a])]
                    if large:
                        keep = {k for k in range(1, h[0]["loops"] + 1) if rng.chance(60)} or {1}
                        mask = ll_masks(h, keep)[a]
                h.append({"op": "copy", "a": a, "tws": rng.below(2), "mask": mask})
                count += 2
            else:
                h.append({"op": "link", "a": 0, "b": 1} if rng.chance(50) else {"op": "link", "a": 1, "b": 0})
        for o in h:   # some operations are followed by a look at the file only (no getter runs in between)
            if o["op"] != "copy" and rng.chance(35):
                o["quiet"] = True
        h.append({"op": "reopen"})
        cases.append({"hist": h})
    return cases


# ----------------------------------------------------------------------------- implementation driver
def rx_loop(i, n, loops):
    """transmitter loop (1-based) that receiver i of n refers to"""
    return i * loops // n + 1


def _waveform(seed):
    import numpy as np

    return np.array([[0.0, float(seed % 5)], [1.0, float((seed // 5) % 7)], [2.0, 0.0]])


def _wave_token(seed):
    w = _waveform(seed)
    return tokz([{"current": _num(r[1]), "time": _num(r[0])} for r in w.tolist()])


def _num(x):
    x = float(x)
    return int(x) if x.is_integer() else {"f": repr(x)}


def _plain(v):
    """JSON-able canonical value of a metadata entry that is not a uuid / dict"""
    import numpy as np

    if isinstance(v, (bool, str)) or v is None:
        return v
    if isinstance(v, (int, float, np.integer, np.floating)):
        return _num(v)
    if isinstance(v, (list, tuple, np.ndarray)):
        return [_plain(x) for x in (v.tolist() if isinstance(v, np.ndarray) else v)]
    if isinstance(v, dict):
        return {str(k): _plain(x) for k, x in v.items()}
    return str(v)


def _canon_md(md, ent, ents, partner=None, quiet=False):
    """metadata dict -> sorted [[key number, value]] with uuids as positions ('P', i), 'foreign', 'own'"""
    import uuid

    if md is None:
        return None
    inner = md.get("EM Dataset", md) if isinstance(md, dict) else md
    out = []
    for k, v in inner.items():
        if v is None:
            continue
        kn = keynum(k)
        if isinstance(v, uuid.UUID):
            owners = [x["obj"] for x in ents if x["ws"] == ent["ws"]]   # a Transmitter ID property of some survey of this workspace
            own = [c.uid for o in owners if o is not None and not isinstance(o, tuple)
                   for c in o.children if getattr(c, "name", None) in ("Transmitter ID",)]
            if k == "Tx ID property" and v in own:
                out.append([kn, ["own"]])
                continue
            pos = [i for i, e in enumerate(ents) if e["ws"] == ent["ws"] and e["uuid"] == v]
            if not pos and k.endswith(" property") and k[: -len(" property")] in PARAMS.values():
                out.append([kn, ["Z", tokz(str(v))]])   # the uid of a data property: only its identity matters
                continue
            out.append([kn, ["P", pos[0]] if pos else ["foreign"]])
        elif isinstance(v, dict):
            out.append([kn, ["D", sorted([keynum(kk), tokz(_plain(vv))] for kk, vv in v.items() if vv is not None)]])
        else:
            out.append([kn, ["Z", tokz(_plain(v))]])
    return sorted(out, key=lambda p: p[0])


def _partner_obj(o):
    name = type(o).__name__
    if name == "PotentialElectrode":
        return o.current_electrodes
    if name == "CurrentElectrode":
        return o.potential_electrodes
    return o.complement


def drive_one(case, work):
    import os
    import warnings

    import numpy as np
    from geoh5py import Workspace
    from geoh5py import objects as O

    warnings.simplefilter("ignore")
    paths = [f"{work}/c20a.geoh5", f"{work}/c20b.geoh5"]
    for p in paths:
        if os.path.exists(p):
            os.remove(p)
    wss = [Workspace.create(paths[0]), Workspace.create(paths[1])]
    ents = []  # {"ws", "uuid", "obj", "pair", "role", "n"}
    steps = []
    defaults_log = []

    def observe():
        out = []
        ident = {}
        for e in ents:
            o = e["obj"]
            try:
                p = _partner_obj(o)
            except Exception as ex:  # noqa: BLE001
                p = ("raised", type(ex).__name__)
            try:
                live = o.metadata
            except Exception as ex:  # noqa: BLE001
                live = {"getter-raised": type(ex).__name__}
            inner = live.get("EM Dataset") if isinstance(live, dict) and "EM Dataset" in live else live
            cls = None
            if isinstance(inner, dict):
                cls = ident.setdefault(id(inner), len(ident))
            stored = wss[e["ws"]].fetch_metadata(e["uuid"])
            ppos = None
            if isinstance(p, tuple):
                ppos = "raised:" + p[1]
            elif p is not None:
                cand = [i for i, x in enumerate(ents) if x["obj"] is p]
                ppos = cand[0] if cand else "unlisted:" + type(p).__name__
            sizes = [int(o.n_vertices) if o.n_vertices else 0, int(o.n_cells) if o.n_cells else 0]
            txown = None
            if isinstance(inner, dict) and "Tx ID property" in inner and e["role"] == "A":
                txown = inner["Tx ID property"] in [c.uid for c in o.children]
            params = None
            if e["pair"].startswith("Airborne"):
                params = {}
                for f in sorted(PARAMS):
                    try:
                        x = getattr(o, f)
                        params[f] = None if x is None else tokz(_plain(x))
                    except Exception as ex:  # noqa: BLE001
                        params[f] = "raised:" + type(ex).__name__
            out.append({"live": _canon_md(live, e, ents, p), "stored": _canon_md(stored, e, ents, p), "partner": ppos, "ident": cls, "txown": txown,
                        "cls": type(o).__name__, "ws": e["ws"], "sizes": sizes, "params": params})
        return out

    def observe_quiet():
        """stored metadata only: no getter of any entity runs"""
        out = []
        for e in ents:
            o = e["obj"]
            stored = wss[e["ws"]].fetch_metadata(e["uuid"])
            out.append({"live": None, "stored": _canon_md(stored, e, ents, None, quiet=True), "partner": None, "ident": None, "txown": None,
                        "cls": type(o).__name__, "ws": e["ws"], "sizes": [int(o.n_vertices) if o.n_vertices else 0, int(o.n_cells) if o.n_cells else 0]})
        return out

    try:
        for op in case["hist"]:
            kind = op["op"]
            try:
                if kind == "create":
                    pair, role, w, n = op["pair"], op["role"], op["ws"], op["n"]
                    cls = getattr(O, PAIRS[pair][0 if role == "A" else 1])
                    v = np.c_[np.arange(n, dtype=float), np.zeros(n), np.zeros(n)]
                    fam = PAIRS[pair][2]
                    if fam.startswith("FLarge") and role == "B":
                        loops = op.get("loops", 2)
                        tv = np.array([[5 * k + dx, dy, 0] for k in range(loops) for dx, dy in ((0, 0), (1, 0), (1, 1), (0, 1))], dtype=float)
                        tc = np.array([[4 * k + i, 4 * k + (i + 1) % 4] for k in range(loops) for i in range(4)])
                        o = cls.create(wss[w], vertices=tv, cells=tc)
                        if op["ids"]:
                            o.tx_id_property = o.parts + 1
                    elif pair == "DC" and role == "B":
                        o = cls.create(wss[w], vertices=v + 1, parts=np.zeros(n, dtype=int))
                        if op["ids"]:
                            o.add_default_ab_cell_id()
                    else:
                        o = cls.create(wss[w], vertices=v)
                        if fam.startswith("FLarge") and op["ids"]:
                            o.tx_id_property = np.array([rx_loop(i, n, op.get("loops", 2)) for i in range(n)])
                        if pair == "DC" and op["ids"]:
                            o.ab_cell_id = np.array([1 + (i % max(n - 1, 1)) for i in range(o.n_cells)], dtype="int32")
                    ents.append({"ws": w, "uuid": o.uid, "obj": o, "pair": pair, "role": role})
                    dm = getattr(o, "default_metadata", None)
                    defaults_log.append(sorted([keynum(k), tokz(_plain(x))] for k, x in (dm or {}).get("EM Dataset", {}).items()
                                               if x is not None and not isinstance(x, dict) and k not in LINK_KEYS) if pair != "DC" else [])
                elif kind == "link":
                    a, b = ents[op["a"]]["obj"], ents[op["b"]]["obj"]
                    pair = ents[op["a"]]["pair"]
                    rb = ents[op["b"]]["role"]
                    if pair == "DC":
                        if rb == "B":
                            a.current_electrodes = b
                        else:
                            a.potential_electrodes = b
                    elif pair == "Tipper":
                        if rb == "B":
                            a.base_stations = b
                        else:
                            a.receivers = b
                    else:
                        if rb == "B":
                            a.transmitters = b
                        else:
                            a.receivers = b
                    defaults_log.append(None)
                elif kind == "edit":
                    e = ents[op["a"]]
                    o = e["obj"]
                    if e["pair"] == "DC":
                        o.metadata = {op["key"]: op["val"]}
                    elif op["key"] == "Channels":
                        o.channels = list(op["val"])
                    elif op["key"] == "Loop radius":
                        o.loop_radius = float(op["val"])
                    elif op["key"] == "Input type":
                        o.input_type = o.default_input_types[0]
                        op["_val"] = o.default_input_types[0]
                    elif op["key"] == "Angles relative to bearing":
                        o.relative_to_bearing = bool(op["val"])
                    else:
                        o.edit_em_metadata({op["key"]: op["val"]})
                    defaults_log.append(None)
                elif kind == "param":
                    value = None
                    if op["kind"] == "float":
                        value = float(op["val"]) + 0.5
                    elif op["kind"] == "uuid":
                        value = _param_uuid(op["val"])
                    setattr(ents[op["a"]]["obj"], op["field"], value)
                    defaults_log.append(None)
                elif kind == "wave":
                    ents[op["a"]]["obj"].waveform = _waveform(op["seed"])
                    defaults_log.append(None)
                elif kind == "timing":
                    ents[op["a"]]["obj"].timing_mark = float(op["val"])
                    defaults_log.append(None)
                elif kind == "nest":
                    ents[op["a"]]["obj"].edit_em_metadata({op.get("key", "Nested"): {"a": op["val"]}})
                    defaults_log.append(None)
                elif kind == "crs":
                    ents[op["a"]]["obj"].coordinate_reference_system = {"Code": "EPSG:%d" % op["code"], "Name": "n%d" % op["code"]}
                    defaults_log.append(None)
                elif kind == "unit":
                    o = ents[op["a"]]["obj"]
                    units = ["Hertz (Hz)", "KiloHertz (kHz)", "MegaHertz (MHz)", "Gigahertz (GHz)"] if "FEM" in type(o).__name__ or "Tipper" in type(o).__name__ else \
                        ["Seconds (s)", "Milliseconds (ms)", "Microseconds (us)", "Nanoseconds (ns)"]
                    o.unit = units[op["idx"]]
                    op["_unit"] = units[op["idx"]]
                    defaults_log.append(None)
                elif kind == "reopen":
                    for w in wss:
                        w.close()
                    for e in ents:
                        e["obj"] = None
                    wss = [Workspace(paths[0]), Workspace(paths[1])]
                    for e in ents:
                        e["obj"] = wss[e["ws"]].get_entity(e["uuid"])[0]
                    defaults_log.append(None)
                elif kind == "copy":
                    e = ents[op["a"]]
                    o = e["obj"]
                    tw = op["tws"]
                    before = {x.uid for x in wss[tw].objects}
                    kw = {}
                    if op["mask"] is not None:
                        kw["mask"] = np.array(op["mask"], dtype=bool)
                    if tw != e["ws"]:
                        kw["parent"] = wss[tw]
                    c = o.copy(**kw)
                    ents.append({"ws": tw, "uuid": c.uid, "obj": c, "pair": e["pair"], "role": e["role"]})
                    new = [x for x in wss[tw].objects if x.uid not in before and x.uid != c.uid]
                    for x in new:
                        ents.append({"ws": tw, "uuid": x.uid, "obj": x, "pair": e["pair"], "role": "B" if e["role"] == "A" else "A"})
                    defaults_log.append(None)
            except Exception as ex:  # noqa: BLE001
                steps.append({"error": type(ex).__name__, "msg": str(ex)[:200]})
                break
            steps.append({"views": observe_quiet(), "quiet": True} if op.get("quiet") else {"views": observe()})
    finally:
        for w in wss:
            try:
                w.close()
            except Exception:  # noqa: BLE001
                pass
        for p in paths:
            if os.path.exists(p):
                os.remove(p)
    from geoh5py.shared.entity import DEFAULT_CRS

    vals = {str(i): op.get("_val") for i, op in enumerate(case["hist"]) if "_val" in op}
    return {"steps": steps, "defaults": defaults_log, "crs_default": tokz(_plain(DEFAULT_CRS)), "vals": vals}


# ----------------------------------------------------------------------------- Coq terms
class _Intern:
    def __init__(self):
        self.t = {}

    def __call__(self, x):
        if abs(x) < 1000:
            return x
        if x not in self.t:
            self.t[x] = 1000 + len(self.t)
        return self.t[x]


IN = [_Intern()]


def _z(x):
    x = IN[0](x)
    return "(%d)" % x if x < 0 else str(x)


def _cval(v):
    if v[0] == "P":
        return "(CPos %s)" % cnat(v[1])
    if v[0] == "foreign":
        return "CForeign"
    if v[0] == "own":
        return "COwn"
    if v[0] == "D":
        return "(CD %s)" % clist("(%s,%s)" % (cnat(k), _z(z)) for k, z in v[1])
    return "(CZ %s)" % _z(v[1])


def _cdict(d):
    return "None" if d is None else "(Some %s)" % clist("(%s,%s)" % (cnat(k), _cval(v)) for k, v in d)


def _oview(v):
    p = v["partner"]
    if isinstance(p, str):
        return None
    return "(%s,%s,%s,%s)" % (_cdict(v["live"]), "OSame" if v["live"] == v["stored"] else "(OStored %s)" % _cdict(v["stored"]),
                              "None" if p is None else "(Some %s)" % cnat(p),
                              "None" if v["ident"] is None else "(Some %s)" % cnat(v["ident"]))


def _cls_at(case, obs, i):
    op = case["hist"][i]
    for st in reversed(obs["steps"][: i + 1]):
        if "views" in st and op["a"] < len(st["views"]):
            return st["views"][op["a"]]["cls"]
    return None


def _op_term(op, obs, idx, case=None):
    k = op["op"]
    if case is not None and k in ("unit", "edit"):
        prop = "default_units" if k == "unit" else ("default_input_types" if op.get("key") == "Input type" else None)
        if prop and _cls_at(case, obs, idx) in BROKEN[prop]:
            return "(OFail %s)" % cnat(op["a"])
    if k == "create":
        fam = PAIRS[op["pair"]][2]
        dfl = obs["defaults"][idx] if idx < len(obs["defaults"]) and obs["defaults"][idx] is not None else []
        return "(OCreate %s %s %s %s %s %s)" % (cbool(bool(op["ws"])), fam, "RA" if op["role"] == "A" else "RB", cbool(bool(op["ids"])), cnat(op["n"]),
                                               clist("(%s,%s)" % (cnat(a), _z(b)) for a, b in dfl))
    if k == "link":
        return "(OLink %s %s)" % (cnat(op["a"]), cnat(op["b"]))
    if k == "timing":
        return "(OTiming %s %s)" % (cnat(op["a"]), _z(tokz(op["val"])))
    if k == "param":
        fld = PARAMS[op["field"]]
        pv = "PClear" if op["kind"] == "none" else "(%s %s)" % ("PConst" if op["kind"] == "float" else "PProp", _z(_param_token(op)))
        return "(OParam %s %s %s %s)" % (cnat(op["a"]), cnat(keynum(fld + " value")), cnat(keynum(fld + " property")), pv)
    if k == "nest":
        return "(ONest %s %s %s %s)" % (cnat(op["a"]), cnat(keynum(op.get("key", "Nested"))), cnat(keynum("a")), _z(tokz(op["val"])))
    if k == "crs":
        return "(OCrs %s %s %s)" % (cnat(op["a"]), _z(tokz({"Code": "EPSG:%d" % op["code"], "Name": "n%d" % op["code"]})), _z(obs["crs_default"]))
    if k == "edit":
        val = op["val"]
        if op["key"] == "Input type":
            val = (obs.get("vals") or {}).get(str(idx))
        if op["key"] == "Channels":
            val = [_num(x) for x in val]
        elif op["key"] == "Loop radius":
            val = _num(val)
        return "(OEdit %s %s %s)" % (cnat(op["a"]), cnat(keynum(op["key"])), _z(tokz(val)))
    if k == "wave":
        return "(OWave %s %s)" % (cnat(op["a"]), _z(_wave_token(op["seed"])))
    if k == "unit":
        fem = ["Hertz (Hz)", "KiloHertz (kHz)", "MegaHertz (MHz)", "Gigahertz (GHz)"]
        tem = ["Seconds (s)", "Milliseconds (ms)", "Microseconds (us)", "Nanoseconds (ns)"]
        return "(OUnit %s %s)" % (cnat(op["a"]), "UNIT")
    if k == "reopen":
        return "OReopen"
    if k == "copy":
        return "(OCopy %s %s %s)" % (cnat(op["a"]), cbool(bool(op["tws"])), "None" if op["mask"] is None else "(Some %s)" % clist(cbool(bool(b)) for b in op["mask"]))
    raise ValueError(k)


def _unit_token(case, obs, i):
    """the unit string actually assigned by step i (depends on the class of the addressed entity)"""
    op = case["hist"][i]
    # class of entity a at that time: take it from the last successful observation up to step i
    for st in reversed(obs["steps"][: i + 1]):
        if "views" in st and op["a"] < len(st["views"]):
            cls = st["views"][op["a"]]["cls"]
            break
    else:
        return None
    units = ["Hertz (Hz)", "KiloHertz (kHz)", "MegaHertz (MHz)", "Gigahertz (GHz)"] if ("FEM" in cls or "Tipper" in cls) else \
        ["Seconds (s)", "Milliseconds (ms)", "Microseconds (us)", "Nanoseconds (ns)"]
    return tokz(units[op["idx"]])


def case_term(case, obs):
    IN[0] = _Intern()
    steps = obs["steps"]
    if steps and "error" in steps[-1] and "zero-size array" in str(steps[-1].get("msg")):
        return None  # a masked electrode copy that keeps no cell crashes inside numpy (finding); cells are not modelled
    ops, views = [], []
    for i, st in enumerate(steps):
        op = case["hist"][i]
        t = _op_term(op, obs, i, case)
        if "UNIT" in t:
            ut = _unit_token(case, obs, i)
            if ut is None:
                return None
            t = t.replace("UNIT", _z(ut))
        ops.append("(%s, %s)" % (t, cbool(not op.get("quiet"))))
        if "error" in st:
            views.append("OErr")
        elif st.get("quiet"):
            views.append("(OQuiet %s)" % clist(_cdict(v["stored"]) for v in st["views"]))
        else:
            vs = [_oview(v) for v in st["views"]]
            if any(v is None for v in vs):
                return None
            views.append("(OFull %s)" % clist(vs))
    return "check_history %s %s" % (clist(ops), clist(views))


def model_term(case):
    return None


# ----------------------------------------------------------------------------- oracle (property text)
EDIT_OPS = ("edit", "wave", "unit", "timing", "nest", "crs", "param")


def _get(d, k):
    for kk, v in d or []:
        if kk == k:
            return v
    return None


def _pairs_of(views):
    """linked pairs by the partner getters: list of (i, j) with i < j"""
    out = []
    for i, v in enumerate(views):
        p = v["partner"]
        if isinstance(p, int) and p > i and views[p]["partner"] == i:
            out.append((i, p))
    return out


def oracle(case, obs):
    fails = []
    if "crash" in obs:
        return [{"key": "driver-crash", "what": str(obs["crash"])[:300] + str(obs.get("tb", ""))[-400:]}]
    hist, steps = case["hist"], obs["steps"]
    linked = {}        # position -> partner position, as requested by link/copy operations (expected)
    roles = {}
    pairs = {}
    expect_copy = {}
    prev_views = None
    prev_quiet = False
    creates = {}
    former = {}        # entity -> its ex-partner, after a re-link moved the partner elsewhere
    relinked = set()   # entities that were given a new partner while they had one
    param_now = {}     # (pair, field) -> token of the airborne parameter value last assigned through either member
    stale = {}         # entity -> the partner its getter resolved (and cached) before it was re-linked from elsewhere
    for i, st in enumerate(steps):
        op = hist[i]
        k = op["op"]
        if "error" in st:
            key = "%s-refused:%s" % (k, st["error"])
            if k == "unit" and st["error"] == "AttributeError":
                key = "tipper-unit-setter-attribute-error"
            elif k == "edit" and op.get("key") == "Input type" and st["error"] == "AttributeError":
                key = "input-type-setter-attribute-error"
            elif k == "copy" and "zero-size array" in str(st.get("msg")) and op["mask"] is not None:
                key = "dc-masked-copy-no-cell-raises"
            elif k == "copy" and st["error"] == "ValueError" and op["mask"] is not None:
                cls = prev_views[op["a"]]["cls"] if prev_views else ""
                p = linked.get(op["a"])
                same = p is not None and prev_views[p]["sizes"][0] == prev_views[op["a"]]["sizes"][0]
                if len(op["mask"]) != prev_views[op["a"]]["sizes"][0]:
                    key = None  # a mask of the wrong length is rightly refused
                elif not same and "LargeLoop" not in cls and "Electrode" not in cls:
                    key = "masked-copy-partner-vertex-count-differs"
            elif k in ("edit", "crs") and roles.get(op["a"]) == "DC" and op["a"] not in linked:
                key = None  # an unlinked electrode refuses every metadata assignment, the coordinate reference system included (its
                #             metadata validation requires both link keys); the property is about linked pairs, the model refuses too
            if key:
                fails.append({"key": key, "what": f"step {i} {json.dumps(op)[:120]} raised {st['error']}: {st.get('msg')}"})
            break
        views = st["views"]
        quiet = bool(st.get("quiet"))
        # bookkeeping of what the history asked for
        if k == "create":
            creates[len(views) - 1] = op
            roles[len(views) - 1] = "DC" if op["pair"] == "DC" else PAIRS[op["pair"]][2]
            pairs[len(views) - 1] = op["pair"]
        elif k == "link":
            for x in (op["a"], op["b"]):
                old0 = linked.get(x)
                # the link setters of EM surveys refresh the cache of the entity they are called on only; electrode setters refresh none
                if old0 is not None and old0 not in (op["a"], op["b"]) and (x == op["b"] or roles.get(x) == "DC"):
                    stale[x] = old0
                elif x == op["a"] and roles.get(x) != "DC":
                    stale.pop(x, None)
            for x in (op["a"], op["b"]):
                old = linked.pop(x, None)
                if old is not None:
                    linked.pop(old, None)
                    if old not in (op["a"], op["b"]):
                        former[old] = x      # a re-link: `old` was the partner of x and is no longer addressed
                        relinked.add(x)
            former.pop(op["a"], None)
            former.pop(op["b"], None)
            linked[op["a"]], linked[op["b"]] = op["b"], op["a"]
        elif k == "reopen":
            stale.clear()
        elif k == "copy":
            n_before = len(prev_views) if prev_views else 0
            a = op["a"]
            roles[n_before] = roles.get(a)
            pairs[n_before] = pairs.get(a)
            pa = linked.get(a)
            if pa is not None:
                # "Copying one side also copies the partner and links the two copies to each other, not to the originals"
                if len(views) != n_before + 2:
                    cls = views[a]["cls"]
                    key = "copy-does-not-copy-partner"
                    if ("LargeLoop" in cls or "Electrode" in cls):
                        key = "copy-without-id-property-drops-partner"
                    fails.append({"key": key, "what": f"step {i}: copy of linked {cls} created {len(views) - n_before} entities (expected the copy and its partner)"})
                else:
                    c, c2 = n_before, n_before + 1
                    roles[c2], pairs[c2] = roles.get(pa), pairs.get(pa)
                    linked[c], linked[c2] = c2, c
                    if views[c]["partner"] != c2 or views[c2]["partner"] != c:
                        fails.append({"key": "copy-partner-not-the-copy", "what": f"step {i}: partner getters of the copies give {views[c]['partner']} / {views[c2]['partner']}, expected {c2} / {c}"})
                    if views[c]["partner"] in (a, pa) or views[c2]["partner"] in (a, pa):
                        fails.append({"key": "copy-linked-to-original", "what": f"step {i}: a copy is linked to an original"})
                    # the copy carries the survey parameters of its source (everything but the identifiers)
                    # references to other entities (the link keys, "Tx ID property", "<Field> property" of an airborne parameter) are
                    # not carried over by BaseEMSurvey.copy ("copy metadata except reference to entities UUID"): the data they name
                    # get new uids in the copy
                    refs = (0, 1, 3) + tuple(keynum(f + " property") for f in PARAMS.values())
                    pa_src = [kv for kv in (views[a]["live"] or []) if kv[0] not in refs]
                    pa_cp = [kv for kv in (views[c]["live"] or []) if kv[0] not in refs]
                    if roles.get(a) != "DC" and pa_src != pa_cp:
                        fails.append({"key": "copy-parameters-differ", "what": f"step {i}: survey parameters of the copy {str(pa_cp)[:100]} differ from the source's {str(pa_src)[:100]}"})
                    if views[c2]["cls"] != views[pa]["cls"] or views[c]["cls"] != views[a]["cls"]:
                        fails.append({"key": "copy-class", "what": f"step {i}: copies have classes {views[c]['cls']}/{views[c2]['cls']}"})
                    # masks: the copy keeps the selected vertices; large loops keep the loops the copied receivers refer to
                    if op["mask"] is not None:
                        want = sum(op["mask"])
                        if views[c]["sizes"][0] != want:
                            fails.append({"key": "masked-copy-size", "what": f"step {i}: masked copy has {views[c]['sizes'][0]} vertices, mask keeps {want}"})
                        cls = views[a]["cls"]
                        if "LargeLoop" not in cls and "Electrode" not in cls and views[c2]["sizes"][0] != want:
                            fails.append({"key": "masked-copy-size", "what": f"step {i}: partner copy has {views[c2]['sizes'][0]} vertices, mask keeps {want}"})
                        if "LargeLoop" in cls and a in creates and pa in creates and creates[a].get("loops"):
                            # exactly the loops the copied receivers refer to / the receivers of the copied loops
                            loops, nrx = creates[a]["loops"], creates[min(a, pa) if creates[min(a, pa)]["role"] == "A" else max(a, pa)]["n"]
                            rxi = a if creates[a]["role"] == "A" else pa
                            nrx = creates[rxi]["n"]
                            if creates[a]["role"] == "A":
                                keep = {rx_loop(j, nrx, loops) for j in range(nrx) if op["mask"][j]}
                                want2 = 4 * len(keep)
                            else:
                                keep = {kk + 1 for kk in range(loops) if all(op["mask"][4 * kk + d] for d in range(4))}
                                want2 = sum(1 for j in range(nrx) if rx_loop(j, nrx, loops) in keep)
                            if views[c2]["sizes"][0] != want2:
                                fails.append({"key": "large-loop-copy-wrong-loops", "what": f"step {i}: the partner copy has {views[c2]['sizes'][0]} vertices, the kept loops {sorted(keep)} call for {want2}"})
            elif len(views) != n_before + 1:
                fails.append({"key": "copy-unlinked-created-extra", "what": f"step {i}: copy of an unlinked survey created {len(views) - n_before} entities"})
        for j, v in enumerate(views):
            if v.get("txown") is False:
                fails.append({"key": "tx-id-property-not-own-data", "what": f"step {i} ({k}): receivers {j} name a Transmitter ID property that is not their own child"})
        # ---- the property on the state after the operation
        for a, b in list(linked.items()):
            if a > b:
                continue
            va, vb = views[a], views[b]
            if quiet:
                if roles.get(a) != "DC" and va["stored"] != vb["stored"]:
                    fails.append({"key": "stored-metadata-of-partners-differ", "what": f"step {i} ({k}): the files hold different metadata for partners ({a},{b}): {str(va['stored'])[:120]} / {str(vb['stored'])[:120]}"})
                for v, who in ((va, a), (vb, b)):
                    ids = {tuple(_get(v["stored"], 0) or []), tuple(_get(v["stored"], 1) or [])}
                    if ids != {("P", a), ("P", b)}:
                        fails.append({"key": "link-ids-missing", "what": f"step {i} ({k}): stored metadata of entity {who} names {sorted(ids)} instead of both partners ({a},{b})"})
                continue
            if va["partner"] != b or vb["partner"] != a:
                wrong = [(x, y, v["partner"]) for x, y, v in ((a, b, va), (b, a, vb)) if v["partner"] != y]
                key = "partner-getter"
                if wrong and all(x in stale and got == stale[x] for x, _, got in wrong):
                    key = "relink-stale-partner-cache"   # the getter still answers with the partner it resolved before the re-link
                fails.append({"key": key, "what": f"step {i} ({k}): partner getters of linked pair ({a},{b}) give {va['partner']} / {vb['partner']}"})
                continue
            for v, who in ((va, a), (vb, b)):
                d = v["live"]
                if _get(d, 0) != ["P", min(a, b) if roles.get(min(a, b)) is not None else a] and _get(d, 0) != ["P", a] and _get(d, 0) != ["P", b]:
                    fails.append({"key": "link-ids-missing", "what": f"step {i} ({k}): entity {who} lacks the receivers-side identifier"})
                ids = {tuple(_get(d, 0) or []), tuple(_get(d, 1) or [])}
                if ids != {("P", a), ("P", b)}:
                    fails.append({"key": "link-ids-missing", "what": f"step {i} ({k}): metadata of entity {who} names {sorted(ids)} instead of both partners ({a},{b})"})
            if roles.get(a) != "DC":
                la = [kv for kv in va["live"] if kv[0] != 3]
                lb = [kv for kv in vb["live"] if kv[0] != 3]
                if va["live"] != vb["live"]:
                    da = {kk: x for kk, x in (va["live"] or [])}
                    db = {kk: x for kk, x in (vb["live"] or [])}
                    dk = {kk for kk in set(da) | set(db) if da.get(kk) != db.get(kk)}
                    copies = [j for j, h in enumerate(hist[: i + 1]) if h["op"] == "copy"]
                    alias = dk == {2} and bool(copies) and any(h["op"] in ("wave", "timing") and j > copies[0] for j, h in enumerate(hist[: i + 1]))
                    fails.append({"key": "tem-copy-shares-waveform-dict" if alias else "partners-metadata-differ",
                                  "what": f"step {i} ({k}): live metadata of partners ({a},{b}) differ in keys {sorted(dk)}"})
            for v, who in ((va, a), (vb, b)):
                if v["live"] != v["stored"]:
                    key = "metadata-not-stored"
                    if roles.get(who) == "DC":
                        key = "dc-shared-dict-partner-not-stored"
                    elif _src_wave_alias(i, hist, who, views, prev_views):
                        key = "tem-copy-shares-waveform-dict"
                    fails.append({"key": key, "what": f"step {i} ({k}): live and stored metadata of entity {who} differ: live {str(v['live'])[:120]} stored {str(v['stored'])[:120]}"})
        # edits are visible on both: the edited key has the edited value on both partners
        if k in EDIT_OPS and op["a"] in linked:
            a, b = op["a"], linked[op["a"]]
            if roles.get(a) != "DC":
                if k == "timing":
                    for who in (a, b):
                        w = _get(views[who]["stored" if quiet else "live"], 2)
                        ws_ = _get(views[who]["stored"], 2)
                        if not w or _get(w[1], 0) != tokz(op["val"]) or not ws_ or _get(ws_[1], 0) != tokz(op["val"]):
                            fails.append({"key": "edit-not-visible-on-both", "what": f"step {i}: timing mark {op['val']} not visible/stored on entity {who}"})
                elif k == "nest":
                    want = ["D", [[keynum("a"), tokz(op["val"])]]]
                    for who in (a, b):
                        nk = keynum(op.get("key", "Nested"))
                        if (not quiet and _get(views[who]["live"], nk) != want) or _get(views[who]["stored"], nk) != want:
                            fails.append({"key": "edit-not-visible-on-both", "what": f"step {i}: nested entry not visible/stored on entity {who}"})
                elif k == "param":
                    fld = PARAMS[op["field"]]
                    kv, kp = keynum(fld + " value"), keynum(fld + " property")
                    tok = _param_token(op)
                    want_v = ["Z", tok] if op["kind"] == "float" else None
                    want_p = ["Z", tok] if op["kind"] == "uuid" else None
                    for who in (a, b):
                        for where in (("stored",) if quiet else ("live", "stored")):
                            d = views[who][where]
                            if _get(d, kv) != want_v or _get(d, kp) != want_p:
                                fails.append({"key": "edit-not-visible-on-both", "what": f"step {i}: {op['field']} = {op['kind']} through entity {a}: {where} metadata of entity {who} holds"
                                                                                         f" value={_get(d, kv)} property={_get(d, kp)}"})
                        got = (views[who].get("params") or {}).get(op["field"], tok) if not quiet else tok
                        if got != tok:
                            fails.append({"key": "edit-not-visible-on-both", "what": f"step {i}: {op['field']} = {op['kind']} through entity {a}: entity {who}.{op['field']} answers {got}"})
                if k == "edit":
                    val = op["val"]
                    if op["key"] == "Input type":
                        val = (obs.get("vals") or {}).get(str(i))
                    if op["key"] == "Channels":
                        val = [_num(x) for x in val]
                    elif op["key"] == "Loop radius":
                        val = _num(val)
                    want = ["Z", tokz(val)]
                    kk = keynum(op["key"])
                    for who in (a, b):
                        if (not quiet and _get(views[who]["live"], kk) != want) or _get(views[who]["stored"], kk) != want:
                            fails.append({"key": "edit-not-visible-on-both", "what": f"step {i}: edit {op['key']} not visible/stored on entity {who}"})
                elif k == "wave":
                    for who in (a, b):
                        w = _get(views[who]["stored" if quiet else "live"], 2)
                        if not w or _get(w[1], 1) != _wave_token(op["seed"]):
                            fails.append({"key": "edit-not-visible-on-both", "what": f"step {i}: waveform not visible on entity {who}"})
        # an edit of a pair must not change any other pair
        if k == "crs" and roles.get(op["a"]) == "DC":
            blk = _get(views[op["a"]]["stored"], 30)
            want = tokz({"Code": "EPSG:%d" % op["code"], "Name": "n%d" % op["code"]})
            if not blk or _get(blk[1], 0) != want:
                fails.append({"key": "edit-not-stored", "what": f"step {i}: coordinate reference system not stored on entity {op['a']}"})
        if k in EDIT_OPS and prev_views is not None:
            touched = {op["a"], linked.get(op["a"])}
            for j, (v0, v1) in enumerate(zip(prev_views, views)):
                if j in touched:
                    continue
                if (not quiet and not prev_quiet and v0["live"] != v1["live"]) or v0["stored"] != v1["stored"]:
                    key = "edit-changes-other-pair"
                    if j in former and v0["stored"] == v1["stored"]:
                        key = "relink-former-partner-keeps-shared-dict"
                    elif roles.get(j) == "DC" and v0["stored"] == v1["stored"]:
                        key = "dc-shared-dict-partner-not-stored"
                    if k in ("wave", "timing") and key == "edit-changes-other-pair":
                        key = "tem-copy-shares-waveform-dict"
                    fails.append({"key": key, "what": f"step {i} ({k} on {op['a']}): metadata of unrelated entity {j} changed"})
        # a copy must not change the originals
        if k == "copy" and prev_views is not None:
            for j, (v0, v1) in enumerate(zip(prev_views, views)):
                if v0["stored"] != v1["stored"] or (not prev_quiet and (v0["live"] != v1["live"] or v0["partner"] != v1["partner"])):
                    fails.append({"key": "copy-changes-original", "what": f"step {i}: entity {j} changed during the copy of {op['a']}"})
        if k == "reopen" and prev_views is not None:
            for j, (v0, v1) in enumerate(zip(prev_views, views)):
                if v0["stored"] != v1["stored"]:
                    fails.append({"key": "reopen-changes-stored", "what": f"step {i}: stored metadata of entity {j} changed over re-open"})
                if not quiet and v1["live"] != v1["stored"]:
                    fails.append({"key": "reopen-live-differs-from-stored", "what": f"step {i}: entity {j} reads metadata that differs from the file"})
        # the airborne parameters last assigned through either side of a pair answer on both sides after a re-open
        if k == "param" and op["a"] in linked:
            param_now[(min(op["a"], linked[op["a"]]), max(op["a"], linked[op["a"]]), op["field"])] = _param_token(op)
        elif k == "link":
            param_now = {kk: vv for kk, vv in param_now.items() if linked.get(kk[0]) == kk[1]}
        if k == "reopen" and not quiet:
            for (pa_, pb_, fld_), tok in param_now.items():
                if linked.get(pa_) != pb_:
                    continue
                for who in (pa_, pb_):
                    got = (views[who].get("params") or {}).get(fld_, tok)
                    if got != tok:
                        fails.append({"key": "edit-lost-over-reopen", "what": f"step {i}: after re-open entity {who}.{fld_} answers {got}, the last value assigned to the pair was {tok}"})
        prev_views = views
        prev_quiet = quiet
    # de-duplicate by key keeping the first message
    seen, out = set(), []
    for f in fails:
        if f["key"] not in seen:
            seen.add(f["key"])
            out.append(f)
    return out


def _src_wave_alias(i, hist, who, views, prev_views):
    """live != stored on an entity, differing in the Waveform entry only, after a waveform edit that followed a copy:
    the shared nested dict was updated through another pair."""
    v = views[who]
    lk = {k: x for k, x in (v["live"] or [])}
    sk = {k: x for k, x in (v["stored"] or [])}
    diff = {k for k in set(lk) | set(sk) if lk.get(k) != sk.get(k)}
    copies = [j for j, h in enumerate(hist[: i + 1]) if h["op"] == "copy"]
    waves = [j for j, h in enumerate(hist[: i + 1]) if h["op"] in ("wave", "timing")]   # both setters update the nested dict in place
    return diff == {2} and bool(copies) and any(j > copies[0] for j in waves)


def nontrivial(case, obs):
    kinds = [o["op"] for o in case["hist"]]
    return "link" in kinds and ("copy" in kinds or ("reopen" in kinds and any(k in kinds for k in EDIT_OPS)))


def histogram(cases, obs):
    h = {"pair": {}, "ops": {}, "length": {}, "outcome": {}, "masked_copies": 0, "cross_ws_copies": 0, "copies_of_copies": 0}
    for c, o in zip(cases, obs):
        p = c["hist"][0]["pair"]
        h["pair"][p] = h["pair"].get(p, 0) + 1
        n_created = sum(1 for x in c["hist"] if x["op"] == "create")
        for x in c["hist"]:
            h["ops"][x["op"]] = h["ops"].get(x["op"], 0) + 1
            if x["op"] == "copy":
                h["masked_copies"] += x["mask"] is not None
                h["cross_ws_copies"] += x["tws"] == 1
                h["copies_of_copies"] += x["a"] >= n_created
        lk = str(len(c["hist"]))
        h["length"][lk] = h["length"].get(lk, 0) + 1
        last = (o.get("steps") or [{}])[-1]
        oc = "crash" if "crash" in o else (last.get("error") or "ok")
        h["outcome"][oc] = h["outcome"].get(oc, 0) + 1
    return h
