"""C07 — Data stay aligned with the geometry they are attached to.

Points/Curve/Surface objects with vertex-, cell- and object-associated data are taken through histories of
remove_vertices / remove_cells / values assignments / add_data / masked copies / re-opens on the real geoh5py; the
Gallina model (Model/Geometry.v) is evaluated on the same history inside Coq and must predict every outcome and
every snapshot; the oracle checks the property text against a ledger kept independently of the model.
"""
from __future__ import annotations

import ast
import copy as _copy
from pathlib import Path

from vlib import common as C
from vlib.common import cbool, clist, cnat, copt, cz

ID = "C07"
PROPERTIES_V = "theories/Properties/C07.v"
CASE_IMPORTS = "From GV Require Import Prelude.Base Model.Geometry."
ALLOWED_AXIOMS: list = []
REFUTED = [
    "C07_atomic_refuted (pinned tree: CellObject.remove_vertices with indices touching no cell raises after the vertices "
    "were replaced; for the repaired code the statement is proved as C07_atomic_repaired (no text data) / "
    "C07_atomic_repaired_partial)",
    "C07_history_consistent_refuted (pinned tree: a history of valid operations reaches an inconsistent object)",
]
PARTIAL = [
    "C07_atomic_repaired_partial, C07_history_consistent_repaired_partial (repaired code with per-element text data: under "
    "copy_args_ok, which excludes exactly the three open text-data findings - text arrays shorter than the element count, "
    "removals / copies that leave a text child without entries; the unsuffixed theorems C07_atomic_repaired and "
    "C07_history_consistent_repaired are full for objects and histories without per-element text data)",
    "C07_atomic_as_is_partial, C07_step_consistent_as_is, C07_history_consistent_as_is_partial (pinned tree: atomicity and "
    "consistency hold for every operation whose removal touches a cell and whose object has no value-less vertex/cell "
    "child; missing: exactly the two defects recorded as findings)",
]
TRUSTED = [
    "Coq 8.16.1 kernel + vm_compute (correspondence evaluation); no axioms (Print Assumptions: closed)",
    "hand-written model coq/theories/Model/Geometry.v of Points/CellObject.remove_vertices, CellObject.remove_cells, "
    "ObjectBase.remove_children_values, NumericData.format_length/values, add_data's value path, the masked copy and the "
    "values getter after a re-open; tied to the code by running both on the same generated histories",
    "numpy np.delete / boolean-mask / fancy-index semantics, h5py storage, geoh5py object creation (exercised, not modelled)",
    "tools/props/c07.py: generator, driver, canonicalisation (int<->float on an integer lattice, nan/INTEGER_NDV -> None), "
    "oracle, and the ast-based detection of which of the two repairs the checked tree contains (cross-checked by the "
    "correspondence: a wrong flag makes the cases disagree)",
]
ASSUMPTIONS = [
    "coordinates and data values are small integers so that float comparison is exact",
    "objects are Points, Curve or Surface with float / integer / referenced / boolean / per-element text children",
    "per-element text data are generated without steering (short arrays, one-entry arrays, copies that drop nothing, removals "
    "that empty them: four recorded findings); only assigning / adding an empty text array is not generated; a history stops "
    "when a one-entry text array has come back from the file as a scalar",
    "clear_cache=False; vertices are never grown through the vertices setter; an explicit cell_mask given with a vertex mask "
    "only keeps cells inside that mask",
    "a history stops after an operation that fails leaving changed state, or once a data array has become empty "
    "(then only the final re-open is observed)",
]
RULE = (
    "object class Curve/Surface/Points 40/35/25, 1-12 lattice vertices (repeated coordinates occur), cells drawn so that "
    "about 30% of meshes have unreferenced vertices and 30% unordered cells, 0-3 initial data children (full, short, "
    "too long, value-less), then 2-7 operations (remove_vertices 35, remove_cells 12, set values 15, add_data 10, masked "
    "copy 13, re-open 15) with index sets that are repeated, unsorted, negative, first/last/all-but-one, touching no cell, "
    "empty or out of range; value arrays of set / add operations may be 2-D ((n,1), (1,n), (n,k), (k,n)); a final re-open "
    "always follows. A second stream copies one data child (all kinds) with an arbitrary mask onto its own parent or another "
    "object of equal, smaller or larger size. non-trivial = an executed removal or masked copy that drops at "
    "least one cell, or a vertex removal on a cell object that touches no cell"
)
LEVEL_TEXT = (
    "Proved for all objects, index lists (any order, repeats, negative indices) and masks: a successful remove_vertices / "
    "remove_cells / masked copy (vertex mask or cell mask of the right length) keeps exactly the complement, every surviving "
    "vertex and cell keeps its coordinates and its value in every data child, cells reference existing vertices and connect "
    "the same coordinates, lengths stay equal to the element counts; Data.copy onto any parent keeps every kept element at "
    "its own index (or compacts onto a smaller parent); shorter numeric arrays are padded with the no-data value, longer "
    "ones refused without change. For the repaired code and for OBJECTS WITHOUT PER-ELEMENT TEXT DATA AND SINGLE-MASK COPIES "
    "(no_text_kids, plain_ok) every failing operation leaves the object unchanged and consistency is an invariant of all "
    "histories; with text data the same holds only under copy_args_ok (_partial theorems), which excludes the three open "
    "text-data findings. For the pinned tree atomicity is refuted with a replayed witness and proved under the side condition "
    "that excludes the recorded findings. Tie: differential correspondence on generated histories evaluated inside Coq; the "
    "repair flags are read off the source."
)
TECHNIQUE = "Coq proof over a hand model (induction on masks/children/histories) + in-Coq differential correspondence"

INT_NDV = -2147483648
ASSOC = {"VERTEX": "AVertex", "CELL": "ACell", "OBJECT": "AObject"}
KIND = {"float": "KFloat", "int": "KInt", "bool": "KBool", "text": "KText", "ref": "KInt"}  # referenced data behave as integer data
OKIND = {"Points": "OPoints", "Curve": "OCurve", "Surface": "OSurface"}
ERRS = {"ValueError", "IndexError", "AxisError", "TypeError"}
ERR_ALIAS = {"UFuncTypeError": "TypeError", "_UFuncNoLoopError": "TypeError"}

_FLAGS = None


# ----------------------------------------------------------------------------- which repairs does the tree contain?
def detect_flags(repo) -> dict:
    """Read the two switchable behaviours off the source (fail-closed when the code shape is not recognised)."""
    repo = Path(repo)
    # (1) CellObject.remove_vertices: is the call self.remove_cells(...) under an `if`?
    tree = ast.parse((repo / "geoh5py/objects/cell_object.py").read_text())
    fn = None
    for node in ast.walk(tree):
        if isinstance(node, ast.ClassDef) and node.name == "CellObject":
            for sub in node.body:
                if isinstance(sub, ast.FunctionDef) and sub.name == "remove_vertices":
                    fn = sub
    if fn is None:
        raise RuntimeError("CellObject.remove_vertices not found")

    def has_call(n):
        return any(isinstance(x, ast.Call) and isinstance(x.func, ast.Attribute) and x.func.attr == "remove_cells" for x in ast.walk(n))

    top = [s for s in fn.body if has_call(s)]
    if len(top) != 1:
        raise RuntimeError("CellObject.remove_vertices: expected exactly one statement calling remove_cells")
    if isinstance(top[0], ast.If):
        guard = True
    elif isinstance(top[0], ast.Expr):
        guard = False
    else:
        raise RuntimeError("CellObject.remove_vertices: unrecognised shape around remove_cells")
    # (2) ObjectBase.remove_children_values: `if values is None: continue` inside the loop?
    tree = ast.parse((repo / "geoh5py/objects/object_base.py").read_text())
    fn = None
    for node in ast.walk(tree):
        if isinstance(node, ast.FunctionDef) and node.name == "remove_children_values":
            fn = node
    if fn is None:
        raise RuntimeError("ObjectBase.remove_children_values not found")
    loops = [n for n in ast.walk(fn) if isinstance(n, ast.For)]
    if len(loops) != 1:
        raise RuntimeError("remove_children_values: expected one loop")
    skip = False
    for n in ast.walk(loops[0]):
        if isinstance(n, ast.If) and any(isinstance(b, ast.Continue) for b in n.body):
            t = n.test
            if (isinstance(t, ast.Compare) and isinstance(t.left, ast.Name) and t.left.id == "values"
                    and len(t.ops) == 1 and isinstance(t.ops[0], ast.Is)
                    and isinstance(t.comparators[0], ast.Constant) and t.comparators[0].value is None):
                skip = True
            else:
                raise RuntimeError("remove_children_values: unrecognised `continue` condition")
    # (3) H5Reader.fetch_values: is `isinstance(values[0], ...)` protected by a length test?
    tree = ast.parse((repo / "geoh5py/io/h5_reader.py").read_text())
    fn = None
    for node in ast.walk(tree):
        if isinstance(node, ast.FunctionDef) and node.name == "fetch_values":
            fn = node
    if fn is None:
        raise RuntimeError("H5Reader.fetch_values not found")

    def is_first_elem_test(n):
        return (isinstance(n, ast.Call) and isinstance(n.func, ast.Name) and n.func.id == "isinstance" and n.args
                and isinstance(n.args[0], ast.Subscript) and isinstance(n.args[0].value, ast.Name) and n.args[0].value.id == "values")

    tests = [n.test for n in ast.walk(fn) if isinstance(n, ast.If) and any(is_first_elem_test(x) for x in ast.walk(n.test))]
    if len(tests) != 1:
        raise RuntimeError("fetch_values: expected one test on values[0]")
    t = tests[0]
    if is_first_elem_test(t):
        read_empty = False
    elif (isinstance(t, ast.BoolOp) and isinstance(t.op, ast.And) and is_first_elem_test(t.values[-1])
          and any(isinstance(x, ast.Call) and isinstance(x.func, ast.Name) and x.func.id == "len" for x in ast.walk(t.values[0]))):
        read_empty = True
    else:
        raise RuntimeError("fetch_values: unrecognised test around values[0]")
    # (4) Data.copy: blank array built with np.full_like (works for str arrays) or with np.ones_like(...) * nan_value?
    tree = ast.parse((repo / "geoh5py/data/data.py").read_text())
    fn = None
    for node in ast.walk(tree):
        if isinstance(node, ast.ClassDef) and node.name == "Data":
            for sub in node.body:
                if isinstance(sub, ast.FunctionDef) and sub.name == "copy":
                    fn = sub
    if fn is None:
        raise RuntimeError("Data.copy not found")
    calls = {x.func.attr for x in ast.walk(fn) if isinstance(x, ast.Call) and isinstance(x.func, ast.Attribute)
             and isinstance(x.func.value, ast.Name) and x.func.value.id == "np"}
    if "full_like" in calls and "ones_like" not in calls:
        copy_text = True
    elif "ones_like" in calls and "full_like" not in calls:
        copy_text = False
    else:
        raise RuntimeError("Data.copy: unrecognised construction of the blank array")
    # (5) Entity.__init__: does map_attributes run inside the try block whose handler detaches the child again
    # (a refused attribute leaves nothing behind), or before it (a refused add_data leaves a value-less child)?
    tree = ast.parse((repo / "geoh5py/shared/entity.py").read_text())
    fn = None
    for node in ast.walk(tree):
        if isinstance(node, ast.ClassDef) and node.name == "Entity":
            for sub in node.body:
                if isinstance(sub, ast.FunctionDef) and sub.name == "__init__":
                    fn = sub
    if fn is None:
        raise RuntimeError("Entity.__init__ not found")

    def calls_map(n):
        return any(isinstance(x, ast.Call) and isinstance(x.func, ast.Name) and x.func.id == "map_attributes" for x in ast.walk(n))

    holders = [st for st in fn.body if calls_map(st)]
    if len(holders) != 1:
        raise RuntimeError("Entity.__init__: expected exactly one statement calling map_attributes")
    st = holders[0]
    if isinstance(st, ast.Expr):
        rollback = False
    elif isinstance(st, ast.Try) and any(calls_map(b) for b in st.body) and len(st.handlers) == 1:
        h = st.handlers[0]
        broad = h.type is None or (isinstance(h.type, ast.Name) and h.type.id in ("Exception", "BaseException"))
        detaches = any(isinstance(x, ast.Attribute) and x.attr == "_children" for x in ast.walk(h)) and any(isinstance(x, ast.Raise) for x in ast.walk(h))
        if not (broad and detaches):
            raise RuntimeError("Entity.__init__: map_attributes is inside a try whose handler is not the detach-and-re-raise one")
        rollback = True
    else:
        raise RuntimeError("Entity.__init__: unrecognised shape around map_attributes")
    # (6) H5Writer.write_data_values: can a zero-length text array be written?  pinned: `isinstance(entity, TextData) and not
    # isinstance(values[0], bytes)` (IndexError on an empty array); repaired: the test also admits len(values) == 0 and the
    # branch gives create_dataset an explicit dtype
    tree = ast.parse((repo / "geoh5py/io/h5_writer.py").read_text())
    fn = None
    for node in ast.walk(tree):
        if isinstance(node, ast.FunctionDef) and node.name == "write_data_values":
            fn = node
    if fn is None:
        raise RuntimeError("H5Writer.write_data_values not found")

    def mentions_textdata(t):
        return any(isinstance(x, ast.Name) and x.id == "TextData" for x in ast.walk(t))

    branches = [n for n in ast.walk(fn) if isinstance(n, ast.If) and mentions_textdata(n.test)
                and any(isinstance(x, ast.Subscript) and isinstance(x.value, ast.Name) and x.value.id == "values" for x in ast.walk(n.test))]
    if len(branches) != 1:
        raise RuntimeError("write_data_values: expected one TextData branch testing values[0]")
    br = branches[0]
    t = br.test
    if not (isinstance(t, ast.BoolOp) and isinstance(t.op, ast.And) and len(t.values) == 2):
        raise RuntimeError("write_data_values: unrecognised TextData test")
    second = t.values[1]
    if isinstance(second, ast.UnaryOp) and isinstance(second.op, ast.Not):
        write_empty = False
    elif (isinstance(second, ast.BoolOp) and isinstance(second.op, ast.Or)
          and any(isinstance(x, ast.Call) and isinstance(x.func, ast.Name) and x.func.id == "len" for x in ast.walk(second.values[0]))
          and any(isinstance(x, ast.Subscript) and isinstance(x.value, ast.Name) and x.value.id == "kwargs" for b in br.body for x in ast.walk(b))):
        write_empty = True
    else:
        raise RuntimeError("write_data_values: unrecognised TextData test")
    return {"guard_cells": guard, "skip_valueless": skip, "read_empty": read_empty, "copy_text": copy_text, "add_rollback": rollback,
            "write_empty_text": write_empty}


def regenerate(repo):
    global _FLAGS
    _FLAGS = detect_flags(repo)
    return {"tables": {"repair_flags": _FLAGS}}


def _flags_term():
    global _FLAGS
    if _FLAGS is None:
        _FLAGS = detect_flags(C.REPO)
    return ("{| f_guard_cells := %s; f_skip_valueless := %s; f_read_empty := %s; f_copy_text := %s; f_add_rollback := %s; "
            "f_write_empty_text := %s |}") % (
        cbool(_FLAGS["guard_cells"]), cbool(_FLAGS["skip_valueless"]), cbool(_FLAGS["read_empty"]), cbool(_FLAGS["copy_text"]),
        cbool(_FLAGS["add_rollback"]), cbool(_FLAGS["write_empty_text"]))


# ----------------------------------------------------------------------------- specification ledger (oracle + generator)
def _norm(idx, n):
    """python index semantics; None when the index list is not a valid removal request"""
    if not idx:
        return None
    out = []
    for i in idx:
        if -n <= i < n:
            out.append(i % n if n else 0)
        else:
            return None
    return out


def spec_new(case):
    return {"cls": case["cls"], "verts": [tuple(p) for p in case["verts"]], "cells": [list(c) for c in case["cells"]],
            "kids": []}  # kid: {"id","assoc","kind","vals"}


def _nd(kind):
    return 0 if kind == "bool" else None


def _count(E, assoc):
    return {"VERTEX": len(E["verts"]), "CELL": len(E["cells"]), "OBJECT": 1}[assoc]


def spec_apply(E, op):
    """What the property text asks of the operation: returns (expected_state, 'ok'|'refuse')."""
    E2 = _copy.deepcopy(E)
    k = op["op"]
    if k in ("rv", "rc"):
        n = len(E["verts"]) if k == "rv" else len(E["cells"])
        if k == "rc" and E["cls"] == "Points":
            return E2, "refuse"
        gone = _norm(op["idx"], n)
        if gone is None:
            return E2, "refuse"
        gone = set(gone)
        if k == "rv":
            keepv = [i not in gone for i in range(n)]
            keepc = [all(keepv[v] for v in c) for c in E["cells"]]
        else:
            keepv = [True] * len(E["verts"])
            keepc = [i not in gone for i in range(n)]
        return _select(E2, keepv, keepc), "ok"
    if k == "set":
        for kid in E2["kids"]:
            if kid["id"] == op["id"]:
                n = _count(E, kid["assoc"])
                if len(op["vals"]) > n and kid["assoc"] != "OBJECT":
                    return E2, "refuse"
                kid["vals"] = list(op["vals"]) + [_nd(kid["kind"])] * max(0, n - len(op["vals"]))
                return E2, "ok"
        return E2, "refuse"
    if k == "add":
        n = _count(E, op["assoc"])
        if op["vals"] is None:
            E2["kids"].append({"id": op["id"], "assoc": op["assoc"], "kind": op["kind"], "vals": None})
            return E2, "ok"
        if len(op["vals"]) > n and op["assoc"] != "OBJECT":
            return E2, "refuse"
        E2["kids"].append({"id": op["id"], "assoc": op["assoc"], "kind": op["kind"],
                           "vals": list(op["vals"]) + [_nd(op["kind"])] * max(0, n - len(op["vals"]))})
        return E2, "ok"
    if k == "copy":
        m, cm = op.get("mask"), op.get("cmask")
        if m is not None and len(m) != len(E["verts"]):
            return E2, "refuse"
        if cm is not None and len(cm) != len(E["cells"]):
            return E2, "refuse"
        keepv = [bool(b) for b in m] if m is not None else [True] * len(E["verts"])
        if cm is not None:
            keepc = [bool(b) for b in cm]
            if any(b and not all(keepv[v] for v in c) for c, b in zip(E["cells"], keepc)):
                return E2, "refuse"  # a kept cell uses a dropped vertex: the request is inconsistent, the text defines nothing
        else:
            keepc = [all(keepv[v] for v in c) for c in E["cells"]]
        return _select(E2, keepv, keepc), "ok"
    if k == "reopen":
        return E2, "ok"
    raise ValueError(k)


def _select(E, keepv, keepc):
    new = {}
    j = 0
    for i, b in enumerate(keepv):
        if b:
            new[i] = j
            j += 1
    E["cells"] = [[new[v] for v in c] for c, b in zip(E["cells"], keepc) if b]
    E["verts"] = [p for p, b in zip(E["verts"], keepv) if b]
    for kid in E["kids"]:
        if kid["vals"] is None:
            continue
        if kid["assoc"] == "VERTEX":
            kid["vals"] = [x for x, b in zip(kid["vals"], keepv) if b]
        elif kid["assoc"] == "CELL":
            kid["vals"] = [x for x, b in zip(kid["vals"], keepc) if b]
    return E


# ----------------------------------------------------------------------------- generation
def _gen_vals(rng, kind, n):
    if kind == "bool":
        return [rng.below(2) for _ in range(n)]
    if kind == "ref":
        return [None if rng.chance(8) else rng.range(0, 5) for _ in range(n)]
    return [None if rng.chance(12) else rng.range(-40, 40) for _ in range(n)]


def _gen_add(rng, E, kid_id, allow_bad=True):
    # too-long arrays are offered through the values setter only: a refused add_data leaves an unregistered child whose
    # fate at re-open depends on workspace-level state (C06 territory); one such history is kept in corpus/C07
    cls = E["cls"]
    assoc = rng.weighted([("VERTEX", 55), ("CELL", 35 if cls != "Points" else 0), ("OBJECT", 10)])
    kind = rng.weighted([("float", 40), ("int", 15), ("bool", 10), ("ref", 10), ("text", 25)])
    n = _count(E, assoc)
    if kind == "text" and (assoc == "OBJECT" or n < 1):
        kind = "float"  # per-element text only; an empty text array cannot even be created
    style = rng.weighted([("full", 68), ("short", 14), ("none", 9), ("long", 9 if allow_bad else 0)])
    if assoc == "OBJECT":
        style = "full"
    if kind == "text" and style == "short" and n < 2:
        style = "full"  # a short text array keeps at least one entry
    if style == "none":
        vals = None
    else:
        ln = {"full": n, "short": rng.range(1 if kind == "text" else 0, max(0, n - 1)), "long": n + rng.range(1, 3)}[style]
        vals = _gen_vals(rng, kind, ln)
    return {"op": "add", "id": kid_id, "assoc": assoc, "kind": kind, "vals": vals}


def _maybe_shape(rng, op, kind, assoc, n, allow_long=True):
    """give the value array of a set / add operation a 2-D shape (numeric kinds): a column, a row, a factorisation of its
    length, or k values per element ((n, k) / (k, n): n * k entries, which must be refused like any longer array)"""
    if kind == "text" or assoc == "OBJECT" or not rng.chance(40):
        return
    ln = len(op["vals"])
    style = rng.weighted([("col", 20), ("row", 20), ("fact", 15), ("nk", 28 if allow_long and n >= 1 else 0), ("kn", 17 if allow_long and n >= 1 else 0)])
    if style in ("nk", "kn"):
        k = rng.range(2, 3)
        op["vals"] = _gen_vals(rng, kind, n * k)
        op["shape"] = [n, k] if style == "nk" else [k, n]
        return
    if ln == 0:
        return
    if style == "col":
        op["shape"] = [ln, 1]
    elif style == "row":
        op["shape"] = [1, ln]
    else:
        divs = [d for d in range(2, ln) if ln % d == 0]
        if divs:
            d = rng.choice(divs)
            op["shape"] = [d, ln // d]


def _gen_idx(rng, E, n, what):
    """index set for a removal of `what` in {'v','c'}"""
    if n == 0:
        return [0]
    style = rng.weighted([("subset", 44), ("first", 8), ("last", 8), ("allbutone", 4), ("nocell", 14 if what == "v" else 0),
                          ("negative", 9), ("oob", 5), ("empty", 3), ("all", 2), ("one", 4)])
    if style == "first":
        return [0]
    if style == "last":
        return [n - 1]
    if style == "one":
        return [rng.below(n)]
    if style == "all":
        return list(range(n))
    if style == "allbutone":
        k = rng.below(n)
        return rng.shuffle([i for i in range(n) if i != k]) or [0]
    if style == "empty":
        return []
    if style == "oob":
        return [rng.below(n), n + rng.below(2)] if rng.chance(60) else [-n - 1 - rng.below(2)]
    if style == "negative":
        return [-1 - rng.below(n) for _ in range(rng.range(1, min(3, n)))]
    if style == "nocell":
        used = {v for c in E["cells"] for v in c}
        free = [i for i in range(n) if i not in used]
        if free:
            return rng.sample(free, rng.range(1, len(free)))
    k = rng.range(1, max(1, n - 1)) if rng.chance(25) else rng.range(1, max(1, min(3, n - 1)))
    idx = rng.sample(list(range(n)), k)
    if rng.chance(30):
        idx += [rng.choice(idx) for _ in range(rng.range(1, 2))]  # repeats
    if rng.chance(50):
        idx = sorted(idx)
    return idx


def _gen_case(rng):
    cls = rng.weighted([("Curve", 40), ("Surface", 35), ("Points", 25)])
    arity = {"Points": 0, "Curve": 2, "Surface": 3}[cls]
    nv = rng.range(max(1, arity), 12)
    verts = [[rng.range(-3, 3), rng.range(-3, 3), rng.range(-1, 1)] for _ in range(nv)]
    cells = []
    if arity:
        pool = list(range(nv))
        if rng.chance(30) and nv > arity:
            pool = sorted(rng.sample(pool, rng.range(arity, nv - 1)))  # unreferenced vertices anywhere
        for _ in range(rng.range(1, 8)):
            cells.append([rng.choice(pool) for _ in range(arity)])
        if not rng.chance(30):
            cells = sorted(cells)
    case = {"cls": cls, "verts": verts, "cells": cells, "ops": []}
    E = spec_new(case)
    next_id = 1
    for _ in range(rng.range(0, 3)):
        op = _gen_add(rng, E, next_id)
        next_id += 1
        case["ops"].append(op)
        E, _ = spec_apply(E, op)
    for _ in range(rng.range(2, 7)):
        kinds = [("rv", 35), ("rc", 12 if arity else 0), ("set", 19 if E["kids"] else 0), ("add", 10), ("copy", 13), ("reopen", 13)]
        k = rng.weighted(kinds)
        if k == "rv":
            op = {"op": "rv", "idx": _gen_idx(rng, E, len(E["verts"]), "v")}
        elif k == "rc":
            op = {"op": "rc", "idx": _gen_idx(rng, E, len(E["cells"]), "c")}
        elif k == "set":
            kid = rng.choice(E["kids"])
            n = _count(E, kid["assoc"])
            ln = rng.weighted([(n, 55), (rng.range(0, max(0, n - 1)), 25), (n + rng.range(1, 2), 20)])
            if kid["assoc"] == "OBJECT":
                ln = 1
            if kid["kind"] == "text" and ln < 1:
                ln = max(n, 1)  # never assign an empty text array (it cannot be written; with n = 0 this one is refused)
            op = {"op": "set", "id": kid["id"], "vals": _gen_vals(rng, kid["kind"], ln)}
            _maybe_shape(rng, op, kid["kind"], kid["assoc"], n)
        elif k == "add":
            op = _gen_add(rng, E, next_id)
            if op["vals"] is not None:
                _maybe_shape(rng, op, op["kind"], op["assoc"], _count(E, op["assoc"]), allow_long=False)
            next_id += 1
        elif k == "copy":
            n, nc = len(E["verts"]), len(E["cells"])
            if arity and rng.chance(22):
                # vertex mask and an explicit cell mask choosing among the cells that lie inside it
                m = [int(rng.chance(80)) for _ in range(n)]
                inside = [all(m[v] for v in c) for c in E["cells"]]
                op = {"op": "copy", "mask": m, "cmask": [int(b and rng.chance(70)) for b in inside]}
            elif arity and rng.chance(25):
                op = {"op": "copy", "mask": None, "cmask": [int(rng.chance(75)) for _ in range(0 if rng.chance(4) else nc if not rng.chance(6) else nc + 1)]}
            else:
                st = rng.weighted([("rand", 78), ("all", 8), ("none", 5), ("shape", 6), ("plain", 3)])
                if st == "plain":
                    m = None
                elif st == "all":
                    m = [1] * n
                elif st == "none":
                    m = [0] * n
                elif st == "shape":
                    m = [1] * (n + 1)
                else:
                    m = [int(rng.chance(82)) for _ in range(n)]
                op = {"op": "copy", "mask": m, "cmask": None}
        else:
            op = {"op": "reopen"}
        E2, want = spec_apply(E, op)
        case["ops"].append(op)
        E = E2
    return case


def _gen_dcopy(rng):
    """Data.copy(parent, mask) of one data child onto its own parent or onto ANOTHER object (same size, smaller, larger)"""
    assoc = "VERTEX" if rng.chance(55) else "CELL"
    n = rng.range(1, 10)
    kind = rng.weighted([("float", 45), ("int", 15), ("bool", 10), ("ref", 10), ("text", 20)])
    vals = _gen_vals(rng, kind, n)
    st = rng.weighted([("rand", 62), ("all", 8), ("none", 7), ("one", 8), ("notprefix", 10), ("shape", 5)])
    if st == "all":
        mask = [1] * n
    elif st == "none":
        mask = [0] * n
    elif st == "one":
        mask = [0] * n
        mask[rng.below(n)] = 1
    elif st == "notprefix":
        mask = [0] + [1] * (n - 1)
    elif st == "shape":
        mask = [1] * (n + 1)
    else:
        mask = [int(rng.chance(55)) for _ in range(n)]
    tg = rng.weighted([("self", 30), ("equal", 40), ("smaller", 15), ("larger", 15)])
    target = "self" if tg == "self" else {"n": n if tg == "equal" else rng.range(1, max(1, n - 1)) if tg == "smaller" else n + rng.range(1, 3)}
    return {"kind": "dcopy", "assoc": assoc, "n": n, "dkind": kind, "vals": vals, "mask": mask, "target": target}


def _gen_grow(rng):
    """numeric data stored for n elements, then the geometry grows by k elements through the vertices / cells setter; after a
    re-open the (cold) read must have one entry per element: the stored values followed by the no-data value"""
    n, k = rng.range(1, 8), rng.range(1, 4)
    kind = rng.weighted([("float", 50), ("int", 20), ("bool", 15), ("ref", 15)])
    return {"kind": "grow", "assoc": "VERTEX" if rng.chance(60) else "CELL", "n": n, "k": k, "dkind": kind, "vals": _gen_vals(rng, kind, n)}


def generate(rng, tier):
    n = 220 if tier == "quick" else 5000
    nd = 80 if tier == "quick" else 1500
    ng = 30 if tier == "quick" else 500
    return [_gen_case(rng) for _ in range(n)] + [_gen_dcopy(rng) for _ in range(nd)] + [_gen_grow(rng) for _ in range(ng)]


# ----------------------------------------------------------------------------- implementation driver
def _canon_vals(arr):
    import numpy as np

    if isinstance(arr, str):
        arr = np.array([arr])
    a = np.asarray(arr)
    out = []
    if a.dtype.kind in "USO":
        for x in a.ravel().tolist():
            x = x.decode() if isinstance(x, bytes) else x
            if x == "":
                out.append(None)
            elif isinstance(x, str) and x[:1] == "t" and x[1:].lstrip("-").isdigit():
                out.append(int(x[1:]))
            else:
                out.append({"float": repr(x)})
        return out
    if a.dtype == bool:
        return [int(x) for x in a.ravel().tolist()]
    if np.issubdtype(a.dtype, np.integer):
        return [None if int(x) == INT_NDV else int(x) for x in a.ravel().tolist()]
    for x in a.astype(float).ravel().tolist():
        if x != x:
            out.append(None)
        elif float(x).is_integer() and abs(x) < 1e9:
            out.append(int(x))
        else:
            out.append({"float": repr(x)})
    return out


def _snap(obj):
    import numpy as np

    cls = type(obj).__name__
    v = obj.vertices
    verts = [] if v is None else [[int(x) if float(x).is_integer() else {"float": repr(x)} for x in p] for p in np.asarray(v).tolist()]
    cells = []
    if cls != "Points":
        c = obj.cells
        cells = [] if c is None else [[int(x) for x in r] for r in np.asarray(c).tolist()]
    kids = []
    from geoh5py.data import Data

    for ch in obj.children:
        if not isinstance(ch, Data):
            continue
        try:
            val = ch.values
            if isinstance(val, (str, bytes)):
                val = {"scalar": _canon_vals(val)[0]}   # a scalar string where an array is expected
            else:
                val = None if val is None else _canon_vals(val)
        except Exception as e:  # noqa: BLE001 - a read failure is an observation
            val = {"error": type(e).__name__}
        kids.append({"name": ch.name, "assoc": ch.association.name, "vals": val})
    return {"verts": verts, "cells": cells, "kids": kids}


def _arr(vals, kind):
    import numpy as np

    if kind == "float":
        return np.array([np.nan if v is None else float(v) for v in vals], dtype=float)
    if kind in ("int", "ref"):
        return np.array([INT_NDV if v is None else int(v) for v in vals], dtype="int32")
    if kind == "text":
        return np.array(["" if v is None else f"t{v}" for v in vals], dtype=str)
    return np.array([bool(v) for v in vals], dtype=bool)


def _shaped(arr, op):
    return arr.reshape(tuple(op["shape"])) if op.get("shape") else arr


def G_id(name):
    return int(name[1:]) if name.startswith("d") and name[1:].isdigit() else None


def drive_one(case, work):
    import os

    import numpy as np
    from geoh5py import Workspace
    from geoh5py import objects as O

    import hashlib
    import json
    import uuid

    path = f"{work}/c07.geoh5"
    if os.path.exists(path):
        os.remove(path)
    # children come back from a file in uuid order: derive the "random" uuids from the case so that a run is reproducible
    seed = hashlib.sha256(json.dumps(case, sort_keys=True).encode()).digest()
    counter = [0]
    real_uuid4 = uuid.uuid4

    def fake_uuid4():
        counter[0] += 1
        return uuid.UUID(bytes=hashlib.sha256(seed + counter[0].to_bytes(8, "big")).digest()[:16], version=4)

    uuid.uuid4 = fake_uuid4
    if case.get("kind") in ("dcopy", "grow"):
        try:
            return _drive_dcopy(case, path) if case["kind"] == "dcopy" else _drive_grow(case, path)
        finally:
            uuid.uuid4 = real_uuid4
            if os.path.exists(path):
                os.remove(path)
    ws = Workspace.create(path)
    steps, executed = [], []
    try:
        kw = {"vertices": np.array(case["verts"], dtype=float).reshape(-1, 3), "name": "obj"}
        if case["cls"] != "Points":
            kw["cells"] = np.array(case["cells"], dtype="int32")
        obj = getattr(O, case["cls"]).create(ws, **kw)
        kinds = {}
        prev = _snap(obj)
        init = prev
        stop = None
        ops = list(case["ops"]) + [{"op": "reopen", "final": True}]
        for op in ops:
            if stop and not op.get("final"):
                continue
            err = None
            k = op["op"]
            try:
                if k == "rv":
                    obj.remove_vertices(list(op["idx"]))
                elif k == "rc":
                    obj.remove_cells(list(op["idx"]))
                elif k == "set":
                    ch = [c for c in obj.children if getattr(c, "name", None) == f"d{op['id']}"][0]
                    ch.values = _shaped(_arr(op["vals"], kinds[op["id"]]), op)
                elif k == "add":
                    kinds[op["id"]] = op["kind"]
                    spec = {"association": op["assoc"]}
                    if op["vals"] is not None:
                        spec["values"] = _shaped(_arr(op["vals"], op["kind"]), op)
                    if op["kind"] == "text":
                        spec["type"] = "text"
                    elif op["kind"] == "ref":
                        spec["type"] = "referenced"
                        spec["value_map"] = {i: f"unit{i}" for i in range(1, 6)}
                    elif op["kind"] == "bool" and op["vals"] is None:
                        spec["type"] = "boolean"
                    elif op["kind"] == "int" and op["vals"] is None:
                        spec["type"] = "integer"
                    elif op["vals"] is None:
                        spec["type"] = "float"
                    obj.add_data({f"d{op['id']}": spec})
                elif k == "copy":
                    kwargs = {}
                    if op.get("mask") is not None:
                        kwargs["mask"] = np.array(op["mask"], dtype=bool)
                    if op.get("cmask") is not None:
                        kwargs["cell_mask"] = np.array(op["cmask"], dtype=bool)
                    obj = obj.copy(**kwargs)
                elif k == "reopen":
                    uid = obj.uid
                    ws.close()
                    ws = Workspace(path)
                    obj = ws.get_entity(uid)[0]
            except Exception as e:  # noqa: BLE001
                err = ERR_ALIAS.get(type(e).__name__, type(e).__name__)
            snap = _snap(obj)
            steps.append({"err": err, "snap": snap})
            executed.append({kk: vv for kk, vv in op.items() if kk != "final"})
            if k != "reopen":
                old = {i: kd for i, kd in enumerate(prev["kids"])}
                changed = snap["verts"] != prev["verts"] or snap["cells"] != prev["cells"] or any(
                    i >= len(snap["kids"]) or snap["kids"][i] != kd for i, kd in old.items())
                if err is not None and changed:
                    stop = "dirty"
                if any(kd["vals"] == [] for kd in snap["kids"]):
                    stop = stop or "empty"
            if any(isinstance(kd["vals"], dict) and "scalar" in kd["vals"] for kd in snap["kids"]):
                stop = stop or "text-scalar"   # a one-entry text array came back as a scalar: nothing after it is modelled
            prev = snap
        return {"init": init, "steps": steps, "executed": executed, "stopped": stop}
    finally:
        uuid.uuid4 = real_uuid4
        try:
            ws.close()
        except Exception:  # noqa: BLE001
            pass
        if os.path.exists(path):
            os.remove(path)


def _drive_dcopy(case, path):
    import numpy as np
    from geoh5py import Workspace
    from geoh5py.objects import Curve, Points

    def make(ws, n, name):
        if case["assoc"] == "VERTEX":
            return Points.create(ws, name=name, vertices=np.c_[np.arange(float(n)), np.zeros(n), np.zeros(n)])
        return Curve.create(ws, name=name, vertices=np.c_[np.arange(float(n + 1)), np.zeros(n + 1), np.zeros(n + 1)],
                            cells=np.c_[np.arange(n), np.arange(1, n + 1)].astype("int32"))

    ws = Workspace.create(path)
    out = {}
    try:
        src = make(ws, case["n"], "src")
        spec = {"association": case["assoc"], "values": _arr(case["vals"], case["dkind"])}
        if case["dkind"] == "text":
            spec["type"] = "text"
        elif case["dkind"] == "ref":
            spec["type"] = "referenced"
            spec["value_map"] = {i: f"unit{i}" for i in range(1, 6)}
        kid = src.add_data({"d1": spec})
        tgt = src if case["target"] == "self" else make(ws, case["target"]["n"], "other")
        out["n_target"] = int(tgt.n_vertices if case["assoc"] == "VERTEX" else tgt.n_cells)
        try:
            cp = kid.copy(parent=tgt, mask=np.array(case["mask"], dtype=bool), name="cp")
            v = cp.values
            out["vals"] = None if v is None else _canon_vals(v)
            out["err"] = None
        except Exception as e:  # noqa: BLE001
            out["err"] = ERR_ALIAS.get(type(e).__name__, type(e).__name__)
        sv = kid.values
        out["src_after"] = None if sv is None else _canon_vals(sv)
        tuid = tgt.uid
        ws.close()
        ws = Workspace(path)
        tgt = ws.get_entity(tuid)[0]
        got = [c for c in tgt.children if getattr(c, "name", None) == "cp"]
        if got:
            try:
                v = got[0].values
                out["reopen"] = {"scalar": True} if isinstance(v, (str, bytes)) else None if v is None else _canon_vals(v)
            except Exception as e:  # noqa: BLE001
                out["reopen"] = {"error": type(e).__name__}
        else:
            out["reopen"] = "absent"
        return out
    finally:
        try:
            ws.close()
        except Exception:  # noqa: BLE001
            pass


def _drive_grow(case, path):
    import numpy as np
    from geoh5py import Workspace
    from geoh5py.objects import Curve, Points

    n, k = case["n"], case["k"]
    ws = Workspace.create(path)
    out = {}
    try:
        if case["assoc"] == "VERTEX":
            ob = Points.create(ws, name="src", vertices=np.c_[np.arange(float(n)), np.zeros(n), np.zeros(n)])
        else:
            ob = Curve.create(ws, name="src", vertices=np.c_[np.arange(float(n + 1)), np.zeros(n + 1), np.zeros(n + 1)],
                              cells=np.c_[np.arange(n), np.arange(1, n + 1)].astype("int32"))
        spec = {"association": case["assoc"], "values": _arr(case["vals"], case["dkind"])}
        if case["dkind"] == "ref":
            spec["type"] = "referenced"
            spec["value_map"] = {i: f"unit{i}" for i in range(1, 6)}
        ob.add_data({"d1": spec})
        try:
            if case["assoc"] == "VERTEX":
                ob.vertices = np.c_[np.arange(float(n + k)), np.zeros(n + k), np.zeros(n + k)]
            else:
                ob.cells = np.vstack([np.asarray(ob.cells), np.zeros((k, 2), dtype="int32")]).astype("int32")
            out["grow_err"] = None
        except Exception as e:  # noqa: BLE001
            out["grow_err"] = type(e).__name__
        out["count"] = int(ob.n_vertices if case["assoc"] == "VERTEX" else ob.n_cells)
        uid = ob.uid
        ws.close()
        ws = Workspace(path)
        ob = ws.get_entity(uid)[0]
        out["count_reopen"] = int(ob.n_vertices if case["assoc"] == "VERTEX" else ob.n_cells)
        ch = [c for c in ob.children if getattr(c, "name", None) == "d1"][0]
        try:
            v = ch.values
            out["cold"] = None if v is None else _canon_vals(v)
        except Exception as e:  # noqa: BLE001
            out["cold"] = {"error": type(e).__name__}
        return out
    finally:
        try:
            ws.close()
        except Exception:  # noqa: BLE001
            pass


# ----------------------------------------------------------------------------- Coq case terms
def _pt(p):
    return "(" + ", ".join(cz(int(x)) for x in p) + ")"


def _vals_term(vals):
    return clist(copt(v, cz) for v in vals)


def _op_vals_term(op):
    """values of a set / add operation as the model sees them: a 2-D array is flattened row by row (np.ravel) first"""
    if not op.get("shape"):
        return _vals_term(op["vals"])
    r, c = op["shape"]
    return "(concat %s)" % clist(_vals_term(op["vals"][i * c:(i + 1) * c]) for i in range(r))


def _mask_term(m):
    return "None" if m is None else "(Some %s)" % clist(cbool(bool(b)) for b in m)


def _kid_id(name):
    if name == "Entity":
        return 0
    if name.startswith("d") and name[1:].isdigit():
        return int(name[1:])
    return None


def _snap_term(snap):
    if any(isinstance(x, dict) for p in snap["verts"] for x in p):
        return None
    if any(not 0 <= v < 5000 for c in snap["cells"] for v in c):
        return None  # negative / absurd vertex references: nothing the model can produce
    ks = []
    for kd in snap["kids"]:
        kid = _kid_id(kd["name"])
        if kid is None:
            return None
        v = kd["vals"]
        if isinstance(v, dict) and "scalar" in v:
            if isinstance(v["scalar"], dict):
                return None
            rv = "RS %s" % copt(v["scalar"], cz)
        elif isinstance(v, dict):
            if v["error"] not in ERRS:
                return None
            rv = "RE %s" % v["error"]
        elif v is None:
            rv = "RV None"
        else:
            if any(isinstance(x, dict) for x in v):
                return None
            rv = "RV (Some %s)" % _vals_term(v)
        ks.append("(%s, %s, %s)" % (cnat(kid), ASSOC[kd["assoc"]], rv))
    return "(%s, %s, %s)" % (clist(_pt(p) for p in snap["verts"]), clist(clist(cnat(v) for v in c) for c in snap["cells"]), clist(ks))


def _op_term(op, snap):
    k = op["op"]
    if k == "rv":
        return "RemoveVertices %s" % clist(cz(i) for i in op["idx"])
    if k == "rc":
        return "RemoveCells %s" % clist(cz(i) for i in op["idx"])
    if k == "set":
        return "SetValues %s %s" % (cnat(op["id"]), _op_vals_term(op))
    if k == "add":
        return "AddData %s %s %s %s" % (cnat(op["id"]), ASSOC[op["assoc"]], KIND[op["kind"]],
                                        "None" if op["vals"] is None else "(Some %s)" % _op_vals_term(op))
    if k == "copy":
        return "MaskedCopy %s %s" % (_mask_term(op.get("mask")), _mask_term(op.get("cmask")))
    if k == "reopen":
        ids = [_kid_id(kd["name"]) for kd in snap["kids"]]
        if any(i is None for i in ids):
            return None
        return "Reopen %s" % clist(cnat(i) for i in ids)
    return None


def _obj_term(case):
    return "{| ok := %s; verts := %s; cells := %s; kids := [] |}" % (
        OKIND[case["cls"]], clist(_pt(p) for p in case["verts"]), clist(clist(cnat(v) for v in c) for c in case["cells"]))


def _ghost_then_copy(obs):
    """a refused add_data (which, without the roll-back in Entity.__init__, leaves an unregistered child) followed by a copy"""
    seen = False
    for op, st in zip(obs.get("executed", []), obs.get("steps", [])):
        if op["op"] == "add" and st["err"] is not None:
            seen = True
        elif op["op"] == "copy" and seen:
            return True
    return False


def case_term(case, obs):
    try:
        _flags_term()
    except Exception:  # noqa: BLE001 - the source shape is not one the model knows: no case can be confirmed
        return "false"
    if case.get("kind") is None and "steps" in obs:
        if not _FLAGS["add_rollback"] and _ghost_then_copy(obs):
            # tree without the roll-back: the copy re-uses the unregistered child's uid and what later snapshots show depends on
            # file-level state outside this model (C02/C06 territory) - no prediction
            return None
    try:
        return _case_term(case, obs)
    except Exception:  # noqa: BLE001 - an observation the term builder cannot print is a disagreement, not a crash
        return "false"


def _dcopy_term(case, obs):
    if "err" not in obs:
        return "false"
    if obs["err"] is not None:
        if obs["err"] not in ERRS:
            return "false"
        o = "Err %s" % obs["err"]
    elif obs["vals"] is None:
        o = "Ok None"
    else:
        if any(isinstance(x, dict) for x in obs["vals"]):
            return "false"
        o = "Ok (Some %s)" % _vals_term(obs["vals"])
    kid = "{| kid_id := 1; kassoc := %s; kkind := %s; kvals := Some %s |}" % (ASSOC[case["assoc"]], KIND[case["dkind"]], _vals_term(case["vals"]))
    return "dcopy_agrees %s %s %s %s (%s)" % (_flags_term(), cnat(obs["n_target"]), clist(cbool(bool(b)) for b in case["mask"]), kid, o)


def _grow_term(case, obs):
    if obs.get("grow_err") is not None or obs.get("count") != case["n"] + case["k"] or obs.get("count_reopen") != obs["count"]:
        return "false"
    cold = obs["cold"]
    if isinstance(cold, dict):
        if cold["error"] not in ERRS:
            return "false"
        o = "RE %s" % cold["error"]
    elif cold is None:
        o = "RV None"
    else:
        if any(isinstance(x, dict) for x in cold):
            return "false"
        o = "RV (Some %s)" % _vals_term(cold)
    m = obs["count"]
    kid = "{| kid_id := 1; kassoc := %s; kkind := %s; kvals := Some %s |}" % (ASSOC[case["assoc"]], KIND[case["dkind"]], _vals_term(case["vals"]))
    pts = clist("(0, 0, 0)%Z" for _ in range(m if case["assoc"] == "VERTEX" else 2))
    cells = "[]" if case["assoc"] == "VERTEX" else clist("[0%nat; 1%nat]" for _ in range(m))
    obj = "{| ok := %s; verts := %s; cells := %s; kids := [%s] |}" % ("OPoints" if case["assoc"] == "VERTEX" else "OCurve", pts, cells, kid)
    return "rval_eqb (read_file %s %s %s) (%s)" % (_flags_term(), obj, kid, o)


def _case_term(case, obs):
    if case.get("kind") == "dcopy":
        return _dcopy_term(case, obs)
    if case.get("kind") == "grow":
        return _grow_term(case, obs)
    if "steps" not in obs:
        return "false"
    # the object as created must be the object asked for
    if obs["init"]["verts"] != [list(p) for p in case["verts"]] or obs["init"]["cells"] != [list(c) for c in case["cells"]] or obs["init"]["kids"]:
        return "false"
    items = []
    for op, st in zip(obs["executed"], obs["steps"]):
        if st["err"] is not None and st["err"] not in ERRS:
            return "false"
        ot, sn = _op_term(op, st["snap"]), _snap_term(st["snap"])
        if ot is None or sn is None:
            return "false"
        items.append("(%s, (%s, %s))" % (ot, "None" if st["err"] is None else "Some " + st["err"], sn))
    return "check_trace %s %s %s" % (_flags_term(), _obj_term(case), clist(items))


def model_term(case):
    if case.get("kind") == "grow":
        return None
    if case.get("kind") == "dcopy":
        n = case["n"] if case["target"] == "self" else case["target"]["n"]
        kid = "{| kid_id := 1; kassoc := %s; kkind := %s; kvals := Some %s |}" % (ASSOC[case["assoc"]], KIND[case["dkind"]], _vals_term(case["vals"]))
        return "data_copy_obs %s %s %s %s" % (_flags_term(), cnat(n), clist(cbool(bool(b)) for b in case["mask"]), kid)
    ops = []
    for op in case["ops"]:
        if op["op"] == "reopen":
            continue  # the child order after a re-open is an observation; the printed run skips re-opens
        ops.append(_op_term(op, None))
    return "snap_live (run %s %s %s)" % (_flags_term(), _obj_term(case), clist(ops))


# ----------------------------------------------------------------------------- oracle (property text; independent of the model)
def _rows(snap):
    """vertex rows (coordinate, values per child) and cell rows (coordinates joined, values per child)"""
    vk = [kd for kd in snap["kids"] if kd["assoc"] == "VERTEX" and isinstance(kd["vals"], list)]
    ck = [kd for kd in snap["kids"] if kd["assoc"] == "CELL" and isinstance(kd["vals"], list)]
    nv, nc = len(snap["verts"]), len(snap["cells"])
    problems = []
    for kd in vk:
        if len(kd["vals"]) != nv:
            problems.append(f"vertex data {kd['name']} has {len(kd['vals'])} entries for {nv} vertices")
    for kd in ck:
        if len(kd["vals"]) != nc:
            problems.append(f"cell data {kd['name']} has {len(kd['vals'])} entries for {nc} cells")
    for c in snap["cells"]:
        if any(not 0 <= v < nv for v in c):
            problems.append(f"cell {c} references a missing vertex (n_vertices={nv})")
            break
    if problems:
        return None, None, problems
    vrows = [(tuple(p), tuple((kd["name"], _h(kd["vals"][i])) for kd in vk)) for i, p in enumerate(snap["verts"])]
    crows = [(tuple(tuple(snap["verts"][v]) for v in c), tuple((kd["name"], _h(kd["vals"][i])) for kd in ck)) for i, c in enumerate(snap["cells"])]
    return vrows, crows, []


def _h(x):
    return repr(x)


def _sub_multiset(a, b):
    from collections import Counter

    ca, cb = Counter(a), Counter(b)
    return all(cb[k] >= n for k, n in ca.items())


def _expected_snapshot_mismatch(E, snap, after_reopen):
    """compare an observed snapshot with the ledger; returns text or None"""
    if [tuple(p) for p in snap["verts"]] != E["verts"]:
        return f"vertices {snap['verts']} != expected {E['verts']}"
    if snap["cells"] != E["cells"]:
        return f"cells {snap['cells']} != expected {E['cells']}"
    got = {}
    for kd in snap["kids"]:
        kid = _kid_id(kd["name"])
        if kid == 0 and kd["vals"] is None:
            continue  # a value-less child left by a refused add_data carries no array
        if kid in got:
            return f"two children named {kd['name']}"
        got[kid] = kd
    exp = {kd["id"]: kd for kd in E["kids"]}
    if set(got) != set(exp):
        return f"children {sorted(got)} != expected {sorted(exp)}"
    for i, kd in exp.items():
        if got[i]["assoc"] != kd["assoc"]:
            return f"child d{i} association {got[i]['assoc']} != {kd['assoc']}"
        if got[i]["vals"] != kd["vals"]:
            return f"child d{i} ({kd['assoc']}) values {got[i]['vals']} != expected {kd['vals']}"
    return None


def _oracle_dcopy(case, obs):
    n, mask, vals, kind = case["n"], case["mask"], case["vals"], case["dkind"]
    nt = obs["n_target"]
    nd = _nd(kind)
    fails = []
    if obs.get("src_after") != vals:
        fails.append({"key": "dcopy-source-changed", "what": f"source values {obs.get('src_after')} != {vals} after the copy"})
    if len(mask) != n:
        if obs["err"] is None:
            fails.append({"key": "dcopy-bad-mask-accepted", "what": f"mask of {len(mask)} entries accepted for {n} values"})
        return fails
    kept = [v for v, b in zip(vals, mask) if b]
    if obs["err"] is not None:
        if nt >= n and not (kind == "text" and not kept and nt == n):
            # every kept element has a place at its own index: nothing to refuse (an all-blank text copy is not written: finding)
            key = "text-empty-unwritable" if kind == "text" and obs["err"] == "IndexError" else "dcopy-refused"
            fails.append({"key": key, "what": f"copy of {n} values onto a parent with {nt} elements raised {obs['err']}"})
        return fails
    got = obs["vals"]
    if got is None:
        return fails + [{"key": "dcopy-no-values", "what": "the copy has no values"}]
    if nt >= n:
        want = [v if b else nd for v, b in zip(vals, mask)]
        if got[:n] != want or any(x != nd for x in got[n:]) or (kind != "text" and len(got) != nt):
            fails.append({"key": "dcopy-values-moved", "what": f"copy onto a parent with {nt} elements holds {got}; every kept element must keep its value at its own index: {want}"})
    else:
        if got[:len(kept)] != kept or (kind != "text" and len(got) != nt):
            fails.append({"key": "dcopy-compact-wrong", "what": f"copy onto a smaller parent ({nt}) holds {got}, kept values {kept}"})
    ro = obs.get("reopen")
    if not fails and kind != "text" and ro != got:
        fails.append({"key": "dcopy-lost-on-reopen", "what": f"after re-open the copy reads {ro}, live {got}"})
    return fails


def oracle(case, obs):
    if "crash" in obs:
        return [{"key": "driver-crash", "what": obs["crash"][:300]}]
    if case.get("kind") == "dcopy":
        return _oracle_dcopy(case, obs)
    if case.get("kind") == "grow":
        m = case["n"] + case["k"]
        if obs.get("grow_err") is not None or obs.get("count") != m:
            return []  # growing through the setter refused: nothing to read
        want = list(case["vals"]) + [_nd(case["dkind"])] * case["k"]
        if obs["cold"] != want:
            return [{"key": "grown-geometry-data-not-one-entry-per-element",
                     "what": f"{case['assoc']} data stored for {case['n']} elements, geometry grown to {m}: after re-open the read gives {obs['cold']}, expected {want}"}]
        return []
    fails = []
    E = spec_new(case)
    if obs["init"]["verts"] != [list(p) for p in case["verts"]] or obs["init"]["cells"] != [list(c) for c in case["cells"]]:
        return [{"key": "creation-changed-geometry", "what": f"created object has {obs['init']}"}]
    prev = obs["init"]
    for n, (op, st) in enumerate(zip(obs["executed"], obs["steps"])):
        snap, err = st["snap"], st["err"]
        E2, want = spec_apply(E, op)
        k = op["op"]
        if k == "reopen":
            sc = [kd for kd in snap["kids"] if isinstance(kd["vals"], dict) and "scalar" in kd["vals"]]
            if sc:
                fails.append({"key": "text-single-entry-read-as-scalar",
                              "what": f"step {n}: after re-open the one-entry text array {sc[0]['name']} is read as a scalar string, not as an array with one entry per element"})
                return fails
            bad = [kd for kd in snap["kids"] if isinstance(kd["vals"], dict)]
            if bad:
                exp = {kd["id"]: kd for kd in E["kids"]}
                kd = bad[0]
                kid = _kid_id(kd["name"])
                if kid in exp and exp[kid]["vals"] == []:
                    fails.append({"key": "empty-data-unreadable-after-reopen",
                                  "what": f"step {n}: after re-open reading {kd['name']} (zero entries for zero elements) raises {kd['vals']['error']}"})
                else:
                    fails.append({"key": "data-unreadable-after-reopen",
                                  "what": f"step {n}: after re-open reading {kd['name']} raises {kd['vals']['error']}"})
                return fails
            if err is not None:
                fails.append({"key": "reopen-failed", "what": f"step {n}: re-open raised {err}"})
                return fails
            msg = _expected_snapshot_mismatch(E, snap, True)
            if msg:
                fails.append({"key": "state-lost-on-reopen", "what": f"step {n}: after re-open {msg}"})
                return fails
            prev = snap
            continue
        if err is None:
            if want == "refuse":
                if k in ("set", "add") and op.get("vals") is not None:
                    fails.append({"key": "long-values-accepted", "what": f"step {n}: {op} accepted an array longer than the element count"})
                    return fails
                # an operation the text does not define (bad index / mask shape) that nevertheless succeeded: check consistency only
                vr, cr, problems = _rows(snap)
                if problems:
                    fails.append({"key": "inconsistent-after-undefined-op", "what": f"step {n}: {op}: {problems[0]}"})
                    return fails
                return fails  # ledger cannot follow an unspecified success
            msg = _expected_snapshot_mismatch(E2, snap, False)
            if msg and k in ("set", "add") and op.get("vals") is not None:
                kind = op.get("kind") or next((kd["kind"] for kd in E["kids"] if kd["id"] == op["id"]), None)
                got = next((kd["vals"] for kd in snap["kids"] if kd["name"] == f"d{op['id']}"), None)
                if kind == "text" and got == list(op["vals"]) and len(got) < len(next(kd["vals"] for kd in E2["kids"] if kd["id"] == op["id"])):
                    fails.append({"key": "text-short-not-padded",
                                  "what": f"step {n}: {op}: a text array shorter than the element count is stored unpadded ({len(got)} entries)"})
                    return fails
            if msg:
                key = {"rv": "remove-vertices-wrong-result", "rc": "remove-cells-wrong-result", "set": "values-not-padded",
                       "add": "values-not-padded", "copy": "masked-copy-wrong-result"}[k]
                fails.append({"key": key, "what": f"step {n}: {op}: {msg}"})
                return fails
            E, prev = E2, snap
            continue
        # the operation failed
        if want == "ok" and k in ("rv", "rc", "copy"):
            emptied = [kd for kd, k2 in zip(E["kids"], E2["kids"]) if kd["kind"] == "text" and k2["vals"] == []]
            if err == "IndexError" and emptied:
                fails.append({"key": "text-empty-unwritable",
                              "what": f"step {n}: {op} leaves text child d{emptied[0]['id']} with zero entries; writing the empty text array raises IndexError and the operation stops half-way"})
                return fails
            same = [kd for kd, k2 in zip(E["kids"], E2["kids"]) if kd["kind"] == "text" and kd["vals"] is not None
                    and kd["assoc"] != "OBJECT" and len(k2["vals"]) == len(kd["vals"])]
            if k == "copy" and err == "TypeError" and same:
                fails.append({"key": "text-copy-undiminished-raises",
                              "what": f"step {n}: {op}: masked copy that drops no element of text child d{same[0]['id']} raises TypeError (np.ones_like(str array) * '')"})
                return fails
        # whatever is left must be mutually consistent, surviving elements keep coordinates and values
        pv, pc, _ = _rows(prev)
        vr, cr, problems = _rows(snap)
        if not problems and pv is not None:
            names_before = {kd["name"] for kd in prev["kids"]}
            # compare on the children that existed before (a refused add_data may leave a value-less child)
            def strip(rows):
                return [(g, tuple(x for x in vals if x[0] in names_before)) for g, vals in rows]
            if not _sub_multiset(strip(vr), pv):
                problems.append("a surviving vertex lost its coordinates or values")
            elif not _sub_multiset(strip(cr), pc):
                problems.append("a surviving cell connects other coordinates or lost its values")
        if problems:
            key = "failed-op-inconsistent"
            if k == "rv" and case["cls"] != "Points" and err == "ValueError" and want == "ok":
                gone = set(_norm(op["idx"], len(E["verts"])))
                touches = any(v in gone for c in E["cells"] for v in c)
                if not touches and snap["cells"] == prev["cells"] and [tuple(p) for p in snap["verts"]] == E2["verts"]:
                    key = "rv-no-cell-touched-stale-cells"
            if k in ("rv", "rc") and err == "AxisError" and want == "ok":
                a = ("VERTEX", "CELL") if k == "rv" else ("CELL",)
                if any(kd["assoc"] in a and kd["vals"] is None for kd in prev["kids"]):
                    key = "rv-valueless-child-stale-data"
            fails.append({"key": key, "what": f"step {n}: {op} raised {err} and left: {problems[0]}"})
            return fails
        # consistent after failure: the ledger follows what is there if it is the requested result, else stays
        if _expected_snapshot_mismatch(E2, snap, False) is None and want == "ok":
            E = E2
        elif _expected_snapshot_mismatch(E, snap, False) is not None:
            # consistent but neither untouched nor the requested result: the ledger cannot follow
            return fails
        prev = snap
    return fails


# ----------------------------------------------------------------------------- evidence helpers
def _interesting(case, obs):
    if "steps" not in obs:
        return False
    E = spec_new(case)
    for op, st in zip(obs["executed"], obs["steps"]):
        E2, want = spec_apply(E, op)
        if want == "ok" and op["op"] in ("rv", "rc", "copy"):
            if len(E2["cells"]) < len(E["cells"]):
                return True
            if op["op"] == "rv" and case["cls"] != "Points" and len(E2["cells"]) == len(E["cells"]):
                return True
        if st["err"] is None and want == "ok":
            E = E2
    return False


def nontrivial(case, obs):
    if case.get("kind") == "grow":
        return obs.get("grow_err") is None
    if case.get("kind") == "dcopy":
        return obs.get("err") is None and 0 < sum(case["mask"]) < len(case["mask"])
    return _interesting(case, obs)


def histogram(cases, obs):
    h = {"cls": {}, "n_vertices": {}, "ops": {}, "errors": {}, "stopped": {}, "unreferenced_vertices": 0, "unordered_cells": 0,
         "rv_touching_no_cell": 0, "valueless_children": 0, "executed_steps": 0, "shaped_assignments": 0, "data_copy": {}}
    for c, o in zip(cases, obs):
        if c.get("kind") == "grow":
            h["grown_geometry_reads"] = h.get("grown_geometry_reads", 0) + 1
            continue
        if c.get("kind") == "dcopy":
            t = "self" if c["target"] == "self" else ("equal" if c["target"]["n"] == c["n"] else "smaller" if c["target"]["n"] < c["n"] else "larger")
            r = t + ":" + ("ok" if o.get("err") is None else str(o.get("err")))
            h["data_copy"][r] = h["data_copy"].get(r, 0) + 1
            continue
        h["shaped_assignments"] += sum(1 for op in c["ops"] if op.get("shape"))
        h["cls"][c["cls"]] = h["cls"].get(c["cls"], 0) + 1
        k = str(len(c["verts"]))
        h["n_vertices"][k] = h["n_vertices"].get(k, 0) + 1
        used = {v for cc in c["cells"] for v in cc}
        if c["cells"] and len(used) < len(c["verts"]):
            h["unreferenced_vertices"] += 1
        if c["cells"] != sorted(c["cells"]):
            h["unordered_cells"] += 1
        if any(op["op"] == "add" and op["vals"] is None for op in c["ops"]):
            h["valueless_children"] += 1
        if "steps" not in o:
            h["errors"]["crash"] = h["errors"].get("crash", 0) + 1
            continue
        h["stopped"][str(o["stopped"])] = h["stopped"].get(str(o["stopped"]), 0) + 1
        E = spec_new(c)
        for op, st in zip(o["executed"], o["steps"]):
            h["executed_steps"] += 1
            h["ops"][op["op"]] = h["ops"].get(op["op"], 0) + 1
            e = str(st["err"])
            h["errors"][e] = h["errors"].get(e, 0) + 1
            E2, want = spec_apply(E, op)
            if op["op"] == "rv" and c["cls"] != "Points" and want == "ok":
                gone = set(_norm(op["idx"], len(E["verts"])))
                if not any(v in gone for cc in E["cells"] for v in cc):
                    h["rv_touching_no_cell"] += 1
            if st["err"] is None and want == "ok":
                E = E2
    return h
