"""C03 reflective harness: runs on the real geoh5py (imported from $VERIF_REPO by the driver subprocess).

For a case {cls, recipe, steps:[{attr, val}], snap:[attrs]}:
  A. create a workspace file, build a stored instance of `cls` (recipe), close;
  B. re-open read-only, snapshot every attribute of `snap` through its getter (S0), close;
  C. re-open, find the instance, assign the steps in order (value built from the spec, relative to the current
     state where needed), snapshot (S1 = what memory says after the assignments), close;
  D. re-open read-only, snapshot (S2 = what a later reader of the file sees) + raw HDF5 attributes, close.
Observation: per step raised/changed, `lost` = attributes with S1 != S2, `raw_bad` = scalar attributes whose raw HDF5
value differs from S1.
"""
from __future__ import annotations

import enum
import os
import uuid


# ----------------------------------------------------------------------------- canonical values
def canon(v, depth=0):
    import numpy as np

    if depth > 6:
        return "<deep>"
    if v is None or isinstance(v, (bool, str)):
        return v
    if isinstance(v, (int, np.integer)):
        return int(v)
    if isinstance(v, (float, np.floating)):
        f = float(v)
        if f != f:
            return "nan"
        return int(f) if f.is_integer() and abs(f) < 1e15 else {"f": f.hex()}
    if isinstance(v, uuid.UUID):
        return "uuid:" + str(v)
    if isinstance(v, bytes):
        return "bytes:" + v.hex()[:200]
    if isinstance(v, enum.Enum):
        return "enum:" + v.name
    if isinstance(v, np.ndarray):
        if v.dtype.names:
            if v.ndim == 0:
                return [canon(x, depth + 1) for x in v.tolist()]
            return {"rec": [canon(v[n], depth + 1) for n in v.dtype.names]}
        if v.dtype.kind in "OUS":
            return [canon(x, depth + 1) for x in v.ravel().tolist()]
        return {"shape": list(v.shape), "v": [canon(x, depth + 1) for x in v.ravel().tolist()]}
    if isinstance(v, np.void):
        return [canon(x, depth + 1) for x in v.tolist()]
    if isinstance(v, dict):
        return {"dict": sorted(([str(canon(k, depth + 1)), canon(x, depth + 1)] for k, x in v.items()), key=lambda p: p[0])}
    if isinstance(v, (list, tuple)):
        return [canon(x, depth + 1) for x in v]
    cn = type(v).__name__
    if cn == "ColorMap":
        return {"colormap": [v.name, canon(v.values, depth + 1)]}
    if cn == "ReferenceValueMap":
        return {"valuemap": canon(dict(v.map), depth + 1)}
    if hasattr(v, "uid"):
        return f"{'type' if hasattr(v, 'primitive_type') or cn.endswith('Type') else 'entity'}:{v.uid}"
    if cn in ("Image", "PngImageFile", "TiffImageFile", "JpegImageFile") or hasattr(v, "tobytes") and hasattr(v, "size"):
        import hashlib

        return {"image": [list(v.size), v.mode, hashlib.sha1(v.tobytes()).hexdigest()]}
    if cn == "Element":
        import xml.etree.ElementTree as ET

        return "xml:" + ET.tostring(v, encoding="unicode")
    if isinstance(v, type):
        return "class:" + v.__name__
    return f"<{cn}>"


def snapshot(ent, attrs):
    out = {}
    for a in attrs:
        try:
            if a == "__setitem__":
                out[a] = canon(dict(ent.map))
            else:
                out[a] = canon(getattr(ent, a))
        except Exception as e:  # noqa: BLE001
            out[a] = {"getter-error": type(e).__name__}
    return out


# ----------------------------------------------------------------------------- recipes
V4 = [[0, 0, 0], [1, 0, 0], [2, 1, 0], [3, 1, 1]]


def _cls(name):
    import importlib

    if name.startswith("Concatenator") and name != "Concatenator":
        name = name[len("Concatenator"):]  # run-time wrapper classes are created through the wrapped class
    import pkgutil

    import geoh5py

    for m in pkgutil.walk_packages(geoh5py.__path__, "geoh5py."):
        if any(m.name.startswith("geoh5py." + d) for d in ("shared", "objects", "groups", "data", "workspace")):
            mod = importlib.import_module(m.name)
            c = getattr(mod, name, None)
            if isinstance(c, type) and c.__module__ == mod.__name__:
                return c
    raise KeyError(name)


def object_kwargs(name, minimal=False):
    import numpy as np

    if minimal and name in ("Drillhole", "ConcatenatedDrillhole"):
        return {"collar": [0.0, 0.0, 10.0]}  # no surveys: optional attributes (end_of_hole) are absent from the file

    V = np.array(V4, dtype=float)
    if name == "Grid2D":
        return {"origin": [0, 0, 0], "u_cell_size": 1.0, "v_cell_size": 2.0, "u_count": 4, "v_count": 3, "rotation": 0.0, "dip": 0.0}
    if name == "BlockModel":
        return {"origin": [0, 0, 0], "u_cell_delimiters": np.array([0.0, 1, 2]), "v_cell_delimiters": np.array([0.0, 1, 3]),
                "z_cell_delimiters": np.array([0.0, -1, -2]), "rotation": 0.0}
    if name == "Octree":
        return {"origin": [0, 0, 0], "u_count": 4, "v_count": 4, "w_count": 4, "u_cell_size": 1.0, "v_cell_size": 1.0,
                "w_cell_size": 1.0, "rotation": 0.0}
    if name == "DrapeModel":
        return {"layers": np.array([[0, 0, -1.0], [1, 0, -2.0]]), "prisms": np.array([[0, 0, 0, 0, 1.0], [1, 0, 0, 1, 1]])}
    if name in ("Drillhole", "ConcatenatedDrillhole"):
        return {"collar": [0.0, 0.0, 10.0], "surveys": np.array([[0, -90.0, 0], [10, -80, 10], [20, -70, 20]], dtype=float)}
    if name in ("Surface", "NeighbourhoodSurface"):
        return {"vertices": V, "cells": np.array([[0, 1, 2], [1, 2, 3]], dtype="int32")}
    if name == "GeoImage":
        return {"image": (np.arange(48, dtype="uint8").reshape(6, 8) * 5), "vertices": np.array([[0, 4, 0], [8, 4, 0], [8, 0, 0], [0, 0, 0]], float)}
    if name in ("Label", "NoTypeObject"):
        return {}
    return {"vertices": V}


DATA_RECIPES = {
    "FloatData": lambda np: {"values": np.array([1.0, 2, 3, 4])},
    "IntegerData": lambda np: {"values": np.array([1, 2, 3, 4], dtype="int32")},
    "BooleanData": lambda np: {"type": "boolean", "values": np.array([True, False, True, False])},
    "ReferencedData": lambda np: {"type": "referenced", "values": np.array([1, 2, 1, 2], dtype="uint32"), "value_map": {1: "a", 2: "b"}},
    "TextData": lambda np: {"type": "text", "values": np.array(["some text"])[0]},
    "DatetimeData": lambda np: {"type": "datetime", "values": "2020-01-01T00:00:00"},
    "MultiTextData": lambda np: {"type": "multi_text", "values": np.array(["a", "b", "c", "d"])},
    "BlobData": lambda np: {"type": "blob", "values": None},
    "UnknownData": lambda np: {"type": "unknown", "values": None},
}


def create(ws, case):
    """-> locator (JSON)"""
    import numpy as np
    from geoh5py.objects import Points

    name, rec = case["cls"], case["recipe"]
    if rec in ("object", "group", "concatenator"):
        cls = _cls(name)
        if name == "RootGroup":
            return {"how": "root"}
        if name == "ConcatenatedDrillhole":
            from geoh5py.groups import DrillholeGroup
            from geoh5py.objects import Drillhole

            grp = DrillholeGroup.create(ws, name="dhg")
            e = Drillhole.create(ws, parent=grp, name="dh", **object_kwargs(name))
            return {"how": "uid", "uid": str(e.uid)}
        kw = object_kwargs(name, minimal=bool(case.get("minimal"))) if rec == "object" else {}
        if name in ("CustomGroup", "MapsGroup"):
            kw["entity_type_uid"] = uuid.UUID(int=0xC03C03 + len(name))
        e = cls.create(ws, name="ent", **kw)
        if name in ("CurrentElectrode", "PotentialElectrode"):
            # an electrode set is only meaningful with its partner (the metadata setter insists on both identifiers)
            other = _cls("PotentialElectrode" if name == "CurrentElectrode" else "CurrentElectrode").create(ws, name="partner", **kw)
            if name == "CurrentElectrode":
                e.potential_electrodes = other
            else:
                e.current_electrodes = other
        return {"how": "uid", "uid": str(e.uid)}
    pts = Points.create(ws, name="parent", vertices=np.array(V4, dtype=float))
    if rec == "data":
        if name == "CommentsData":
            pts.add_comment("first", author="me")
            e = pts.comments
        elif name == "VisualParameters":
            e = pts.add_default_visual_parameters()
        elif name == "FilenameData":
            fn = os.path.join(os.path.dirname(str(ws.h5file)), "c03_blob.txt")
            with open(fn, "w") as f:
                f.write("hello")
            e = pts.add_file(fn)
            os.remove(fn)
        else:
            e = pts.add_data({"d": DATA_RECIPES[name](np)})
        return {"how": "uid", "uid": str(e.uid)}
    if rec == "type":
        if name == "DataType":
            e = pts.add_data({"d": {"values": np.array([1.0, 2, 3, 4])}})
        elif name == "ObjectType":
            e = pts
        elif name == "GroupType":
            from geoh5py.groups import ContainerGroup

            e = ContainerGroup.create(ws, name="g")
        else:
            raise NotImplementedError(name)
        return {"how": "type_of", "uid": str(e.uid)}
    if rec == "workspace":
        return {"how": "workspace"}
    if rec == "pg":
        a = pts.add_data({"a": {"values": np.array([1.0, 2, 3, 4])}})
        b = pts.add_data({"b": {"values": np.array([2.0, 2, 3, 4])}})
        pg = pts.add_data_to_group([a, b], "grp")
        return {"how": "pg", "uid": str(pts.uid), "pg": str(pg.uid), "extra": str(b.uid)}
    if rec == "pg_empty":
        from geoh5py.groups import PropertyGroup

        a = pts.add_data({"a": {"values": np.array([1.0, 2, 3, 4])}})
        pg = PropertyGroup(pts, name="empty")
        ws.add_or_update_property_group(pg)
        return {"how": "pg", "uid": str(pts.uid), "pg": str(pg.uid), "extra": str(a.uid)}
    if rec == "colormap":
        d = pts.add_data({"d": {"values": np.array([1.0, 2, 3, 4])}})
        d.entity_type.color_map = np.c_[np.arange(3.0), np.zeros((3, 4))]
        return {"how": "colormap", "uid": str(d.uid)}
    if rec == "valuemap":
        d = pts.add_data({"d": DATA_RECIPES["ReferencedData"](np)})
        return {"how": "valuemap", "uid": str(d.uid)}
    raise NotImplementedError(rec)


def find(ws, loc):
    how = loc["how"]
    if how == "root":
        return ws.root
    if how == "workspace":
        return ws
    e = ws.get_entity(uuid.UUID(loc["uid"]))[0]
    if how == "uid":
        return e
    if how == "type_of":
        return e.entity_type
    if how == "pg":
        return next(p for p in e.property_groups if str(p.uid) == loc["pg"])
    if how == "colormap":
        return e.entity_type.color_map
    if how == "valuemap":
        return e.entity_type.value_map
    raise NotImplementedError(how)


# ----------------------------------------------------------------------------- values
def _dvalues(ent, s):
    import numpy as np

    n = ent.parent.n_vertices
    cn = type(ent).__name__
    if cn == "FloatData":
        return np.array([float((s + 3 * i) % 11) for i in range(n)])
    if cn == "IntegerData":
        return np.array([(s + 3 * i) % 11 for i in range(n)], dtype="int32")
    if cn == "BooleanData":
        return np.array([bool((s + i) % 2) for i in range(n)])
    if cn == "ReferencedData":
        return np.array([1 + (s + i) % 2 for i in range(n)], dtype="uint32")
    if cn in ("TextData", "DatetimeData"):
        return f"text {s}"
    if cn == "MultiTextData":
        return np.array([f"t{(s + i) % 5}" for i in range(n)])
    if cn == "CommentsData":
        return [{"Author": "a", "Date": "2020-01-01", "Text": f"c{s}"}]
    if cn == "VisualParameters":
        return f'<IParameterList Version="1.0"><Colour>{s}</Colour></IParameterList>'
    if cn == "FilenameData":
        return f"payload {s}".encode()
    raise NotImplementedError(cn)


def _partner_vertices(ent):
    """vertices for a partner object (complement survey, base stations, electrodes) built against the CURRENT state of the
    entity: an earlier step of the same case may have grown its vertices, and partners are validated against n_vertices"""
    import numpy as np

    n = getattr(ent, "n_vertices", None) or len(V4)
    return np.array([[float(i), float(i % 2), float(i % 3)] for i in range(n)], dtype=float)


def make_value(spec, ent, ws, loc, attr):
    import numpy as np

    k = spec["k"]
    cur = None
    if k in ("flip", "pick", "grow"):
        cur = getattr(ent, attr)
    if k == "flip":
        return not bool(cur)
    if k == "wsname":
        return ws.name
    if k == "typed":
        t = spec["t"]
        if t == "none":
            return None
        if t == "int":
            return int(spec["v"])
        if t == "float":
            return float(spec["v"])
        if t == "npint64":
            return np.int64(spec["v"])
        if t == "npint32":
            return np.int32(spec["v"])
        if t == "npfloat32":
            return np.float32(spec["v"])
        if t == "str":
            return str(spec["v"])
        raise NotImplementedError(t)
    if k == "inplace":
        # the common idiom  v = obj.attr; v[...] = x; obj.attr = v  : the very object the getter hands out, edited in place
        v = getattr(ent, attr)
        if isinstance(v, dict):
            v["edited%d" % spec["seed"]] = spec["seed"]
            return v
        if not isinstance(v, np.ndarray) or v.dtype.names or v.size == 0:
            raise LookupError("the getter does not hand out a plain array")
        if v.dtype == bool:
            v.flat[0] = not v.flat[0]
        elif attr == "cells":
            row = v[0].copy()
            v[0] = row[::-1] if row[0] != row[-1] else (row + 1) % max(int(v.max()) + 1, 2)
        elif np.issubdtype(v.dtype, np.integer):
            v.flat[0] = 1 + (int(v.flat[0]) % 2)
        else:
            v.flat[-1] = float(v.flat[-1]) + 1.0 + spec["seed"] % 3 if attr != "z_cell_delimiters" else float(v.flat[-1]) - 1.0
        return v
    if k == "near":
        # a distinct float a hair away from the current one (relative 2**-20, exactly representable for the lattice values the
        # specs use): an "unchanged? skip the write" short-cut based on a tolerance loses it
        cur = getattr(ent, attr)
        if isinstance(cur, bool) or not isinstance(cur, (float, np.floating)) or not np.isfinite(cur):
            raise LookupError("no float value to nudge")
        cur = float(cur)
        return cur + (abs(cur) * 2.0 ** -20 if cur != 0.0 else 2.0 ** -20)
    if k == "falsy":
        cur = getattr(ent, attr)
        if isinstance(cur, str):
            return ""
        if isinstance(cur, bool):
            return False
        if isinstance(cur, (int, np.integer)):
            return 0
        if isinstance(cur, (float, np.floating)):
            return 0.0
        raise LookupError("no falsy value for this attribute")
    if k in ("str", "float", "int", "list", "dict"):
        from copy import deepcopy

        return deepcopy(spec["v"])  # geoh5py keeps (and later mutates) the caller's dictionary
    if k == "pick":
        cc = canon(cur)
        ch = [c for c in spec["choices"] if canon(c) != cc and "enum:" + str(c) != cc]
        return ch[spec["i"] % len(ch)]
    if k == "pick_attr":  # choices listed by another attribute of the entity (default_units, default_input_types)
        try:
            ch = [c for c in (getattr(ent, spec["src"]) or []) if c != getattr(ent, attr)]
        except AttributeError as e:
            raise LookupError(f"broken:{spec['src']} raises AttributeError: {e}") from e
        if not ch:
            raise LookupError("no alternative value")
        return ch[spec["i"] % len(ch)]
    if k == "farr":
        return np.array(spec["v"], dtype=float)
    if k == "arr":
        return np.array(spec["v"], dtype=spec.get("dtype", "float"))
    if k == "verts":
        n = (ent.n_vertices or 0) + spec["extra"]
        s = spec["seed"]
        return np.array([[(s + 3 * i) % 7, (s * 2 + i) % 5, (s + i * i) % 3] for i in range(n)], dtype=float)
    if k == "cells":
        nv = ent.n_vertices
        if not nv:
            raise LookupError("no vertices")
        m = (0 if ent.cells is None else ent.cells.shape[0]) + spec["extra"]
        ar = spec["arity"]
        s = spec["seed"]
        return np.array([[(s + i + j * (1 + s % 2)) % nv for j in range(ar)] for i in range(m)], dtype=spec.get("dtype", "int32"))
    if k == "parts":
        nv = ent.n_vertices
        if nv < 4:
            raise LookupError("too few vertices for two parts")
        cut = 2 + spec["seed"] % (nv - 3)  # both parts keep at least two vertices (a one-vertex part has no segment)
        return np.array([0 if i < cut else 1 for i in range(nv)], dtype="int32")
    if k == "uuid":
        return uuid.UUID(int=spec["v"])
    if k == "dvalues":
        v = _dvalues(ent, spec["seed"])
        if canon(v) == canon(ent.values):
            v = _dvalues(ent, spec["seed"] + 1)
        return v
    if k == "colormap":
        s = spec["seed"]
        return np.c_[np.arange(4.0) + s, np.full((4, 4), s % 200)]
    if k == "colormap_values":
        s = spec["seed"]
        return np.c_[np.arange(3.0) + s, np.full((3, 4), s % 200)]
    if k == "valuemap":
        return {0: "Unknown", 1: f"u{spec['seed']}", 2: "v"}
    if k == "new_datatype":
        from geoh5py.data import DataType

        return DataType(ws, primitive_type=ent.entity_type.primitive_type, name=f"type{spec['seed']}")
    if k == "em_metadata":
        from copy import deepcopy

        m = deepcopy(ent.metadata)
        m["EM Dataset"]["Channels"] = [float(spec["seed"]), float(spec["seed"] + 1)]
        return m
    if k == "dc_metadata":
        from geoh5py.objects import CurrentElectrode, PotentialElectrode

        other_cls = PotentialElectrode if isinstance(ent, CurrentElectrode) else CurrentElectrode
        other = other_cls.create(ws, vertices=_partner_vertices(ent))
        cur_uid, pot_uid = (ent.uid, other.uid) if isinstance(ent, CurrentElectrode) else (other.uid, ent.uid)
        return {"Current Electrodes": cur_uid, "Potential Electrodes": pot_uid}
    if k == "dc_complement":
        from geoh5py.objects import CurrentElectrode, PotentialElectrode

        other_cls = PotentialElectrode if isinstance(ent, CurrentElectrode) else CurrentElectrode
        return other_cls.create(ws, vertices=_partner_vertices(ent))
    if k == "em_complement":
        tcls = ent.default_receiver_type if spec["which"] == "receivers" else ent.default_transmitter_type
        if tcls is type(None):
            raise LookupError("attribute cannot be set on this class")
        return tcls.create(ws, vertices=_partner_vertices(ent))
    if k == "tipper_base":
        from geoh5py.objects import TipperBaseStations

        if isinstance(ent, TipperBaseStations):
            raise LookupError("base stations cannot have base stations (by design)")

        return TipperBaseStations.create(ws, vertices=_partner_vertices(ent))
    if k == "waveform":
        s = spec["seed"]
        return np.array([[0.0, 0.0], [1.0 + s, 1.0], [2.0 + s, 0.0]])
    if k == "layers":
        s = spec["seed"]
        return np.array([[0, 0, -1.0 - s], [1, 0, -2.0 - s], [1, 1, -3.0 - s]])
    if k == "prisms":
        s = spec["seed"]
        return np.array([[0, 0, float(s), 0, 1.0], [1, 0, float(s), 1, 2]])
    if k == "octree_cells":
        s = 1 + spec["seed"] % 2
        return np.array([[0, 0, 0, 2], [2, 0, 0, 2], [0, 2, 0, 2], [2, 2, 0, 2], [0, 0, 2, 2], [2, 0, 2, 2], [0, 2, 2, 2], [2, 2, 2, s]], dtype="int32")
    if k == "surveys":
        s = spec["seed"]
        return np.array([[0, -90.0, 0], [10.0 + s, -80, 10], [20.0 + s, -70, 20], [30.0 + s, -60, 30]])
    if k == "pg_props":
        return [uuid.UUID(loc["extra"])]
    if k == "image":
        s = spec["seed"]
        return ((np.arange(48, dtype="uint8").reshape(6, 8) * 3 + s) % 255).astype("uint8")
    if k == "setitem":
        return (spec["key"], spec["v"])
    raise NotImplementedError(k)


# ----------------------------------------------------------------------------- raw HDF5
def raw_scalars(path, cls_kind, loc, amap):
    """raw attribute values (canonical) of the entity's node for the scalar keys of its attribute map"""
    import h5py
    import numpy as np

    out = {}
    try:
        with h5py.File(path, "r") as f:
            base = f[list(f)[0]]
            if loc["how"] == "workspace":
                node = base
            elif loc["how"] == "root":
                node = base["Root"]
            elif loc["how"] == "uid":
                node = base[{"object": "Objects", "group": "Groups", "concatenator": "Groups", "data": "Data"}[cls_kind]]["{" + loc["uid"] + "}"]
            elif loc["how"] == "type_of":
                ent = None
                for sec in ("Objects", "Groups", "Data"):
                    if "{" + loc["uid"] + "}" in base[sec]:
                        ent = base[sec]["{" + loc["uid"] + "}"]
                node = ent["Type"]
            elif loc["how"] == "pg":
                node = base["Objects"]["{" + loc["uid"] + "}"]["PropertyGroups"]["{" + loc["pg"] + "}"]
            else:
                return out
            import json as _json

            for dname, attr in (("Metadata", "metadata"), ("options", "options")):
                if dname in node and not isinstance(node[dname], h5py.Group):
                    try:
                        txt = np.r_[node[dname]][0]
                        txt = txt.decode() if isinstance(txt, bytes) else txt
                        out[attr] = {"json": _json.loads(txt)}
                    except Exception:  # noqa: BLE001
                        out[attr] = {"json": "<unreadable>"}
                else:
                    out[attr] = {"json": None}
            md = out["metadata"]["json"]
            if isinstance(md, dict) and isinstance(md.get("Coordinate Reference System"), dict):
                out["coordinate_reference_system"] = {"json": md["Coordinate Reference System"].get("Current")}
            for key, attr in amap.items():
                if key in node.attrs:
                    v = node.attrs[key]
                    if isinstance(v, bytes):
                        v = v.decode()
                    if isinstance(v, np.ndarray) and v.dtype.names is None and v.dtype.kind in "OUS":
                        v = [x.decode() if isinstance(x, bytes) else x for x in v.tolist()]
                    out[attr] = canon(v)
    except Exception as e:  # noqa: BLE001
        out["__error__"] = f"{type(e).__name__}: {e}"
    return out


def _plain(c):
    """canonical value -> plain JSON-like value (dict canon form undone, uuid as braced string)"""
    if isinstance(c, dict) and "dict" in c:
        return {k: _plain(v) for k, v in c["dict"]}
    if isinstance(c, dict) and "f" in c:
        return float.fromhex(c["f"])
    if isinstance(c, list):
        return [_plain(x) for x in c]
    if isinstance(c, str) and c.startswith("uuid:"):
        return "{" + c[5:] + "}"
    return c


def raw_matches(live, raw):
    """compare a canonical getter value with the canonical raw HDF5 value; None = not comparable"""
    if isinstance(raw, dict) and "json" in raw:
        if live is None or (isinstance(live, dict) and "dict" in live):
            return _plain(live) == raw["json"]
        return None
    if isinstance(live, bool) and isinstance(raw, int):
        return int(live) == raw

    def num(c):
        if isinstance(c, int) and not isinstance(c, bool):
            return float(c)
        if isinstance(c, dict) and set(c) == {"f"}:
            return float.fromhex(c["f"])
        return None

    if num(live) is not None and num(raw) is not None:
        return num(live) == num(raw)  # 7 stored as 7.0 is the same number; 123.5 stored as 123 is not
    if isinstance(live, (int, str)) and not isinstance(live, bool) and isinstance(raw, (int, str)):
        if isinstance(live, str) and live.startswith("uuid:"):
            return raw.strip("{}") == live[5:] if isinstance(raw, str) else None
        if isinstance(live, str) and live.startswith("enum:"):
            return raw.replace("-", "_").replace(" ", "_").upper() == live[5:] if isinstance(raw, str) else None
        return live == raw
    if isinstance(live, dict) and "f" in live and isinstance(raw, dict) and "f" in raw:
        return live == raw
    if isinstance(live, dict) and "rec" in live and isinstance(raw, (dict, list)):
        r = raw["rec"] if isinstance(raw, dict) and "rec" in raw else raw
        return [x for x in live["rec"]] == [x for x in r]
    if isinstance(live, list) and isinstance(raw, list):
        if all(isinstance(x, str) and x.startswith("uuid:") for x in live):
            return [x[5:] for x in live] == [str(x).strip("{}") for x in raw]
        return live == raw
    return None


def _node(f, cls_kind, loc):
    base = f[list(f)[0]]
    if loc["how"] == "workspace":
        return base
    if loc["how"] == "root":
        return base["Root"]
    if loc["how"] == "uid":
        return base[{"object": "Objects", "group": "Groups", "concatenator": "Groups", "data": "Data"}[cls_kind]]["{" + loc["uid"] + "}"]
    if loc["how"] == "type_of":
        for sec in ("Objects", "Groups", "Data"):
            if "{" + loc["uid"] + "}" in base[sec]:
                return base[sec]["{" + loc["uid"] + "}"]["Type"]
    if loc["how"] in ("valuemap", "colormap"):
        return base["Data"]["{" + loc["uid"] + "}"]["Type"]
    return None


def raw_kinds(path, cls_kind, loc, amap):
    """HDF5 storage class of every scalar attribute of the node (+ presence of the dict/map datasets)"""
    import h5py

    from contextlib import nullcontext

    out = {"attrs": {}, "datasets": []}
    try:
        with (nullcontext(path) if isinstance(path, h5py.File) else h5py.File(path, "r")) as f:
            node = _node(f, cls_kind, loc)
            if node is None:
                return out
            for key, attr in amap.items():
                if key in node.attrs:
                    dt = node.attrs.get_id(key).dtype
                    k = dt.kind
                    out["attrs"][attr] = ("HInt8" if dt == "int8" else "HInt64" if k in "iu" else "HFloat64" if k == "f"
                                          else "HStr" if k in "OSU" else "HNative")
            out["datasets"] = [n for n in ("Value map", "Color map", "Metadata", "options") if n in node]
    except Exception as e:  # noqa: BLE001
        out["error"] = f"{type(e).__name__}: {e}"
    return out


def value_tag(v):
    """the Python/numpy scalar class of a live attribute value, as H5Writer.write_attributes will see it"""
    import math
    import zlib

    import numpy as np

    if v is None:
        return {"tag": "None"}
    if isinstance(v, bool):
        return {"tag": "TBool", "z": int(v), "frac": False}
    if isinstance(v, np.bool_):
        return {"tag": "TNpBool", "z": int(v), "frac": False}
    if isinstance(v, np.int8):
        return {"tag": "TNpInt8", "z": int(v), "frac": False}
    if isinstance(v, np.integer):
        return {"tag": "TNpInt", "z": int(v), "frac": False}
    if isinstance(v, int):
        return {"tag": "TInt", "z": v, "frac": False}
    if isinstance(v, (float, np.floating)):
        if not math.isfinite(float(v)):
            return {"tag": "TOther"}
        return {"tag": "TNpFloat" if isinstance(v, np.floating) and not isinstance(v, float) else "TFloat",
                "z": math.floor(float(v)), "frac": not float(v).is_integer()}
    if isinstance(v, str):
        return {"tag": "TStr", "txt": zlib.crc32(v.encode()) + 1, "nul": "\x00" in v}
    return {"tag": "TOther", "why": type(v).__name__}


# ----------------------------------------------------------------------------- driver
def drive(case, work):
    import warnings

    warnings.simplefilter("ignore")
    from geoh5py import Workspace

    os.makedirs(work, exist_ok=True)
    path = os.path.join(work, f"c03_{os.getpid()}.geoh5")
    if os.path.exists(path):
        os.remove(path)
    snap = case["snap"]
    obs = {"steps": [], "lost": [], "unread": [], "raw_bad": []}
    try:
        with Workspace.create(path) as ws:
            loc = create(ws, case)
        with Workspace(path, mode="r") as ws:
            ent = find(ws, loc)
            obs["class_at_runtime"] = type(ent).__name__
            s0 = snapshot(ent, snap)
        todo = list(case["steps"])
        with Workspace(path) as ws:
            ent = find(ws, loc)
            for k, st in enumerate(todo):
                if case.get("typed") and k == len(todo) - 1:
                    # typed sequences: how the attribute is stored right before the last assignment (same session)
                    obs["raw_before"] = raw_kinds(ws.geoh5, case["kind"], loc, case.get("amap", {}))
                rec = {"attr": st["attr"], "raised": False}
                try:
                    val = make_value(st["val"], ent, ws, loc, st["attr"])
                except LookupError as e:
                    rec["skipped"] = str(e)
                    obs["steps"].append(rec)
                    continue
                try:
                    if st["attr"] == "__setitem__":
                        ent[val[0]] = val[1]
                    else:
                        setattr(ent, st["attr"], val)
                    rec["assigned"] = canon(val)
                except Exception as e:  # noqa: BLE001
                    rec["raised"] = True
                    rec["err"] = f"{type(e).__name__}: {e}"[:200]
                obs["steps"].append(rec)
            s1 = snapshot(ent, snap)
            if case.get("typed"):
                try:
                    obs["live_tag"] = value_tag(getattr(ent, case["steps"][-1]["attr"]))
                except Exception as e:  # noqa: BLE001
                    obs["live_tag"] = {"tag": "TOther", "why": type(e).__name__}
        try:
            with Workspace(path, mode="r") as ws:
                ent = find(ws, loc)
                s2 = snapshot(ent, snap)
        except Exception as e:  # noqa: BLE001 - a file that can no longer be read is an observation
            obs["reopen_failed"] = f"{type(e).__name__}: {e}"[:200]
            s2 = {a: {"unreadable": True} for a in snap}
        raw = raw_scalars(path, case["kind"], loc, case.get("amap", {}))
        if case.get("typed"):
            obs["raw_after"] = raw_kinds(path, case["kind"], loc, case.get("amap", {}))
    finally:
        if os.path.exists(path):
            os.remove(path)
    # second pass without looking: the same assignments, but the writer never reads its own attributes back before
    # closing (a getter may itself persist, e.g. Curve.cells recomputed from parts) - a later reader must see the same
    blind = []
    if not any(st["raised"] or "skipped" in st for st in obs["steps"]) and "reopen_failed" not in obs:
        try:
            if os.path.exists(path):
                os.remove(path)
            with Workspace.create(path) as ws:
                loc2 = create(ws, case)
            with Workspace(path) as ws:
                ent = find(ws, loc2)
                for st in case["steps"]:
                    val = make_value(st["val"], ent, ws, loc2, st["attr"])
                    if st["attr"] == "__setitem__":
                        ent[val[0]] = val[1]
                    else:
                        setattr(ent, st["attr"], val)
            with Workspace(path, mode="r") as ws:
                s3 = snapshot(find(ws, loc2), snap)
            fresh = ("uuid:", "entity:", "type:")
            for a in snap:
                txt = repr(s2[a]) + repr(s3[a])
                if s3[a] != s2[a] and not any(t in txt for t in fresh) and "Date" not in txt:
                    blind.append(a)
                    obs.setdefault("blind_detail", {})[a] = {"reread_after_looking": s2[a], "reread_without_looking": s3[a]}
        except Exception as e:  # noqa: BLE001
            obs["blind_error"] = f"{type(e).__name__}: {e}"[:200]
        finally:
            if os.path.exists(path):
                os.remove(path)
    obs["lost_blind"] = blind
    for st in obs["steps"]:
        a = st["attr"]
        st["changed"] = s0.get(a) != s1.get(a)
    differ = [a for a in snap if s1[a] != s2[a]]
    obs["detail"] = {a: {"before": s0[a], "live": s1[a], "reread": s2[a]} for a in snap if s1[a] != s2[a] or a in [s["attr"] for s in case["steps"]]}
    # an attribute that a fresh reader does not return although the raw file holds the live value was *stored*:
    # the loss is on the reading side (reported under its own key), not a write-through loss
    obs["unread"] = [a for a in differ if a in raw and raw_matches(s1[a], raw[a]) is True]
    obs["lost"] = [a for a in differ if a not in obs["unread"]] + [a for a in blind if a not in differ]
    for a, rv in raw.items():
        if a in s1 and a != "__error__":
            m = raw_matches(s1[a], rv)
            if m is False and a not in differ:
                obs["raw_bad"].append({"attr": a, "live": s1[a], "raw": rv})
    if "__error__" in raw:
        obs["raw_error"] = raw["__error__"]
    if case.get("typed"):
        a = case["steps"][-1]["attr"]
        obs["raw_match"] = raw_matches(s1[a], raw[a]) if a in raw and a in s1 else None
        obs["raw_last"] = {"live": s1.get(a), "raw": raw.get(a)}
    return obs
