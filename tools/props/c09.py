"""C09 — An operation on one entity leaves unrelated stored entities untouched."""
from __future__ import annotations

from props import wsmodel as W

ID = "C09"
PROPERTIES_V = "theories/Properties/C09X.v"
EXTRA_PROPERTIES_V = ["theories/Properties/C09W.v", "theories/Properties/C09T.v"]   # two-workspace world: cross-workspace copies, frame across workspaces
CHUNK = 8  # histories are heavy terms (a dump of tree and file after every op): small case files, evaluated in parallel
CASE_IMPORTS = "From GV Require Import Prelude.Base Model.WsX Model.WsXCheck.\nFrom GV Require Model.WsT Model.WsTCheck."  # typed terms are fully qualified
ALLOWED_AXIOMS: list = []
REFUTED = []
PARTIAL = ["C09_step_frame (unconditional footprint; for Move/Reopen the sharp footprint needs Rep: C09_step_frame_rep / C09_step_frame_run)", "C09T_types_frame / C09T_links_frame / C09T_reopen_file_identity (typed layer Model/WsT.v, unconditional: type nodes outside the type footprint and Type links of other entities are identical; close + open writes nothing)", "C09T_reopen_identity", "C09_copy_x_shape_run / C09_copy_sub_shape_run (a copy has the shape of its source in every state reached by a fresh world history; premises well_kinded / pgs_ok derived by C09_well_kinded_run / C09_pgs_ok_run)", "C09T_reopen_file_identity is definitional (the typed layer's close writes nothing by construction; the close-time walk and sweep are in the X model: C09_step_frame_rep)"]
LEVEL_TEXT = ("Unbounded Coq frame theorems: for EVERY state and EVERY single operation, each flat node outside the operation's footprint (target, parents left/joined, nodes created/deleted, "
              "swept dead nodes) is identical before and after, and the Root link is never rewritten (C09_step_frame, C09_step_rootlink); in every state reached by a fresh history a move rewrites "
              "only the two parents' child lists and close+open rewrites nothing except deleting dead groups (C09_step_frame_run). Types are modelled in the typed layer Model/WsT.v (C09T_*: type nodes outside the type footprint and other entities' Type links are identical); "
              "the project header, other entity classes and concatenated groups are outside the Coq model: the oracle digests every stored node (entities, types, header) of the real file "
              "before and after each operation of the X, drillhole-group and extended histories (frame oracle: an existing node may change only if it is the target or a parent it leaves / joins).")
TRUSTED = [
    "Coq 8.16.1 kernel + vm_compute (refutation witnesses, correspondence evaluation); Print Assumptions: closed under the global context for every theorem",
    "hand-written model coq/theories/Model/WsX.v (memory tree + geoh5 file as a link graph with addresses; property groups; copies) of Workspace.{create_entity, register, save_entity, update_attribute, remove_entity, remove_recursively, remove_children, remove_none_referents, close, open/fetch_or_create_root/fetch_children/load_entity, copy_to_parent, copy_property_groups, add_or_update_property_group}, ObjectBase.{add_data_to_group, find_or_create_property_group, remove_data_from_groups, copy}, Group.copy, Data.copy, PropertyGroup.{add_properties, remove_properties}, Entity.parent setter, EntityContainer/ObjectBase.{add_children, remove_children}, H5Writer.{save_entity, write_entity, write_to_parent, remove_child, remove_entity, update_field/write_attributes/write_array_attribute/write_data_values}, H5Reader.{fetch_attributes, fetch_children}; tied to the code by comparing, after EVERY operation of generated histories, the live tree and a raw h5py dump of the file with the model (vm_compute)",
    "modelled classes: RootGroup/ContainerGroup, Points, FloatData (one array token each), property groups (identifier, name, ordered members), copies of data/objects/group subtrees within the workspace; types, cross-workspace copies, other classes and concatenated drillholes are outside the Coq model and reach the check through the implementation-side oracle streams only",
    "CPython/weakref/gc: the driver drops its references and runs gc.collect() after every operation, so 'dead' = 'not reachable from the root'; GC placement is represented by the explicit Sweep (listing getter) operations of the history",
    "h5py/HDF5 behaviour (hard links = same object address, member iteration by name, attribute and dataset storage) is observed, not verified",
    "tools/props/wsmodel.py (history generator, driver, canonicalisation of identifiers uuid.UUID(int=n+1) <-> n, raw dump, node digests, structural validator) and tools/props/wsext.py (extended oracle-only histories)",
]
ASSUMPTIONS = [
    "operands are entities currently in the tree (no use-after-remove), identifiers are supplied explicitly so that model and code name entities alike",
    "uuid4 never collides (fresh identifiers)",
]
DRIVE_TIMEOUT = 2400
RULE = ("random API histories as for C01; after EVERY single op a digest of every stored node (entity attributes, datasets, "
        "type link, property-group block, child link names and addresses; every type node; the project header) is taken "
        "from the real file; the set of nodes whose digest changed must be within what the property allows for that op "
        "(oracle) and the per-op file dump must equal the model's (correspondence); non-trivial = history with >= 3 "
        "mutating ops on a tree with >= 4 entities")


def generate(rng, tier):
    from props import wsext

    n = 40 if tier == "quick" else 1000
    cases = [{"ops": W.gen_history_x(rng.fork(2000 + i), rng.range(10, 22))} for i in range(n)]
    # oracle-only stream: drillhole groups (concatenated storage), two workspaces, cross-workspace copies, listing getters
    m = 40 if tier == "quick" else 800
    cases += [{"dh": True, "ops": wsext.gen_dh_history(rng.fork(7000 + i), rng.range(14, 26))} for i in range(m)]
    # typed layer (Model/WsT.v): entity types under caller-supplied identifiers (shared / swept / stale), compared with the model
    from props import wstypes

    kt = 30 if tier == "quick" else 700
    cases += [{"t": True, "ops": wstypes.gen_history_t(rng.fork(14000 + i), rng.range(12, 24))} for i in range(kt)]
    # oracle-only stream: the extended histories (all object classes, data kinds, shared / caller-supplied types, property
    # groups, several children removed at once, copies into both workspaces, refused creations, names that collide with the
    # file layout) with a digest of every stored node of both files after every operation
    ke = 30 if tier == "quick" else 600
    cases += [{"ext": True, "ops": wsext.gen_ext_history(rng.fork(21000 + i), rng.range(18, 34))} for i in range(ke)]
    return cases


def drive_one(case, work):
    if case.get("t"):
        from props import wstypes

        return wstypes.run_history_t(case["ops"], work, "c09t")
    if case.get("dh"):
        from props import wsext

        return wsext.run_dh_history(case["ops"], work, "c09d")
    if case.get("ext"):
        from props import wsext

        return wsext.run_ext_history(case["ops"], work, "c09e", want_digests=True)
    return W.run_history_x(case["ops"], work, "c09", want_digests=True)


def case_term(case, obs):
    if case.get("t"):
        from props import wstypes

        return wstypes.history_case_term_t(case["ops"], obs["steps"])
    if case.get("dh") or case.get("ext"):
        return None  # outside the Coq model
    return W.history_case_term_x(obs["ops_filled"], obs["steps"])


def model_term(case):
    if case.get("dh"):
        return None
    return None


def _path(key, root_path):
    import uuid

    if list(key) == ["G", 0]:
        return root_path
    try:
        return "%s/{%s}" % (W.CONT[key[0]], uuid.UUID(int=key[1] + 1))
    except (ValueError, OverflowError):
        return "?"


def _subtree(rows, e):
    byk = {tuple(r["key"]): r for r in rows}
    out, stack = [], [tuple(e)]
    while stack:
        k = stack.pop()
        if k in byk:
            out.append(k)
            stack.extend(tuple(c) for c in byk[k]["kids"])
    return out


def oracle(case, obs):
    """Property text: a mutation changes only the target entity, the child lists of the parents it leaves or joins, nodes
    it creates or deletes and types it introduces or stops using; open+close without mutation changes nothing."""
    if "crash" in obs:
        return [{"key": "driver-crash", "what": obs["crash"][:300]}]
    if case.get("t"):
        from props import wstypes

        return wstypes.oracle_c09_t(case["ops"], obs["steps"])
    if case.get("dh"):
        from props import wsext

        return wsext.oracle_dh(case, obs)
    if case.get("ext"):
        from props import wsext

        return wsext.oracle_ext_frame(case, obs)
    ops, steps, dig, rp = obs.get("ops_filled", case["ops"]), obs["steps"], obs["digests"], obs["root_path"]
    fails = []
    for i, op in enumerate(ops):
        st = steps[i]
        if str(st["outcome"]).startswith("error"):
            return [{"key": "unexpected-exception", "what": f"op {i} {op}: {st['outcome']}"}]
        before, after = dig[i], dig[i + 1]
        mem_before = steps[i - 1]["mem"] if i > 0 else [{"key": ["G", 0], "kids": [], "parent": ["G", 0]}]
        parent_before = {tuple(r["key"]): tuple(r["parent"]) for r in mem_before}
        created = set(after) - set(before)
        deleted = set(before) - set(after)
        content = {p for p in set(before) & set(after) if before[p]["content"] != after[p]["content"]}
        links = {p for p in set(before) & set(after) if before[p]["links"] != after[p]["links"]}
        o = op["op"]
        tgt = tuple(op["e"]) if "e" in op else None
        allow_content, allow_links, allow_new, allow_del = set(), set(), set(), set()
        if o == "create":
            x = (op["kind"], op["n"])
            allow_new = {_path(x, rp)}
            allow_links = {_path(op["parent"], rp)}
            allow_content = {_path(x, rp)}
        elif o in ("set_name", "set_del", "set_arr"):
            allow_content = {_path(tgt, rp)}
        elif o == "move":
            allow_links = {_path(op["q"], rp)} | ({_path(parent_before[tgt], rp)} if tgt in parent_before else set())
            if tgt[0] == "D" and tgt in parent_before:
                allow_content = {_path(parent_before[tgt], rp)}
        elif o == "rm_ws":
            sub = _subtree(mem_before, tgt)
            allow_del = {_path(k, rp) for k in sub}
            allow_links = {_path(parent_before[k], rp) for k in sub if k in parent_before}
            allow_content = {_path(parent_before[k], rp) for k in sub if k in parent_before and k[0] == "D"}
        elif o == "rm_parent":
            allow_links = {_path(parent_before[tgt], rp)} if tgt in parent_before else set()
            if tgt[0] == "D":
                allow_content = set(allow_links)            # the old parent's property groups forget the data set
        elif o in ("pg_add", "pg_remove"):
            allow_content = {_path(op["o"], rp)}          # the property-group block of the target object
        elif o == "copy":
            ids = op.get("ids") or []
            kinds = "GOD"
            allow_new = {"%s/{%s}" % (W.CONT[k], __import__("uuid").UUID(int=i + 1)) for i in ids for k in kinds}
            allow_content = set(allow_new)
            allow_links = {_path(op["q"], rp)}
        elif o == "sweep" or o == "reopen":
            # nodes of dead entities may be deleted (that is the deferred part of an earlier removal)
            live = {_path(r["key"], rp) for r in st["mem"]}
            allow_del = {p for p in before if not p.startswith("Types/") and p != "header" and p not in live}
        # types: introduced / dropped types are allowed, existing ones must keep their content
        bad_new = {p for p in created if not p.startswith("Types/")} - allow_new
        bad_del = {p for p in deleted if not p.startswith("Types/")} - allow_del
        bad_content = content - allow_content
        bad_links = links - allow_links - allow_del
        if st["outcome"] != "done" and o != "rm_ws":
            if before != after:
                fails.append({"key": "refused-op-changed-file", "what": f"op {i} {op} ({st['outcome']}) changed {sorted((created | deleted | content | links))[:4]}"})
            continue
        for key, bad in (("collateral-create", bad_new), ("collateral-delete", bad_del), ("collateral-content-change", bad_content),
                         ("collateral-link-change", bad_links)):
            if bad:
                fails.append({"key": key, "what": f"op {i} {op}: {sorted(bad)[:4]}"})
        if fails:
            break
    return fails


def nontrivial(case, obs):
    if case.get("t"):
        return any(o["op"] in ("rm_ws", "rm_parent", "types") for o in case["ops"]) and any(o["op"] == "create" and o["k"] == "D" for o in case["ops"])
    if case.get("dh"):
        return sum(1 for o in case["ops"] if o["op"] in ("hole_data", "dh_update", "dh_rm", "dh_copy")) >= 3
    if case.get("ext"):
        return sum(1 for o, st in zip(case["ops"], obs.get("steps", [])) if st["outcome"] == "done" and o["op"] not in ("reopen", "listing")) >= 8
    muts = sum(1 for o in case["ops"] if o["op"] not in ("sweep", "reopen"))
    big = any(len(st["mem"]) >= 4 for st in obs.get("steps", [])) if isinstance(obs, dict) else False
    return muts >= 3 and big


def histogram(cases, obs):
    from props import c01

    h = c01.histogram(cases, obs)
    h["digest_snapshots"] = sum(len(o.get("digests") or []) for o in obs if isinstance(o, dict))
    return h
