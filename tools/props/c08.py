"""C08 — Values survive storage unchanged; gaps use the format's no-data codes.

Cases (kind): num  — a numpy array of some dtype stored as Float/Integer/Referenced/Boolean data
              text — str / bytes / 'U' array / 'S' array stored as TextData
              map  — ReferenceValueMap(dict), a sequence of __setitem__, stored on a ReferencedData type and re-opened
              blob — bytes stored through add_file (FilenameData)
              json — comments and metadata (oracle only: the JSON layer is not modelled)
Observations: the API value right after the write, the raw h5py dataset (dtype and contents), the API value after
re-opening the file.  Floats are never compared approximately: every float64 is mapped to a token
(nan | ndv | +inf | -inf | -0 | i:<integer value> | x:<IEEE bit pattern>).
"""
from __future__ import annotations

import json
import math
import os
import struct

from vlib.common import cbool, clist, cnat, cz

ID = "C08"
PROPERTIES_V = "theories/Properties/C08.v"
CASE_IMPORTS = "From GV Require Import Prelude.Base Model.Codec Model.RefMap Model.JsonMeta."
ALLOWED_AXIOMS: list = []
# The model follows the code with fixes/C08-*.patch applied.  C08_MODEL_VER=Old ties the pre-repair transcription (the subject of
# the *_old_refuted theorems) to an unpatched tree instead.
MODEL_VER = "Old" if os.environ.get("C08_MODEL_VER") == "Old" else "Repaired"
REFUTED = [
    "C08_int_old_refuted (pre-repair IntegerData.format_type: int64 2^31 accepted and stored as -2^31; repaired by fixes/C08-int32-wrap.patch)",
    "C08_complex_old_refuted (pre-repair FloatData.format_type: 1+2j accepted and stored as 1.0; repaired by fixes/C08-complex-imag-dropped.patch)",
    "C08_refmap_old_refuted (pre-repair _validate_key_value: keys 1 and 2^32+1 share a row key in the '<u4' column, label of 1 replaced; repaired by fixes/C08-value-map-key-wrap.patch)",
    "C08_text_too_long_old_refuted (pre-repair TextData.values setter accepts more entries than the geometry has; repaired by fixes/C08-text-too-long.patch)",
    "C08_text_bytes_old_refuted (pre-repair TextData.values stores an 'S' array that is not UTF-8 and the entity can no longer be read; repaired by fixes/C08-text-invalid-utf8-bytes.patch)",
    "C08_blob_named_Data_refuted / C08_blob_reserved_names (FilenameData whose file is called 'Data' reads back None, called 'Type' makes the file unloadable: open findings file-named-Data, file-named-Type; consequences of the two-dataset node model)",
    "C08_meta_refusal_old_refuted (pre-repair: a refused metadata assignment deletes the stored metadata and leaves the refused value in memory; repaired by fixes/C08-metadata-refusal-not-atomic.patch)",
    "C08_meta_full_refuted / C08_meta_unmapped_positions (metadata: a UUID two dictionaries down or in a list comes back as its braced text: open finding metadata-uuid-not-restored); C08_meta_lookalikes (exactly the strings/ints uuid.UUID accepts come back as UUID: open finding metadata-uuid-lookalike)",
]
PARTIAL = [
    "C08_float_roundtrip: the documented exception (a float exactly equal to FLOAT_NDV) is excluded by hypothesis; C08_float_ndv_exception shows what happens to it",
    "C08_meta_roundtrip: side condition meta_ok (identifiers only in the metadata dict or a dict directly below; no uuid look-alike str/int in those slots) - exactly the complement of the two open metadata findings; the JSON text layer (json.dumps / json.loads on None/bool/int/float/str/list/str-keyed dict) is trusted, not modelled",
    "C08_blob_roundtrip: every file name with name_ok (non-empty, no NUL, not '.', no '/') except 'Data' and 'Type' (open findings); names with '/' are HDF5 paths, outside the node model (oracle only; '/x' is the open finding file-named-absolute-path)",
    "parse_uuid models uuid.UUID(str(v)) including int(text,16)'s leniency on ASCII text (blanks, '+', 0x, underscores); non-ASCII digits/blanks, which CPython also accepts, are not decided by the model: meta_ok excludes non-ASCII strings whose cleaned text has 32 characters and such cases are not compared in Coq (the oracle still checks them)",
]
TRUSTED = [
    "Coq 8.16.1 kernel + vm_compute (correspondence evaluation); no axioms (Print Assumptions: closed)",
    "hand-written models coq/theories/Model/Codec.v (format_values/format_length/format_type per class, write_data_values casts, fetch_values, TextData), Model/RefMap.v (ReferenceValueMap, write_value_map, fetch_value_map, run_ref) and Model/JsonMeta.v (dict_mapper/as_str_if_uuid, fetch_metadata/str2uuid, uuid.UUID text, CommentsData, the FilenameData node as two datasets); tied to the code by running both on the same generated inputs",
    "CPython json.dumps / json.loads are inverse on JSON-native values (the driver parses the stored text with json.loads and the model is compared with that value and with the API value after re-open)",
    "numpy semantics the model transcribes and the correspondence exercises: value-based promotion of np.ones(n, dtype) * nan_value, astype(int32) two's-complement truncation for integers and INT_MIN for out-of-range floats (x86-64), exact widening float16/32 -> float64, np.modf, structured '<u4' key column truncation",
    "h5py dataset round trip (dtype and contents read back by h5py are what was handed to create_dataset); HDF5 vlen-string rules (UTF-8, no embedded NUL)",
    "the UTF-8 codec: the model uses its own RFC 3629 encoder/decoder (proved inverse on scalar values: C08_utf8_roundtrip) and the correspondence compares its bytes with CPython's on every text case",
    "tools/props/c08.py: generator, driver, float tokenisation (float.hex-exact: struct bit pattern, float.is_integer, int(x)), oracle",
    "classification of input floats into tokens is done in Python before the model sees them; long double inputs are restricted to float64-representable values",
]
ASSUMPTIONS = [
    "numpy 1.26 value-based casting and x86-64 float->int32 conversion (out of range -> INT_MIN); only relevant to the pre-repair model and to the float16 padding corner",
    "data are children of a Points object (n_values = n_vertices, or 1 for OBJECT association); drillhole/concatenated storage is C04's",
    "value-map keys are ints / numpy ints / bools or clearly non-integer objects (no floats equal to 0/1, which Python's dict equality identifies with the boolean map)",
    "datetime64/timedelta64 arrays are not generated (not numeric dtypes in the property's sense)",
]
RULE = (
    "num: class x numpy dtype (bool, 8 ints, float16/32/64/longdouble, complex128, object, str) x association "
    "(VERTEX n=1..6 | OBJECT) x length (equal / shorter incl. 0 / longer) x profile (all representable | exactly one "
    "unrepresentable element | boundary soup), elements from the per-dtype boundary set {0, +-1, +-2^31, +-(2^31+-1), "
    "2^32(+-1), +-2^63(-1), 2^64-1, ndv sentinels and neighbours, +-inf, nan, -0.0, sub-normals, max}, through add_data "
    "or the values setter, 1-D or N-D (shapes (n,2), (2,n), (n,1), (1,n), (k,2), (n,1,1), (n,3), (2,2,2), 0-d; entries counted on the flattened array); text: ASCII/BMP/astral/combining/surrogate/NUL strings as str, bytes, 'U' and 'S' "
    "arrays; map: dicts with valid, negative, >= 2^32, non-int keys, non-str labels, key 0 with and without 'Unknown', "
    "boolean maps, followed by 0-4 assignments; blob: byte strings incl. NULs and all 256 values; non-trivial = a no-data "
    "gap, a boundary magnitude (|v| >= 2^31-1 or sentinel neighbour), a non-ASCII string, a refused input, or a map "
    "with an assignment; map cases also store 1-5 referenced values inside and outside the map's keys; json: 1-3 comments (Unicode, "
    "uuid-shaped text) or a session of 1-3 metadata assignments (dicts that merge, None, unencodable or non-dict values), each dict nested up to 3 deep with None/bool/ints (32-digit ones)/floats/Unicode strings/near-"
    "look-alikes/identifiers/empty dict and list; 22% of the metadata cases are spiced with look-alikes, deep identifiers, "
    "identifiers in lists, and the forms int(text,16) tolerates (underscores, blanks, +, 0x, non-ASCII digits); blob names include Data, Type, empty, '.', '..', NUL, 'a/b', '/x'"
)
LEVEL_TEXT = (
    "Proved in Coq for all inputs of the model: float arrays without the sentinel read back token-for-token with NaN stored "
    "as FLOAT_NDV (and no NaN on file); integer arrays within int32 read back identical with gaps as INTEGER_NDV, "
    "every fractional, infinite or out-of-range value and every array longer than the geometry is refused; booleans are "
    "stored as int8 0/1 and anything else is refused; object/str/complex/bool-to-float inputs are refused; text round-trips "
    "under the codec law, which is itself proved for the model's RFC 3629 codec; ReferenceValueMap keeps key 0 = 'Unknown' "
    "over every constructor/__setitem__ sequence and survives the file with all labels.  The five pre-repair defects are "
    "proved as refutations of the old transcription (tied to the unpatched tree by C08_MODEL_VER=Old) and repaired by fixes/C08-*.patch.  Metadata dictionaries round-trip for all nested values under meta_ok, with the look-alike set stated as an iff and the braced uuid text proved to parse back for every identifier; comments round-trip for all record lists; the FilenameData node is a two-dataset model from which read-back is proved for every name but Data/Type; referenced values outside the map's keys are returned as they are.  Metadata sessions (merge by dict.update, None clears, refusals atomic after the repair) are modelled as a state machine.  Five open findings (file-named-Data, file-named-Type, file-named-absolute-path, metadata-uuid-lookalike, metadata-uuid-not-restored).  "
    "Tie: correspondence of model and code on generated arrays of every numeric dtype, strings of all planes, "
    "maps and blobs (API value live, raw dataset, API value after re-open)."
)
TECHNIQUE = "Coq proofs over a hand model of the codecs + differential correspondence + independent oracle"

FLOAT_NDV = 1.17549435e-38
INT_MIN, INT_MAX = -(2**31), 2**31 - 1
IDT = {"int8": (-(2**7), 2**7 - 1), "uint8": (0, 2**8 - 1), "int16": (-(2**15), 2**15 - 1), "uint16": (0, 2**16 - 1),
       "int32": (-(2**31), 2**31 - 1), "uint32": (0, 2**32 - 1), "int64": (-(2**63), 2**63 - 1), "uint64": (0, 2**64 - 1)}
FDT = ["float16", "float32", "float64", "longdouble"]
COQ_IDT = {"int8": "I8", "uint8": "U8", "int16": "I16", "uint16": "U16", "int32": "I32", "uint32": "U32", "int64": "I64", "uint64": "U64"}
COQ_FDT = {"float16": "F16", "float32": "F32", "float64": "F64", "longdouble": "F128"}
COQ_CLS = {"FLOAT": "CFloat", "INTEGER": "CInteger", "REFERENCED": "CReferenced", "BOOLEAN": "CBoolean"}
ERRS = {"TypeError": "TypeErr", "ValueError": "ValueErr", "KeyError": "KeyErr", "AssertionError": "AssertErr",
        "OverflowError": "OverflowErr", "IndexError": "IndexErr", "AttributeError": "AttributeErr",
        "UnicodeEncodeError": "UnicodeEncodeErr", "UnicodeDecodeError": "UnicodeDecodeErr",
        "NotImplementedError": "NotImplementedErr"}


# ----------------------------------------------------------------------------- float tokens (exact)
def fbits(x: float) -> int:
    return struct.unpack("<Q", struct.pack("<d", x))[0]


NDV_BITS = fbits(FLOAT_NDV)


def tok(x: float) -> str:
    """float64 -> token; exact (bit pattern / integer value), never approximate."""
    x = float(x)
    if x != x:
        return "nan"
    if fbits(x) == NDV_BITS:
        return "ndv"
    if x == math.inf:
        return "+inf"
    if x == -math.inf:
        return "-inf"
    if x == 0.0 and math.copysign(1.0, x) < 0:
        return "-0"
    if x.is_integer():
        return "i:%d" % int(x)
    return "x:%d" % fbits(x)


def untok(t: str) -> float:
    if t == "nan":
        return math.nan
    if t == "ndv":
        return FLOAT_NDV
    if t == "+inf":
        return math.inf
    if t == "-inf":
        return -math.inf
    if t == "-0":
        return -0.0
    if t.startswith("i:"):
        return float(int(t[2:]))
    return struct.unpack("<d", struct.pack("<Q", int(t[2:])))[0]


def ctok(t: str) -> str:
    if t == "nan":
        return "FNaN"
    if t == "ndv":
        return "FNdv"
    if t == "+inf":
        return "(FInf false)"
    if t == "-inf":
        return "(FInf true)"
    if t == "-0":
        return "FNegZero"
    if t.startswith("i:"):
        return "(FInt %s)" % cz(int(t[2:]))
    return "(FFrac %s%%N)" % t[2:]


def fits(x: float, dt: str) -> bool:
    """is the float64 x exactly representable in dtype dt"""
    if x != x or x in (math.inf, -math.inf):
        return True
    try:
        if dt == "float16":
            return struct.unpack("<e", struct.pack("<e", x))[0] == x
        if dt == "float32":
            return struct.unpack("<f", struct.pack("<f", x))[0] == x
    except (OverflowError, struct.error):
        return False
    return True


# ----------------------------------------------------------------------------- generation
F_COMMON = [0.0, -0.0, 1.0, -1.0, 2.0, 3.0, 100.0, 0.5, 1.5, -2.5, math.nan, math.nan, math.inf, -math.inf]
F64_B = [2.0**31, -(2.0**31), 2.0**31 - 1, 2.0**31 + 1, -(2.0**31) - 1, -(2.0**31) + 1, 2.0**31 - 0.5, 2.0**32, 2.0**32 + 5,
         2.0**63, -(2.0**63), 2.0**53 + 2, 1e300, FLOAT_NDV, math.nextafter(FLOAT_NDV, 1), math.nextafter(FLOAT_NDV, 0),
         -FLOAT_NDV, 5e-324, -5e-324, 2.2250738585072014e-308, 1.7976931348623157e308, 0.1, 2.0**-126, 2147483647.5]
F32_B = [2.0**31, -(2.0**31), 2147483520.0, 2.0**32, 2.0**-126, 2.0**-149, 3.4028234663852886e38, 16777216.0,
         0.10000000149011612, 2.0**63]
F16_B = [65504.0, 2.0**-24, 2.0**-14, 0.0999755859375, 2048.0, -65504.0]
I_B = [0, 1, -1, 2, 5, 127, 128, 255, 256, -128, -129, 32767, 32768, 65535, 65536, 2**31 - 1, 2**31, 2**31 + 1, -(2**31), -(2**31) - 1,
       -(2**31) + 1, 2**32 - 1, 2**32, 2**32 + 1, 2**32 + 5, 2**53 + 1, 2**63 - 1, -(2**63), 2**63, 2**64 - 1]


def f_pool(dt):
    pool = list(F_COMMON)
    pool += {"float16": F16_B, "float32": F32_B + F16_B, "float64": F64_B + F32_B, "longdouble": F64_B + F32_B}[dt]
    return [x for x in pool if fits(x, dt)]


def i_pool(dt):
    lo, hi = IDT[dt]
    return [z for z in I_B if lo <= z <= hi]


def representable(cls, x):
    """can the element (python int/bool/float; complex as (re, im)) be stored in the class without change? (NaN = gap: yes)"""
    if isinstance(x, tuple):
        re, im = x
        if im != im or re != re:
            return True  # np.isnan holds of a complex number when either part is NaN: a gap
        if im != 0:
            return False
        return representable(cls, re)
    if isinstance(x, bool):
        return True
    if isinstance(x, int):
        if cls == "FLOAT":
            return abs(x) <= 2**53
        if cls == "BOOLEAN":
            return x in (0, 1)
        return INT_MIN <= x <= INT_MAX
    if x != x:
        return True
    if cls == "FLOAT":
        return True
    if x in (math.inf, -math.inf) or not x.is_integer():
        return False
    if cls == "BOOLEAN":
        return x in (0.0, 1.0)
    return INT_MIN <= x <= INT_MAX


def enc_el(x):
    if isinstance(x, tuple):
        return [tok(x[0]), tok(x[1])]
    if isinstance(x, bool):
        return x
    if isinstance(x, int):
        return x
    return tok(x)


def gen_num(rng):
    cls = rng.weighted([("FLOAT", 30), ("INTEGER", 38), ("REFERENCED", 10), ("BOOLEAN", 22)])
    if cls == "FLOAT":
        dt = rng.weighted([(d, 14) for d in FDT] + [("complex128", 10), ("bool", 5), ("int64", 5), ("uint8", 3), ("object", 4), ("str", 3)])
    elif cls == "BOOLEAN":
        dt = rng.weighted([("bool", 25), ("int64", 15), ("uint8", 8), ("int8", 6), ("uint64", 6), ("float64", 15), ("float32", 6),
                           ("float16", 4), ("complex128", 6), ("object", 3), ("str", 3)])
    else:
        dt = rng.weighted([(d, 9) for d in IDT] + [("float64", 14), ("float32", 7), ("float16", 5), ("longdouble", 5), ("bool", 4),
                                                    ("complex128", 4), ("object", 3), ("str", 3)])
    assoc = "OBJECT" if rng.chance(12) else "VERTEX"
    n = rng.range(1, 6)
    nv = 1 if assoc == "OBJECT" else n
    shape = rng.weighted([("eq", 62), ("short", 22), ("long", 16)])
    if shape == "eq":
        ln = nv
    elif shape == "short":
        ln = rng.range(0, nv - 1) if nv > 1 else 0
    else:
        ln = nv + rng.range(1, 2)
    # N-d input: the number of entries is the size of the flattened array whatever the shape
    dims = None
    if dt not in ("object", "str") and rng.chance(24):
        kind = rng.weighted([("n2", 22), ("2n", 18), ("n1", 14), ("1n", 14), ("k2", 10), ("0d", 10), ("n11", 4), ("n3", 4), ("222", 4)])
        dims = {"n2": [nv, 2], "2n": [2, nv], "n1": [nv, 1], "1n": [1, nv], "k2": [max(1, nv // 2), 2], "0d": [], "n11": [nv, 1, 1],
                "n3": [nv, 3], "222": [2, 2, 2]}[kind]
        ln = 1
        for k in dims:
            ln *= k
    profile = rng.weighted([("valid", 45), ("onebad", 33), ("soup", 22)])
    if dt in IDT:
        pool = i_pool(dt)
    elif dt in FDT:
        pool = f_pool(dt)
    elif dt == "complex128":
        base = [0.0, 1.0, -1.0, 2.0, 1.5, math.nan, 2.0**31, -0.0]
        pool = [(a, b) for a in base for b in (0.0, 0.0, 0.0, 2.0, -0.0, math.nan)]
    elif dt == "bool":
        pool = [True, False]
    else:
        pool = [1, 2, 3]
    good = [x for x in pool if representable(cls, x)] or pool
    bad = [x for x in pool if not representable(cls, x)]
    els = []
    for _ in range(ln):
        els.append(rng.choice(good) if profile != "soup" else rng.choice(pool))
    if profile == "onebad" and bad and ln > 0:
        els[rng.below(ln)] = rng.choice(bad)
    typed = True
    inferred = {"bool": "BOOLEAN"}.get(dt, "FLOAT" if dt in FDT else "INTEGER" if dt in IDT else None)
    if inferred == cls and rng.chance(50):
        typed = False
    if dt in ("complex128", "object") and rng.chance(15):
        typed = False  # validate_data_type refuses: NotImplementedError
    via = "setter" if rng.chance(25) and typed else "add_data"
    if dims is None and ln >= 2 and ln % 2 == 0 and rng.chance(6) and dt not in ("object", "str"):
        dims = [ln // 2, 2]
    if dims == []:
        typed = True
    return {"kind": "num", "cls": cls, "dtype": dt, "assoc": assoc, "n": n, "vals": [enc_el(x) for x in els], "typed": typed,
            "via": via if typed else "add_data", "shape": dims, "profile": profile}


S_ASCII = ["abc", "", "x", "Unknown", "a b", "tab\tnl\n", "q\"\\"]
S_BMP = ["\u00e9", "\u00e9t\u00e9", "\u4e2d\u6587", "\u0416", "\uffff", "\u07ff\u0800", "\ud7ff\ue000", "\u0080"]
S_ASTRAL = ["\U0001F600", "a\U00010000b", "\U0010FFFF"]
S_COMB = ["e\u0301", "\u0915\u094d\u0937"]
S_BAD = ["\ud800", "a\udfffb", "a\x00b", "\x00a"]


def cps(s):
    return [ord(c) for c in s]


def gen_text(rng):
    form = rng.weighted([("str", 30), ("bytes", 12), ("arrU", 38), ("arrS", 12), ("other", 8)])
    pool_ok = S_ASCII + S_BMP + S_ASTRAL + S_COMB
    assoc = "OBJECT" if form in ("str", "bytes") or rng.chance(15) else "VERTEX"
    n = rng.range(1, 5)
    nv = 1 if assoc == "OBJECT" else n

    def pick():
        return rng.choice(S_BAD) if rng.chance(9) else rng.choice(pool_ok)

    case = {"kind": "text", "form": form, "assoc": assoc, "n": n}
    if form == "str":
        case["val"] = cps(pick())
    elif form == "bytes":
        if rng.chance(25):
            case["val"] = rng.choice([[255, 254], [192, 128], [237, 160, 128], [244, 144, 128, 128], [97, 128], [224, 128, 128], [195]])
        else:
            case["val"] = list(rng.choice(pool_ok).encode("utf-8"))
    elif form in ("arrU", "arrS"):
        ln = rng.weighted([(nv, 60), (max(nv - 1, 1), 15), (nv + 1, 15), (nv + 2, 5), (0, 5)])
        items = []
        for _ in range(ln):
            s = pick()
            if form == "arrS":
                b = s.encode("utf-8", "surrogatepass")
                if rng.chance(10):
                    b = bytes(rng.choice([[255], [195], [97, 128]]))
                items.append(list(b.rstrip(b"\x00")))  # numpy 'S' arrays drop trailing NULs before the API sees them
            else:
                items.append(cps(s.rstrip("\x00")))
        case["val"] = items
    else:
        case["val"] = rng.choice(["float_array", "list", "int"])
    return case


def gen_key(rng, in_dict=False):
    # constructor dicts are mostly valid (one bad entry refuses the whole dict); assignments are refused one by one
    w = [("small", 70), ("zero", 12), ("bigok", 6), ("big", 4), ("neg", 3), ("bad", 3), ("npint", 1), ("bool", 1)] if in_dict else \
        [("small", 50), ("zero", 12), ("bigok", 6), ("big", 10), ("neg", 7), ("bad", 7), ("npint", 5), ("bool", 3)]
    k = rng.weighted(w)
    if k == "small":
        return rng.range(1, 6)
    if k == "zero":
        return 0
    if k == "bigok":
        return rng.choice([2**31 - 1, 2**31, 2**32 - 1, 65536])
    if k == "big":
        return rng.choice([2**32, 2**32 + 1, 2**32 + rng.range(1, 6), 2**63 - 1, 2**63, 2**64 - 1, 2**64, 2**64 + 1])
    if k == "neg":
        return rng.choice([-1, -5, -(2**31)])
    if k == "bad":
        return {"bad": rng.choice(["str", "float", "none"])}
    if k == "npint":
        return {"np": rng.range(1, 6)}
    return {"bool": rng.chance(50)}


def gen_lab(rng, key):
    if rng.chance(4):
        return {"bad": rng.choice(["int", "none", "bytes"])}
    if key == 0 and rng.chance(80):
        return cps("Unknown")
    s = rng.choice(S_ASCII[:5] + ["one", "two", "rock", "False", "True"] + S_BMP[:3] + S_ASTRAL[:1]) if not rng.chance(4) else rng.choice(S_BAD)
    return cps(s)


def key_id(k):
    if isinstance(k, dict):
        if "np" in k:
            return ("i", k["np"])
        if "bool" in k:
            return ("i", int(k["bool"]))
        return ("bad", k["bad"])
    return ("i", k)


def gen_map(rng):
    if rng.chance(10):
        d = [[0, cps("False")], [1, cps("True")]]
        if rng.chance(40):
            d.reverse()
        if rng.chance(25):
            d.append([2, cps("x")])
    else:
        d, seen = [], set()
        for _ in range(rng.weighted([(0, 5), (1, 15), (2, 30), (3, 30), (4, 20)])):
            k = gen_key(rng, in_dict=True)
            if key_id(k) in seen:
                continue
            seen.add(key_id(k))
            d.append([k, gen_lab(rng, k)])
    ops = []
    for _ in range(rng.weighted([(0, 35), (1, 25), (2, 20), (3, 12), (4, 8)])):
        k = gen_key(rng)
        ops.append([k, gen_lab(rng, k)])
    # the referenced values themselves: keys of the map, keys that are not in it, negative, the no-data code
    vals = [rng.choice([0, 1, 2, 3, 5, 6, 7, 99, -1, -5, 2**31 - 1, -(2**31), 65536]) for _ in range(rng.range(1, 5))]
    return {"kind": "map", "d": d, "ops": ops, "vals": vals}


def gen_blob(rng):
    r = rng.below(100)
    if r < 8:
        return {"kind": "blob", "bytes": None, "name": cps("f.dat")}
    if r < 14:
        b = []
    elif r < 22:
        b = list(range(256))
    else:
        b = [rng.choice([0, 0, 1, 10, 13, 65, 127, 128, 255, rng.below(256)]) for _ in range(rng.range(1, 12))]
    name = rng.weighted([("f.dat", 45), ("Data", 9), ("Type", 6), ("\u00e9\U0001F600.bin", 12), ("a b.tiff", 10), ("", 3), (".", 3), ("..", 3), ("a\x00b", 3), ("a/b", 3), ("/x", 3)])
    return {"kind": "blob", "bytes": b, "name": cps(name)}


UUID_LOOKALIKES = ["{00000000-0000-0000-0000-000000000005}", "00000000000000000000000000000005", "ABCDEF00-0000-0000-0000-0000000000ff",
                   "urn:uuid:12345678-1234-5678-1234-567812345678", "{}{}12345678123456781234567812345678", "uuid:{0-0-0-0-0000000000000000000000000000}",
                   # what int(text, 16) tolerates inside uuid.UUID: underscores, blanks, '+', 0x
                   "1_234567812345678123456781234567", " 0000000000000000000000000000005", "+0000000000000000000000000000005",
                   "0x000000000000000000000000000005", "0X_00000000000000000000000000005", "0000000000000000000000000000005\n",
                   "{\t00000000000000000000000000005\x1f}", "0_0_0_0_0_0_0_0_0_0_0_0_0_0_0_05", "+0x00000000000000000000000000a_F",
                   "\u0660" * 32, "0000000000000000000000000000000\u0665"]
NEAR_LOOKALIKES = ["{00000000-0000-0000-0000-00000000000}", "0000000000000000000000000000000g", "{00000000-0000-0000-0000-000000000005} ",
                   "urn:uuid", "{}", "--------------------------------", "0000__000000000000000000000000005",
                   "_0000000000000000000000000000005", "0000000000000000000000000000005_", "-0000000000000000000000000000005",
                   "0o000000000000000000000000000005", "+ 000000000000000000000000000005", "0x_0000000000000000000000000000_",
                   "0x" + " " * 30, "++000000000000000000000000000005", "00000000 0000000000000000000000005"]


def gen_meta_val(rng, depth, strs, spice):
    """depth = how many dict levels lie above (1 = value of the metadata dict itself)"""
    r = rng.below(100)
    if r < 8:
        return None
    if r < 14:
        return rng.chance(50)
    if r < 24:
        return rng.choice([0, 1, -1, 2**31, 2**63, 2**70, -(2**31) - 1, 10**31, 10**32])
    if r < 32:
        return {"$f": tok(rng.choice([0.5, 0.1, 1e-320, 1.7976931348623157e308, FLOAT_NDV, -0.0, 2.0**53 + 2, 5e-324, 1e16, math.inf, math.nan]))}
    if r < 52:
        return {"$s": cps(rng.choice(strs))}
    if r < 58:
        return {"$s": cps(rng.choice(NEAR_LOOKALIKES))}
    if r < 66:
        # an identifier where the reader maps it back (depth 1 and 2) ...
        if depth <= 2 or spice:
            return {"$u": rng.choice([0, 5, 2**64 + 7, 2**128 - 1, 0x123456781234567812345678ABCDEF01])}
        return {"$s": cps("deep")}
    if r < 76 or depth >= 3:
        kind = rng.below(10)
        if kind < 2:
            return []
        items = [gen_meta_atom(rng, strs, spice) for _ in range(rng.range(1, 3))]
        if spice and rng.chance(30):
            items.append([{"$u": 9}] if rng.chance(50) else {"$d": [[cps("k"), {"$u": 9}]]})
        return items
    if rng.chance(15):
        return {"$d": []}
    return {"$d": [[cps(rng.choice(strs[:5] + S_BMP[:2] + S_ASTRAL[:1])) + [48 + i], gen_meta_val(rng, depth + 1, strs, spice)] for i in range(rng.range(1, 3))]}


def gen_meta_atom(rng, strs, spice):
    r = rng.below(10)
    if r < 2:
        return None
    if r < 4:
        return rng.choice([3, -7, 2**70])
    if r < 8:
        return {"$s": cps(rng.choice(strs + NEAR_LOOKALIKES))}
    if spice:
        return {"$u": 5} if rng.chance(50) else {"$s": cps(rng.choice(UUID_LOOKALIKES))}
    return {"$f": tok(0.25)}


def gen_json(rng):
    strs = S_ASCII + S_BMP + S_ASTRAL + S_COMB + ["a\x00b"]
    if rng.chance(35):
        return {"kind": "json", "what": "comment",
                "comments": [[cps(rng.choice(strs + UUID_LOOKALIKES[:2])), cps(rng.choice(strs[:4] + S_BMP[:2]))] for _ in range(rng.range(1, 3))]}
    # spice: look-alikes where they are mapped, identifiers where they are not, values json refuses (the recorded findings)
    spice = rng.chance(22)

    def one_dict():
        d = []
        for i in range(rng.weighted([(0, 6), (1, 34), (2, 34), (3, 26)])):
            v = gen_meta_val(rng, 1, strs, spice)
            if spice and rng.chance(35):
                v = rng.choice([{"$s": cps(rng.choice(UUID_LOOKALIKES))}, 12345678123456781234567812345678, -(10**31) - 5,
                                {"$d": [[cps("in"), {"$s": cps(rng.choice(UUID_LOOKALIKES))}]]},
                                {"$d": [[cps("a"), {"$d": [[cps("b"), {"$u": 77}]]}]]}, [{"$u": 5}]])
            d.append([cps("k%d" % rng.below(4)) + (cps(rng.choice(S_BMP[:3])) if rng.chance(20) else []), v])
        seen, out = set(), []
        for k, v in d:  # a Python dict literal: the last value of a repeated key wins, at the first position
            if tuple(k) in seen:
                out = [[kk, v if kk == k else vv] for kk, vv in out]
            else:
                seen.add(tuple(k))
                out.append([k, v])
        return {"$d": out}

    # one session: 1-3 assignments (the setter merges dicts, None clears, an unencodable or non-dict value is refused)
    ops = []
    for _ in range(rng.weighted([(1, 55), (2, 30), (3, 15)])):
        r = rng.below(100)
        if r < 78:
            ops.append(one_dict())
        elif r < 86:
            ops.append(None)
        elif r < 94:
            ops.append({"$d": [[cps("bad"), rng.choice([{"$bad": 1}, [[{"$u": 3}]], {"$d": [[cps("x"), [{"$bad": 1}]]]}])]]})
        else:
            ops.append(rng.choice([5, {"$s": cps("text")}, [1, 2]]))
    return {"kind": "json", "what": "meta", "ops": ops, "spice": spice}


FIXED = [
    # the probe of DESIGN section 8: int64 2**31
    {"kind": "num", "cls": "INTEGER", "dtype": "int64", "assoc": "VERTEX", "n": 2, "vals": [2**31, 5], "typed": False, "via": "add_data", "shape": None, "profile": "onebad"},
    {"kind": "num", "cls": "FLOAT", "dtype": "float64", "assoc": "VERTEX", "n": 4, "vals": ["nan", "x:%d" % fbits(0.1), "ndv"], "typed": False, "via": "add_data", "shape": None, "profile": "soup"},
    {"kind": "num", "cls": "FLOAT", "dtype": "complex128", "assoc": "VERTEX", "n": 1, "vals": [["i:1", "i:2"]], "typed": True, "via": "add_data", "shape": None, "profile": "onebad"},
    # 12 entries in a (6, 2) array for 6 vertices: the entries are counted after flattening
    {"kind": "num", "cls": "FLOAT", "dtype": "float64", "assoc": "VERTEX", "n": 6, "vals": ["i:%d" % i for i in range(12)], "typed": False, "via": "add_data", "shape": [6, 2], "profile": "valid"},
    {"kind": "num", "cls": "INTEGER", "dtype": "int32", "assoc": "VERTEX", "n": 6, "vals": list(range(12)), "typed": True, "via": "setter", "shape": [6, 2], "profile": "valid"},
    {"kind": "map", "d": [[1, cps("one")], [2**32 + 1, cps("big")]], "ops": []},
    {"kind": "map", "d": [[0, cps("Unknown")], [2**32, cps("big")]], "ops": []},
    {"kind": "text", "form": "arrU", "assoc": "VERTEX", "n": 2, "val": [cps("a"), cps("b"), cps("c")]},
    {"kind": "blob", "bytes": [120], "name": cps("Data")},
    {"kind": "blob", "bytes": [120, 0], "name": cps("Type")},
    {"kind": "blob", "bytes": [120], "name": cps("/x")},
    # a refused name wins over a refused content
    {"kind": "blob", "bytes": [], "name": cps(".")},
    {"kind": "blob", "bytes": None, "name": []},
    {"kind": "blob", "bytes": [], "name": cps("a\x00b")},
    {"kind": "blob", "bytes": None, "name": cps("Type")},
    {"kind": "blob", "bytes": [], "name": cps("Data")},
    {"kind": "json", "what": "meta", "spice": True, "ops": [{"$d": [[cps("a"), 1]]}, {"$d": [[cps("b"), 2]]}, {"$d": [[cps("c"), {"$bad": 1}]]}]},
    {"kind": "json", "what": "meta", "spice": True, "ops": [{"$d": [[cps("a"), {"$s": cps("1_234567812345678123456781234567")}]]}]},
    {"kind": "json", "what": "meta", "spice": False, "ops": [{"$d": [[cps("a"), 1], [cps("b"), 2]]}, {"$d": [[cps("b"), {"$u": 9}], [cps("c"), None]]}, None, {"$d": [[cps("z"), []]]}]},
    {"kind": "json", "what": "meta", "spice": True, "value": {"$d": [[cps("a"), {"$d": [[cps("b"), {"$d": [[cps("c"), {"$u": 5}]]}]]}]]}},
    {"kind": "json", "what": "meta", "spice": True, "value": {"$d": [[cps("a"), {"$s": cps("00000000000000000000000000000005")}]]}},
    {"kind": "json", "what": "meta", "spice": False, "value": {"$d": [[cps("a"), {"$u": 5}], [cps("b"), {"$d": [[cps("c"), {"$u": 2**128 - 1}], [cps("d"), []], [cps("e"), {"$d": []}]]}], [cps("f"), None]]}},
]


def generate(rng, tier):
    k = 1 if tier == "quick" else 20
    cases = [json.loads(json.dumps(c)) for c in FIXED]
    # add_file: every refusal of a name against every refusal of a content (their order is part of the model)
    for nm in ("", ".", "a\x00b", "\x00", "..", "f.dat", "Data", "Type"):
        for content in (None, [], [120, 0]):
            cases.append({"kind": "blob", "bytes": content, "name": cps(nm)})
    for _ in range(520 * k):
        cases.append(gen_num(rng))
    for _ in range(150 * k):
        cases.append(gen_text(rng))
    for _ in range(170 * k):
        cases.append(gen_map(rng))
    for _ in range(40 * k):
        cases.append(gen_blob(rng))
    for _ in range(90 * k):
        cases.append(gen_json(rng))
    return cases


# ----------------------------------------------------------------------------- implementation driver
def _s(cp):
    return "".join(chr(c) for c in cp)


def _mk_array(case):
    import numpy as np

    dt, vals = case["dtype"], case["vals"]
    if dt in IDT:
        a = np.array([int(v) for v in vals], dtype=dt)
    elif dt in FDT:
        a = np.array([untok(v) for v in vals], dtype="float64").astype(dt)
    elif dt == "complex128":
        a = np.array([complex(untok(v[0]), untok(v[1])) for v in vals], dtype="complex128")
    elif dt == "bool":
        a = np.array([bool(v) for v in vals], dtype=bool)
    elif dt == "object":
        a = np.array([{"k": v} for v in vals] or [], dtype=object)
    else:
        a = np.array([str(v) for v in vals], dtype="U3")
    if case.get("shape") is not None:
        a = a.reshape(tuple(case["shape"]))
    return a


def _num_tokens(arr):
    import numpy as np

    arr = np.asarray(arr)
    if arr.dtype == bool:
        return {"t": "bool", "v": [bool(x) for x in arr.tolist()]}
    if np.issubdtype(arr.dtype, np.integer):
        return {"t": str(arr.dtype), "v": [int(x) for x in arr.tolist()]}
    if np.issubdtype(arr.dtype, np.floating):
        return {"t": str(arr.dtype), "v": [tok(float(x)) for x in arr.astype("float64").tolist()]}
    return {"t": str(arr.dtype), "v": None}


def _err(e):
    return type(e).__name__


def _drive_num(case, path):
    import h5py
    import numpy as np
    from geoh5py import Workspace
    from geoh5py.objects import Points

    n = case["n"]
    arr = _mk_array(case)
    uid = None
    with Workspace.create(path) as ws:
        pts = Points.create(ws, vertices=np.zeros((n, 3)))
        try:
            if case["via"] == "add_data":
                spec = {"values": arr, "association": case["assoc"]}
                if case["typed"]:
                    spec["type"] = case["cls"]
                d = pts.add_data({"d": spec})
            else:
                base = {"FLOAT": np.zeros(1), "INTEGER": np.zeros(1, dtype="int32"), "REFERENCED": np.zeros(1, dtype="int32"),
                        "BOOLEAN": np.zeros(1, dtype=bool)}[case["cls"]]
                d = pts.add_data({"d": {"values": base, "association": case["assoc"], "type": case["cls"]}})
                d.values = arr
        except Exception as e:  # noqa: BLE001
            return {"store_err": _err(e), "msg": str(e)[:160]}
        live = _num_tokens(d.values)
        cls_name = type(d).__name__
        uid = d.uid
    with h5py.File(path, "r") as h:
        ds = h["GEOSCIENCE"]["Data"]["{%s}" % uid]["Data"]
        raw = _num_tokens(ds[()])
        raw["shape"] = list(ds.shape)
    out = {"live": live, "raw": raw, "class": cls_name}
    try:
        with Workspace(path, mode="r") as ws:
            d = ws.get_entity(uid)[0]
            out["re"] = _num_tokens(d.values)
    except Exception as e:  # noqa: BLE001
        out["read_err"] = _err(e)
    return out


def _tval(v):
    import numpy as np

    if isinstance(v, str):
        return {"t": "str", "v": cps(v)}
    if isinstance(v, np.ndarray) and v.dtype.kind == "U":
        return {"t": "U", "v": [cps(str(x)) for x in v.tolist()]}
    if isinstance(v, np.ndarray) and v.dtype.kind == "S":
        return {"t": "S", "v": [list(x) for x in v.tolist()]}
    return {"t": type(v).__name__, "v": None}


def _drive_text(case, path):
    import h5py
    import numpy as np
    from geoh5py import Workspace
    from geoh5py.objects import Points

    form, val = case["form"], case["val"]
    if form == "str":
        x = _s(val)
    elif form == "bytes":
        x = bytes(val)
    elif form == "arrU":
        x = np.array([_s(s) for s in val], dtype=str) if val else np.array([], dtype="U1")
    elif form == "arrS":
        x = np.array([bytes(b) for b in val], dtype=bytes) if val else np.array([], dtype="S1")
    else:
        x = {"float_array": np.array([1.0, 2.0]), "list": ["a", "b"], "int": 3}[val]
    with Workspace.create(path) as ws:
        pts = Points.create(ws, vertices=np.zeros((case["n"], 3)))
        try:
            d = pts.add_data({"d": {"values": x, "association": case["assoc"], "type": "TEXT"}})
        except Exception as e:  # noqa: BLE001
            return {"store_err": _err(e), "msg": str(e)[:160]}
        live = _tval(d.values)
        uid = d.uid
    with h5py.File(path, "r") as h:
        ds = h["GEOSCIENCE"]["Data"]["{%s}" % uid]["Data"]
        rv = ds[()]
        raw = {"kind": "vlen" if ds.dtype.kind == "O" else "fixed" if ds.dtype.kind == "S" else str(ds.dtype),
               "v": [list(b if isinstance(b, bytes) else str(b).encode("utf-8", "surrogatepass")) for b in np.ravel(rv).tolist()]}
    out = {"live": live, "raw": raw}
    try:
        with Workspace(path, mode="r") as ws:
            d = ws.get_entity(uid)[0]
            out["re"] = _tval(d.values)
    except Exception as e:  # noqa: BLE001
        out["read_err"] = _err(e)
    return out


def _pykey(k):
    import numpy as np

    if isinstance(k, dict):
        if "np" in k:
            return np.int64(k["np"])
        if "bool" in k:
            return bool(k["bool"])
        return {"str": "1", "float": 2.5, "none": None}[k["bad"]]
    return int(k)


def _pylab(v):
    if isinstance(v, dict):
        return {"int": 7, "none": None, "bytes": b"x"}[v["bad"]]
    return _s(v)


def _map_obs(m):
    out = []
    for k, v in m.items():
        out.append([int(k) if isinstance(k, (int,)) or hasattr(k, "__index__") else repr(k), cps(v) if isinstance(v, str) else repr(v)])
    return out


def _drive_map(case, path):
    import h5py
    import numpy as np
    from geoh5py import Workspace
    from geoh5py.data.reference_value_map import ReferenceValueMap
    from geoh5py.objects import Points

    d = {}
    for k, v in case["d"]:
        d[_pykey(k)] = _pylab(v)
    try:
        rvm = ReferenceValueMap(d)
    except Exception as e:  # noqa: BLE001
        return {"mk_err": _err(e)}
    errs = []
    for k, v in case["ops"]:
        try:
            rvm[_pykey(k)] = _pylab(v)
            errs.append(None)
        except Exception as e:  # noqa: BLE001
            errs.append(_err(e))
    out = {"map": _map_obs(rvm.map), "errs": errs}
    with Workspace.create(path) as ws:
        pts = Points.create(ws, vertices=np.zeros((2, 3)))
        try:
            vals = case.get("vals") or [0, 1]
            pts2 = Points.create(ws, vertices=np.zeros((len(vals), 3)))
            dat = pts2.add_data({"d": {"values": np.array(vals, dtype="int32"), "association": "VERTEX", "type": "REFERENCED",
                                       "value_map": rvm}})
            out["vlive"] = _num_tokens(dat.values)
        except Exception as e:  # noqa: BLE001
            out["write_err"] = _err(e)
            return out
        uid = dat.uid
        tuid = dat.entity_type.uid
    with h5py.File(path, "r") as h:
        t = h["GEOSCIENCE"]["Types"]["Data types"]["{%s}" % tuid]
        rows = t["Value map"][()].tolist() if "Value map" in t else None
        out["rows"] = None if rows is None else [[int(k), list(v if isinstance(v, bytes) else v.encode("utf-8"))] for k, v in rows]
        out["vraw"] = _num_tokens(h["GEOSCIENCE"]["Data"]["{%s}" % uid]["Data"][()])
    try:
        with Workspace(path, mode="r") as ws:
            dat = ws.get_entity(uid)[0]
            out["re"] = _map_obs(dat.value_map.map)
            out["vre"] = _num_tokens(dat.values)
    except Exception as e:  # noqa: BLE001
        out["read_err"] = _err(e)
    return out


def _drive_blob(case, path):
    import h5py
    import numpy as np
    from geoh5py import Workspace
    from geoh5py.objects import Points

    name = _s(case["name"])
    with Workspace.create(path) as ws:
        pts = Points.create(ws, vertices=np.zeros((2, 3)))
        try:
            if case["bytes"] is None:
                fd = pts.add_file(b"seed", name=name)
                fd.values = "not bytes"
            else:
                fd = pts.add_file(bytes(case["bytes"]), name=name)
        except Exception as e:  # noqa: BLE001
            return {"store_err": _err(e), "msg": str(e)[:160]}
        uid = fd.uid
        live = list(fd.values) if isinstance(fd.values, bytes) else None
    with h5py.File(path, "r") as h:
        g = h["GEOSCIENCE"]["Data"]["{%s}" % uid]
        members = []
        for k in sorted(g):
            obj = g[k]
            if isinstance(obj, h5py.Group):
                members.append([cps(k), "type", None])
            elif obj.dtype.kind == "O":
                v = obj[()][0]
                members.append([cps(k), "name", cps(v.decode("utf-8") if isinstance(v, bytes) else str(v))])
            elif obj.dtype.kind == "V":
                members.append([cps(k), "blob", list(obj[()].tobytes())])
            else:
                members.append([cps(k), str(obj.dtype), None])
    out = {"live": live, "members": members}
    try:
        with Workspace(path, mode="r") as ws:
            fd = ws.get_entity(uid)[0]
            v = fd.values
            fn = fd.file_name
        out["re"] = None if v is None else list(v)
        out["re_name"] = None if fn is None else cps(fn)
    except Exception as e:  # noqa: BLE001
        out["read_err"] = _err(e)
    return out


def _py_json(v):
    import uuid

    if isinstance(v, dict):
        if "$s" in v:
            return _s(v["$s"])
        if "$f" in v:
            return untok(v["$f"])
        if "$u" in v:
            return uuid.UUID(int=v["$u"])
        if "$bad" in v:
            return b"bytes"
        return {_s(k): _py_json(x) for k, x in v["$d"]}
    if isinstance(v, list):
        return [_py_json(x) for x in v]
    return v


def _canon_json(v):
    """python value -> JSON-safe canonical form with exact floats, code-point strings, insertion order kept"""
    import uuid

    if isinstance(v, dict):
        return {"$d": [[cps(k) if isinstance(k, str) else {"$key": repr(k)}, _canon_json(x)] for k, x in v.items()]}
    if isinstance(v, (list, tuple)):
        return [_canon_json(x) for x in v]
    if isinstance(v, bool) or v is None or isinstance(v, int):
        return v
    if isinstance(v, float):
        return {"$f": tok(v)}
    if isinstance(v, str):
        return {"$s": cps(v)}
    if isinstance(v, uuid.UUID):
        return {"$u": v.int}
    if isinstance(v, bytes):
        return {"$bad": 1}
    return {"$other": type(v).__name__}


def _meta_ops(case):
    return case["ops"] if "ops" in case else [case["value"]]


def _drive_meta(case, path, ws, pts):
    import h5py
    from geoh5py import Workspace

    errs = []
    for v in _meta_ops(case):
        try:
            pts.metadata = _py_json(v)
            errs.append(None)
        except Exception as e:  # noqa: BLE001
            errs.append(_err(e))
    uid = pts.uid
    out = {"errs": errs, "live": _canon_json(pts.metadata)}
    ws.close()
    with h5py.File(path, "r") as h:
        g = h["GEOSCIENCE"]["Objects"]["{%s}" % uid]
        if "Metadata" in g:
            text = g["Metadata"][()][0]
            text = text.decode("utf-8") if isinstance(text, bytes) else str(text)
            out["raw"] = {"ascii": all(ord(c) < 128 for c in text), "value": _canon_json(json.loads(text))}
        else:
            out["raw"] = None
    try:
        with Workspace(path, mode="r") as ws2:
            out["re"] = _canon_json(ws2.get_entity(uid)[0].metadata)
    except Exception as e:  # noqa: BLE001
        out["read_err"] = _err(e)
    return out


def _drive_json(case, path):
    import numpy as np
    from geoh5py import Workspace
    from geoh5py.objects import Points

    with Workspace.create(path) as ws:
        pts = Points.create(ws, vertices=np.zeros((2, 3)))
        try:
            if case["what"] == "comment":
                for text, author in case["comments"]:
                    pts.add_comment(_s(text), _s(author))
                uid = pts.comments.uid
                live = _canon_json(pts.comments.values)
            else:
                return _drive_meta(case, path, ws, pts)
        except Exception as e:  # noqa: BLE001
            return {"store_err": _err(e), "msg": str(e)[:160]}
    import h5py

    with h5py.File(path, "r") as h:
        ds = h["GEOSCIENCE"]["Data" if case["what"] == "comment" else "Objects"]["{%s}" % uid]["Data" if case["what"] == "comment" else "Metadata"]
        text = ds[()][0]
        text = text.decode("utf-8") if isinstance(text, bytes) else str(text)
        raw = {"ascii": all(ord(c) < 128 for c in text), "value": _canon_json(json.loads(text))}
    try:
        with Workspace(path, mode="r") as ws:
            ent = ws.get_entity(uid)[0]
            re = _canon_json(ent.values if case["what"] == "comment" else ent.metadata)
    except Exception as e:  # noqa: BLE001
        return {"live": live, "raw": raw, "read_err": _err(e)}
    return {"live": live, "raw": raw, "re": re}


def drive_one(case, work):
    import os

    path = os.path.join(work, "c08.geoh5")
    if os.path.exists(path):
        os.remove(path)
    try:
        return {"num": _drive_num, "text": _drive_text, "map": _drive_map, "blob": _drive_blob, "json": _drive_json}[case["kind"]](case, path)
    finally:
        if os.path.exists(path):
            os.remove(path)


# ----------------------------------------------------------------------------- Coq case terms
def cN(n):
    return "%d%%N" % n


def cbytes(b):
    return clist(cN(x) for x in b)


def cerr(name):
    return ERRS.get(name)


def _arr_term(case):
    dt, vals = case["dtype"], case["vals"]
    if dt in IDT:
        return "(AInt %s %s)" % (COQ_IDT[dt], clist(cz(int(v)) for v in vals))
    if dt in FDT:
        return "(AFlt %s %s)" % (COQ_FDT[dt], clist(ctok(v) for v in vals))
    if dt == "complex128":
        return "(ACplx %s)" % clist("(%s, %s)" % (ctok(v[0]), ctok(v[1])) for v in vals)
    if dt == "bool":
        return "(ABool %s)" % clist(cbool(bool(v)) for v in vals)
    return "AObj"


def _vals_term(o):
    if o is None or o.get("v") is None:
        return None
    t, v = o["t"], o["v"]
    if t == "bool":
        return "(VB %s)" % clist(cbool(x) for x in v)
    if t == "int32":
        return "(VI %s)" % clist(cz(x) for x in v)
    if t == "float64":
        return "(VF %s)" % clist(ctok(x) for x in v)
    return None


def _raw_term(o):
    if o is None or o.get("v") is None or len(o.get("shape", [0])) != 1:
        return None
    t, v = o["t"], o["v"]
    if t == "int8":
        return "(RI8 %s)" % clist(cz(x) for x in v)
    if t == "int32":
        return "(RI32 %s)" % clist(cz(x) for x in v)
    if t == "float64":
        return "(RF64 %s)" % clist(ctok(x) for x in v)
    return None


def _num_term(case, obs):
    if case["dtype"] == "uint64" and case["cls"] in ("INTEGER", "REFERENCED") and MODEL_VER == "Old" \
            and any(abs(int(v)) > 2**53 for v in case["vals"]):
        return None  # float64 rounding of a padded uint64 array is not modelled in the pre-repair model
    av = "%s %s" % ("AVertex" if case["assoc"] == "VERTEX" else "AObject", cnat(case["n"] if case["assoc"] == "VERTEX" else 1))
    if case["typed"]:
        if case.get("shape") is not None:
            head = "agree_num_nd %s %s %s %s %s" % (MODEL_VER, COQ_CLS[case["cls"]], av, clist(cnat(k) for k in case["shape"]), _arr_term(case))
        else:
            head = "agree_num %s %s %s %s" % (MODEL_VER, COQ_CLS[case["cls"]], av, _arr_term(case))
    else:
        if case.get("shape") == []:
            return None
        head = "agree_untyped %s %s %s" % (MODEL_VER, av, _arr_term(case))  # validate_data_type infers the class from the dtype, or refuses
    if "store_err" in obs:
        e = cerr(obs["store_err"])
        return "false" if e is None else "%s (OStoreErr %s)" % (head, e)
    live, raw = _vals_term(obs["live"]), _raw_term(obs["raw"])
    if live is None or raw is None:
        return "false"
    if "read_err" in obs:
        e = cerr(obs["read_err"])
        return "false" if e is None else "%s (OReadErr %s %s %s)" % (head, live, raw, e)
    re = _vals_term(obs["re"])
    if re is None:
        return "false"
    return "%s (ODone %s %s %s)" % (head, live, raw, re)


def _tval_term(o):
    if o is None or o.get("v") is None:
        return None
    if o["t"] == "str":
        return "(TVStr %s)" % cbytes(o["v"])
    if o["t"] == "U":
        return "(TVArrU %s)" % clist(cbytes(s) for s in o["v"])
    if o["t"] == "S":
        return "(TVArrS %s)" % clist(cbytes(s) for s in o["v"])
    return None


def _text_term(case, obs):
    form, val = case["form"], case["val"]
    x = {"str": lambda: "(TStr %s)" % cbytes(val), "bytes": lambda: "(TBytes %s)" % cbytes(val),
         "arrU": lambda: "(TArrU %s)" % clist(cbytes(s) for s in val), "arrS": lambda: "(TArrS %s)" % clist(cbytes(s) for s in val),
         "other": lambda: "TOther"}[form]()
    head = "%s %s %s %s" % (MODEL_VER, "AVertex" if case["assoc"] == "VERTEX" else "AObject", cnat(case["n"] if case["assoc"] == "VERTEX" else 1), x)
    if "store_err" in obs:
        e = cerr(obs["store_err"])
        return "false" if e is None else "agree_text %s (TOStoreErr %s)" % (head, e)
    live = _tval_term(obs["live"])
    if live is None or obs["raw"]["kind"] not in ("vlen", "fixed"):
        return "false"
    raw = "(%s %s)" % ("RTVlen" if obs["raw"]["kind"] == "vlen" else "RTFixed", clist(cbytes(b) for b in obs["raw"]["v"]))
    if "read_err" in obs:
        e = cerr(obs["read_err"])
        return "false" if e is None else "agree_text %s (TOReadErr %s %s %s)" % (head, live, raw, e)
    re = _tval_term(obs["re"])
    if re is None:
        return "false"
    return "agree_text %s (TODone %s %s %s)" % (head, live, raw, re)


def _ckey(k):
    kid = key_id(k)
    return "KBad" if kid[0] == "bad" else "(KInt %s)" % cz(kid[1])


def _clab(v):
    return "LBad" if isinstance(v, dict) else "(LStr %s)" % cbytes(v)


def _cdict(d):
    return clist("(%s, %s)" % (_ckey(k), _clab(v)) for k, v in d)


def _crmap(m):
    if m is None or any(not isinstance(k, int) or not isinstance(v, list) for k, v in m):
        return None
    return clist("(%s, %s)" % (cz(k), cbytes(v)) for k, v in m)


def _map_term(case, obs):
    head = "%s %s %s" % (MODEL_VER, _cdict(case["d"]), _cdict(case["ops"]))
    if "mk_err" in obs:
        e = cerr(obs["mk_err"])
        return "false" if e is None else "agree_map %s (MOMkErr %s)" % (head, e)
    m = _crmap(obs["map"])
    if m is None:
        return "false"
    es = clist("None" if e is None else "(Some %s)" % (cerr(e) or "TypeErr") for e in obs["errs"])
    if any(e is not None and cerr(e) is None for e in obs["errs"]):
        return "false"
    if "write_err" in obs:
        e = cerr(obs["write_err"])
        return "false" if e is None else "agree_map %s (MOWriteErr %s %s %s)" % (head, m, es, e)
    rows = _crmap(obs["rows"])
    if rows is None:
        return "false"
    if "read_err" in obs:
        e = cerr(obs["read_err"])
        return "false" if e is None else "agree_map %s (MOReadErr %s %s %s %s)" % (head, m, es, rows, e)
    re = _crmap(obs["re"])
    if re is None:
        return "false"
    t = "agree_map %s (MODone %s %s %s %s)" % (head, m, es, rows, re)
    if case.get("vals"):
        live, raw, vre = _vals_term(obs.get("vlive")), _raw_term({**obs.get("vraw", {}), "shape": [len(case["vals"])]}), _vals_term(obs.get("vre"))
        if live is None or raw is None or vre is None:
            return "false"
        t = "agree_ref %s AVertex %s (AInt I32 %s) (MODone %s %s %s %s) (ODone %s %s %s)" % (
            head, cnat(len(case["vals"])), clist(cz(v) for v in case["vals"]), m, es, rows, re, live, raw, vre)
    return t


def c08_name_refused(name):
    return name == [] or 0 in name or name == [46]


def _blob_term(case, obs):
    is_data = _s(case["name"]) == "Data"
    x = "FNotBytes" if case["bytes"] is None else "(FBytes %s)" % cbytes(case["bytes"])
    if 47 in case["name"]:
        return None  # an HDF5 path, outside the node model (oracle only)
    if "store_err" in obs:
        e = cerr(obs["store_err"])
        if e is None:
            return "false"
        return "agree_blob_refused %s %s %s" % (cbytes(case["name"]), x, e)
    if case["bytes"] is None or obs["live"] != case["bytes"]:
        return "false"
    ms = []
    for k, kind, v in obs["members"]:
        if kind == "type":
            ms.append("(%s, MType)" % cbytes(k))
        elif kind == "name":
            ms.append("(%s, MName %s)" % (cbytes(k), cbytes(v)))
        elif kind == "blob":
            ms.append("(%s, MBlob %s)" % (cbytes(k), cbytes(v)))
        else:
            return "false"
    if "read_err" in obs:
        e = cerr(obs["read_err"])
        o = None if e is None else "(Err %s)" % e
    elif obs["re"] is None and obs["re_name"] is None:
        o = "(Ok None)"
    elif obs["re"] is None or obs["re_name"] is None:
        o = None
    else:
        o = "(Ok (Some (%s, %s)))" % (cbytes(obs["re_name"]), cbytes(obs["re"]))
    if o is None:
        return "false"
    return "agree_node %s %s %s %s" % (cbytes(case["name"]), x, clist(ms), o)


def _cjv(v):
    """canonical JSON-safe form -> Coq term of type jv (None when not expressible)"""
    if v is None:
        return "JNull"
    if isinstance(v, bool):
        return "(JBool %s)" % cbool(v)
    if isinstance(v, int):
        return "(JInt %s)" % cz(v)
    if isinstance(v, list):
        items = [_cjv(x) for x in v]
        return None if any(i is None for i in items) else "(JList %s)" % clist(items)
    if "$s" in v:
        return "(JStr %s)" % cbytes(v["$s"])
    if "$f" in v:
        return "(JFlt %d%%N)" % fbits(untok(v["$f"]))
    if "$u" in v:
        return "(JUuid %d%%N)" % v["$u"]
    if "$bad" in v:
        return "JBad"
    if "$d" in v:
        items = []
        for k, x in v["$d"]:
            t = _cjv(x)
            if t is None or not isinstance(k, list):
                return None
            items.append("(%s, %s)" % (cbytes(k), t))
        return "(JDict %s)" % clist(items)
    return None


def copt_term(t):
    return None if t is None else "(Some %s)" % t


def _has_unicode_digit_or_space(v):
    if isinstance(v, dict):
        if "$s" in v:
            return any(c > 127 and (chr(c).isdecimal() or chr(c).isspace()) for c in v["$s"])
        if "$d" in v:
            return any(_has_unicode_digit_or_space(x) for _, x in v["$d"])
        return False
    if isinstance(v, list):
        return any(_has_unicode_digit_or_space(x) for x in v)
    return False


def _json_term(case, obs):
    if case["what"] == "meta":
        ops = [_cjv(v) for v in _meta_ops(case)]
        if any(o is None for o in ops) or _has_unicode_digit_or_space(_meta_ops(case)):
            return None  # non-ASCII digits / blanks: what int() makes of them is not modelled
        if "store_err" in obs or (obs["raw"] is not None and not obs["raw"]["ascii"]):
            return "false"
        if any(e is not None and cerr(e) is None for e in obs["errs"]):
            return "false"
        es = clist("None" if e is None else "(Some %s)" % cerr(e) for e in obs["errs"])
        live = "None" if obs["live"] is None else copt_term(_cjv(obs["live"]))
        w = "None" if obs["raw"] is None else copt_term(_cjv(obs["raw"]["value"]))
        if live is None or w is None:
            return "false"
        if "read_err" in obs:
            e = cerr(obs["read_err"])
            o = None if e is None else "(Err %s)" % e
        else:
            r = "JNull" if obs["re"] is None else _cjv(obs["re"])
            o = None if r is None else "(Ok %s)" % r
        if o is None:
            return "false"
        return "agree_meta_run %s %s %s %s %s %s" % (MODEL_VER, clist(ops), es, live, w, o)
    # comments: the records the API built (author, date, text) are the model's input
    if "store_err" in obs:
        return "false"
    l = _cjv(obs["live"])
    w = _cjv(obs["raw"]["value"])
    if l is None or w is None or not l.startswith("(JList ") or not obs["raw"]["ascii"]:
        return "false"
    l = l[len("(JList "):-1]
    if "read_err" in obs:
        e = cerr(obs["read_err"])
        return "false" if e is None else "agree_comments %s (Some %s) (Err %s)" % (l, w, e)
    r = _cjv(obs["re"])
    return "false" if r is None else "agree_comments %s (Some %s) (Ok %s)" % (l, w, r)


def case_term(case, obs):
    k = case["kind"]
    if k == "num":
        return _num_term(case, obs)
    if k == "text":
        return _text_term(case, obs)
    if k == "map":
        return _map_term(case, obs)
    if k == "blob":
        return _blob_term(case, obs)
    return _json_term(case, obs)


def model_term(case):
    k = case["kind"]
    if k == "num" and (case["typed"] or case["dtype"] in IDT or case["dtype"] in FDT or case["dtype"] == "bool"):
        return "run_num_nd %s %s %s %s %s %s" % (MODEL_VER, COQ_CLS[case["cls"]], "AVertex" if case["assoc"] == "VERTEX" else "AObject",
                                                 cnat(case["n"] if case["assoc"] == "VERTEX" else 1),
                                                 clist(cnat(k) for k in (case.get("shape") if case.get("shape") is not None else [len(case["vals"])])),
                                                 _arr_term(case))
    if k == "map":
        return "run_map utf8_enc utf8_dec %s %s %s" % (MODEL_VER, _cdict(case["d"]), _cdict(case["ops"]))
    if k == "json" and case["what"] == "meta" and all(_cjv(v) is not None for v in _meta_ops(case)):
        return "(let (st, es) := meta_run %s mfresh %s in (es, mem st, file st, meta_reopen st))" % (MODEL_VER, clist(_cjv(v) for v in _meta_ops(case)))
    if k == "blob" and case["bytes"]:
        return "(node_write node0 %s %s, node_read (node_write node0 %s %s))" % ((cbytes(case["name"]), cbytes(case["bytes"])) * 2)
    return None


# ----------------------------------------------------------------------------- oracle (property text; independent of the model)
def _dec_el(case, v):
    dt = case["dtype"]
    if dt in IDT:
        return int(v)
    if dt in FDT:
        return untok(v)
    if dt == "complex128":
        return (untok(v[0]), untok(v[1]))
    if dt == "bool":
        return bool(v)
    return None


def _expected_el(cls, x):
    """the token/int/bool a representable element must read back as"""
    if isinstance(x, tuple):
        if x[0] != x[0] or x[1] != x[1]:
            x = math.nan
        else:
            x = x[0]
    if cls == "FLOAT":
        return tok(float(x))
    if isinstance(x, float) and x != x:
        return INT_MIN if cls != "BOOLEAN" else False
    return int(x) if cls != "BOOLEAN" else bool(x)


def _oracle_num(case, obs):
    fails = []
    cls, dt = case["cls"], case["dtype"]
    nv = case["n"] if case["assoc"] == "VERTEX" else 1
    els = [_dec_el(case, v) for v in case["vals"]]
    unsupported = dt in ("object", "str")
    bad = [x for x in els if x is not None and not representable(cls, x)]
    too_long = len(els) > nv and case["assoc"] != "OBJECT"
    accepted = "store_err" not in obs
    if not accepted:
        return fails  # a refusal never alters a value (refusals of representable input are counted in the histogram)
    if unsupported:
        return [{"key": "unsupported-type-accepted", "what": f"{dt} array accepted as {cls}"}]
    if too_long:
        fails.append({"key": "too-long-accepted", "what": f"{len(els)} values accepted for {nv} {case['assoc']} slots"})
        return fails
    if bad:
        b = bad[0]
        if isinstance(b, tuple):
            key = "complex-imag-dropped"
        elif cls in ("INTEGER", "REFERENCED") and (isinstance(b, int) or (b == b and b not in (math.inf, -math.inf) and float(b).is_integer())):
            key = "int32-wrap"
        elif cls in ("INTEGER", "REFERENCED") and b in (math.inf, -math.inf):
            key = "int32-wrap"
        elif cls == "BOOLEAN":
            key = "bool-non01-accepted"
        elif cls == "FLOAT":
            key = "float-int-precision"
        else:
            key = "fraction-accepted"
        fails.append({"key": key, "what": f"unrepresentable element {b!r} of a {dt} array accepted as {cls}; live={obs['live']['v']}"})
        return fails
    gap = {"FLOAT": "nan", "INTEGER": INT_MIN, "REFERENCED": INT_MIN, "BOOLEAN": False}[cls]
    exp = [_expected_el(cls, x) for x in els]
    if len(exp) < nv:
        exp = exp + [gap] * (nv - len(exp))
    want_t = {"FLOAT": "float64", "INTEGER": "int32", "REFERENCED": "int32", "BOOLEAN": "bool"}[cls]
    if obs["live"]["t"] != want_t or obs["live"]["v"] != exp:
        fails.append({"key": "live-value-differs", "what": f"values right after the write {obs['live']} differ from the written {exp}"})
    raw_t = {"FLOAT": "float64", "INTEGER": "int32", "REFERENCED": "int32", "BOOLEAN": "int8"}[cls]
    raw_exp = [("ndv" if e == "nan" else e) if cls == "FLOAT" else int(e) for e in exp]
    if obs["raw"]["t"] != raw_t or obs["raw"]["v"] != raw_exp or obs["raw"].get("shape") != [len(exp)]:
        fails.append({"key": "raw-dataset-differs", "what": f"dataset {obs['raw']} expected {raw_t} {raw_exp}"})
    if "read_err" in obs:
        fails.append({"key": "unreadable-after-write", "what": f"re-open raised {obs['read_err']}"})
        return fails
    re_exp = [("nan" if e == "ndv" else e) for e in exp] if cls == "FLOAT" else exp  # the documented exception: the sentinel itself
    if obs["re"]["t"] != want_t or obs["re"]["v"] != re_exp:
        fails.append({"key": "reopened-value-differs", "what": f"values after re-open {obs['re']} differ from the written {re_exp}"})
    return fails


def _utf8_ok(cp):
    return all((0 < c < 0xD800) or (0xDFFF < c < 0x110000) for c in cp)


def _oracle_text(case, obs):
    form, val = case["form"], case["val"]
    if "store_err" in obs:
        return []
    nv = case["n"] if case["assoc"] == "VERTEX" else 1
    if form == "other":
        return [{"key": "unsupported-type-accepted", "what": f"{val} accepted as text"}]
    if form == "str":
        items = [val]
    elif form == "bytes":
        try:
            items = [cps(bytes(val).decode("utf-8"))]
        except UnicodeDecodeError:
            return [{"key": "text-invalid-utf8-accepted", "what": "bytes that are not UTF-8 accepted as text"}]
    elif form == "arrU":
        items = val
    else:
        try:
            items = [cps(bytes(b).decode("utf-8")) for b in val]
        except UnicodeDecodeError:
            return [{"key": "text-invalid-utf8-accepted", "what": "'S' array with bytes that are not UTF-8 accepted as text"}]
    if form in ("arrU", "arrS") and len(items) > nv and case["assoc"] != "OBJECT":
        return [{"key": "text-too-long-accepted", "what": f"{len(items)} strings accepted for {nv} vertices"}]
    if any(not _utf8_ok(s) for s in items):
        return [{"key": "text-unencodable-accepted", "what": "string with a surrogate or NUL accepted"}]
    fails = []
    raw_exp = [list(_s(s).encode("utf-8")) for s in items]
    if obs["raw"]["v"] != raw_exp:
        fails.append({"key": "raw-text-differs", "what": f"dataset bytes {obs['raw']['v']} expected {raw_exp}"})
    if "read_err" in obs:
        return fails + [{"key": "unreadable-after-write", "what": f"re-open raised {obs['read_err']}"}]
    re = obs["re"]
    got = [re["v"]] if re["t"] == "str" else re["v"]
    if got != items:
        fails.append({"key": "reopened-text-differs", "what": f"text after re-open {got} differs from {items}"})
    return fails


def _oracle_map(case, obs):
    boolmap = {0: cps("False"), 1: cps("True")}

    def valid(k, v, cur):
        kid = key_id(k)
        if kid[0] != "i" or isinstance(v, dict):
            return False
        if kid[1] < 0 or kid[1] > 2**32 - 1:
            return False
        return not (kid[1] == 0 and v != cps("Unknown"))

    d = case["d"]
    as_dict = {key_id(k)[1]: v for k, v in d if key_id(k)[0] == "i" and not isinstance(v, dict)}
    is_bool = len(as_dict) == len(d) == 2 and as_dict == boolmap
    if "mk_err" in obs:
        return []
    if not is_bool and not all(valid(k, v, None) for k, v in d):
        badk = [k for k, v in d if not valid(k, v, None)][0]
        kid = key_id(badk)
        key = "value-map-key-wrap" if kid[0] == "i" and kid[1] > 2**32 - 1 else "value-map-invalid-accepted"
        return [{"key": key, "what": f"value map with invalid entry for key {badk} accepted"}]
    exp = dict(as_dict)
    if not is_bool and 0 not in exp:
        exp[0] = cps("Unknown")
    fails = []
    for (k, v), e in zip(case["ops"], obs["errs"]):
        frozen = exp == boolmap
        if e is None:
            if frozen:
                fails.append({"key": "boolean-map-modified", "what": "assignment into the boolean map accepted"})
            elif not valid(k, v, exp):
                kid = key_id(k)
                key = "value-map-key-wrap" if kid[0] == "i" and kid[1] > 2**32 - 1 else "value-map-invalid-accepted"
                fails.append({"key": key, "what": f"assignment [{k}] = {v} accepted"})
                return fails
            else:
                exp[key_id(k)[1]] = v
    got = {k: v for k, v in obs["map"]}
    if got != exp:
        fails.append({"key": "live-map-differs", "what": f"map {got} expected {exp}"})
    if exp != boolmap and exp.get(0) != cps("Unknown"):
        fails.append({"key": "key0-not-unknown", "what": "expected map itself lacks 0 (oracle bug)"})
    if "write_err" in obs:
        if all(_utf8_ok(v) for v in exp.values()):
            fails.append({"key": "valid-map-not-written", "what": f"writing raised {obs['write_err']}"})
        return fails
    if any(not _utf8_ok(v) for v in exp.values()):
        return fails + [{"key": "text-unencodable-accepted", "what": "label with a surrogate or NUL written"}]
    rows = obs.get("rows") or []
    if sorted((k, tuple(v)) for k, v in rows) != sorted((k, tuple(_s(v).encode("utf-8"))) for k, v in exp.items()):
        fails.append({"key": "raw-map-differs", "what": f"'Value map' rows {rows} expected {sorted(exp.items())}"})
    if "read_err" in obs:
        return fails + [{"key": "unreadable-after-write", "what": f"re-open raised {obs['read_err']}"}]
    re = {k: v for k, v in obs["re"]}
    if re != exp:
        fails.append({"key": "reopened-map-differs", "what": f"map after re-open {re} expected {exp}"})
    if exp != boolmap and re.get(0) != cps("Unknown"):
        fails.append({"key": "key0-not-unknown", "what": f"key 0 reads {re.get(0)}"})
    if case.get("vals"):
        # the referenced values are what was written, whether or not the map has a label for them
        want = {"t": "int32", "v": list(case["vals"])}
        for tag in ("vlive", "vraw", "vre"):
            if obs.get(tag) != want:
                fails.append({"key": "referenced-values-differ", "what": f"{tag} {obs.get(tag)} expected {want['v']} (map keys {sorted(exp)})"})
                break
    return fails


def _oracle_blob(case, obs):
    if "store_err" in obs:
        return []
    if case["bytes"] is None:
        return [{"key": "unsupported-type-accepted", "what": "str accepted as file content"}]
    fails = []
    name = _s(case["name"])
    if obs["live"] != case["bytes"]:
        fails.append({"key": "live-value-differs", "what": "blob right after the write differs"})
    kinds = {_s(k): (kind, v) for k, kind, v in obs["members"]}
    if "read_err" in obs:
        key = "file-named-Type" if name == "Type" and kinds.get("Type", ("", None))[0] == "blob" else \
            "file-named-absolute-path" if name.startswith("/") and obs["read_err"] == "FileNotFoundError" else "unreadable-after-write"
        return fails + [{"key": key, "what": f"file {name!r}: re-open raised {obs['read_err']}; node members {sorted(kinds)}"}]
    if "/" in name and obs["re"] == case["bytes"] and obs["re_name"] == case["name"]:
        return fails  # stored as an HDF5 path and read back exactly
    if obs["re"] != case["bytes"] or obs["re_name"] != case["name"]:
        key = "file-named-Data" if name == "Data" and obs["re"] is None and sorted(kinds) == ["Data", "Type"] and kinds["Data"][0] == "blob" \
            else "reopened-blob-differs"
        fails.append({"key": key, "what": f"file {name!r}: content after re-open {obs['re']} / name {obs['re_name']}, written {case['bytes']}"})
    elif kinds.get(name) != ("blob", case["bytes"]) or kinds.get("Data") != ("name", case["name"]) or kinds.get("Type", ("",))[0] != "type":
        fails.append({"key": "raw-dataset-differs", "what": f"node {obs['members']}"})
    return fails


def _lookalike(v):
    """does uuid.UUID(str(v)) succeed (CPython's own test, independent of the model)"""
    import uuid

    if isinstance(v, dict) and "$s" in v:
        t = _s(v["$s"])
    elif isinstance(v, int) and not isinstance(v, bool):
        t = str(v)
    else:
        return None
    try:
        return uuid.UUID(t).int
    except ValueError:
        return None


def _predict_meta(v):
    """what the two recorded metadata findings predict: (value, set of finding keys that applied)"""
    import uuid

    used = set()

    def braced(u):
        return {"$s": cps("{" + str(uuid.UUID(int=u)) + "}")}

    def deep(x):  # positions the reader never maps back
        if isinstance(x, dict) and "$u" in x:
            used.add("metadata-uuid-not-restored")
            return braced(x["$u"])
        if isinstance(x, dict) and "$d" in x:
            return {"$d": [[k, deep(y)] for k, y in x["$d"]]}
        if isinstance(x, list):
            return [deep(y) for y in x]
        return x

    def slot(x):  # a value the reader passes through str2uuid
        if isinstance(x, dict) and "$u" in x:
            return x
        u = _lookalike(x)
        if u is not None:
            used.add("metadata-uuid-lookalike")
            return {"$u": u}
        return deep(x)

    out = []
    for k, x in v["$d"]:
        if isinstance(x, dict) and "$d" in x:
            out.append([k, {"$d": [[k2, slot(y)] for k2, y in x["$d"]]}])
        else:
            out.append([k, slot(x)])
    return {"$d": out}, used


def _oracle_json(case, obs):
    if "store_err" in obs:
        return []
    if case["what"] == "comment":
        for tag in ("live", "re"):
            if tag not in obs:
                return [{"key": "unreadable-after-write", "what": f"re-open raised {obs.get('read_err')}"}]
            v = obs[tag]
            ok = isinstance(v, list) and len(v) == len(case["comments"])
            if ok:
                for rec, (text, author) in zip(v, case["comments"]):
                    d = dict((_s(k), x) for k, x in rec["$d"]) if isinstance(rec, dict) and "$d" in rec else {}
                    ok = ok and [_s(k) for k, _ in rec.get("$d", [])] == ["Author", "Date", "Text"] \
                        and d.get("Text") == {"$s": text} and d.get("Author") == {"$s": author}
            if not ok:
                return [{"key": "comment-differs", "what": f"{tag} comments {v}"}]
        if obs["live"] != obs["re"]:
            return [{"key": "comment-differs", "what": "comments after re-open differ from the live ones (date?)"}]
        return []
    # one session: dict assignments merge (top level), None clears, anything json cannot carry (and any non-dict) must be
    # refused and must then change nothing
    def encodable(v):
        if isinstance(v, dict):
            if "$bad" in v or "$other" in v:
                return False
            if "$d" in v:
                return all(encodable(x) for _, x in v["$d"])
            return True
        if isinstance(v, list):  # dict_mapper maps identifiers one level into a list only
            return all(encodable(x) and not (isinstance(x, list) and _has_uuid(x)) and not (isinstance(x, dict) and "$d" in x and _has_uuid(x)) for x in v)
        return True

    exp = None
    fails = []
    seen_ops = []
    for v, e in zip(_meta_ops(case), obs["errs"]):
        seen_ops.append(v)
        if v is None:
            if e is not None:
                fails.append({"key": "metadata-none-refused", "what": f"None raised {e}"})
            exp = None
        elif isinstance(v, dict) and "$d" in v and encodable(v):
            if e is not None:
                # after a refusal that was not atomic the entity holds the refused value and every later assignment fails too
                after_refusal = any(x is not None for x in obs["errs"][:len(seen_ops) - 1])
                fails.append({"key": "metadata-refusal-not-atomic" if after_refusal else "metadata-valid-refused",
                              "what": f"{json.dumps(v)[:200]} raised {e}"})
            else:
                cur = {tuple(k): x for k, x in (exp["$d"] if exp else [])}
                for k, x in v["$d"]:
                    cur[tuple(k)] = x
                exp = {"$d": [[list(k), x] for k, x in cur.items()]}
        elif e is None:
            fails.append({"key": "unsupported-type-accepted", "what": f"metadata {json.dumps(v)[:200]} accepted"})
            return fails
    if obs["live"] != exp:
        refused = any(e is not None for e in obs["errs"])
        fails.append({"key": "metadata-refusal-not-atomic" if refused else "live-value-differs",
                      "what": f"entity.metadata {json.dumps(obs['live'])[:300]} expected {json.dumps(exp)[:300]} (errors {obs['errs']})"})
    if "re" not in obs:
        return fails + [{"key": "unreadable-after-write", "what": f"re-open raised {obs.get('read_err')}"}]
    if obs["re"] != exp:
        pred, used = _predict_meta(exp) if exp else (None, set())
        if exp and obs["re"] == pred and used:
            for k in sorted(used):
                fails.append({"key": k, "what": f"metadata after re-open {json.dumps(obs['re'])[:300]} written {json.dumps(exp)[:300]}"})
        elif any(e is not None for e in obs["errs"]):
            if not any(f["key"] == "metadata-refusal-not-atomic" for f in fails):
                fails.append({"key": "metadata-refusal-not-atomic",
                              "what": f"after a refused assignment the stored metadata are {json.dumps(obs['re'])[:300]}, expected {json.dumps(exp)[:300]}"})
        else:
            fails.append({"key": "reopened-metadata-differs", "what": f"metadata after re-open {json.dumps(obs['re'])[:300]} expected {json.dumps(exp)[:300]}"})
    return fails


def _has_uuid(v):
    if isinstance(v, dict):
        return "$u" in v or ("$d" in v and any(_has_uuid(x) for _, x in v["$d"]))
    if isinstance(v, list):
        return any(_has_uuid(x) for x in v)
    return False


def oracle(case, obs):
    if "crash" in obs:
        return [{"key": "driver-crash", "what": obs["crash"][:300]}]
    return {"num": _oracle_num, "text": _oracle_text, "map": _oracle_map, "blob": _oracle_blob, "json": _oracle_json}[case["kind"]](case, obs)


# ----------------------------------------------------------------------------- evidence helpers
def _big(x):
    if isinstance(x, tuple):
        return any(_big(y) for y in x)
    if isinstance(x, bool):
        return False
    if isinstance(x, int):
        return abs(x) >= 2**31 - 1
    if x != x:
        return True
    return abs(x) >= 2**31 - 1 or (x != 0 and abs(x) < 1e-37)


def nontrivial(case, obs):
    k = case["kind"]
    if "store_err" in obs or "mk_err" in obs or "read_err" in obs or "write_err" in obs:
        return True
    if k == "num":
        els = [_dec_el(case, v) for v in case["vals"]]
        nv = case["n"] if case["assoc"] == "VERTEX" else 1
        return len(els) < nv or any(x is not None and _big(x) for x in els)
    if k == "text":
        v = case["val"]
        flat = v if case["form"] in ("str", "bytes") else [c for s in v for c in s] if isinstance(v, list) else []
        return any(c > 127 for c in flat)
    if k == "map":
        return bool(case["ops"]) or any(isinstance(kk, dict) or kk == 0 or kk >= 2**31 for kk, _ in case["d"])
    if k == "blob":
        return 0 in (case["bytes"] or []) or _s(case["name"]) != "f.dat"
    if case["what"] == "meta":
        return len(json.dumps(_meta_ops(case))) > 40
    return any(any(c > 127 for c in t) for t, _ in case["comments"])


def histogram(cases, obs):
    h = {"kind": {}, "num_class_dtype": {}, "num_profile": {}, "num_length": {}, "num_outcome": {}, "text_form": {}, "text_outcome": {},
         "map_outcome": {}, "map_ops": {}, "blob_outcome": {}, "refused_representable": 0, "via_setter": 0, "num_shape": {}}

    def inc(d, k):
        d[k] = d.get(k, 0) + 1

    for c, o in zip(cases, obs):
        k = c["kind"]
        inc(h["kind"], k)
        out = o.get("store_err") or o.get("mk_err") or ("write:" + o["write_err"] if "write_err" in o else None) or \
            ("read:" + o["read_err"] if "read_err" in o else None) or ("crash" if "crash" in o else "ok")
        if k == "num":
            inc(h["num_class_dtype"], c["cls"] + "/" + c["dtype"])
            inc(h["num_profile"], c["profile"])
            nv = c["n"] if c["assoc"] == "VERTEX" else 1
            inc(h["num_length"], ("short" if len(c["vals"]) < nv else "long" if len(c["vals"]) > nv else "equal") + "/" + c["assoc"])
            inc(h["num_outcome"], out)
            h["via_setter"] += c["via"] == "setter"
            sh = c.get("shape")
            inc(h["num_shape"], "1-d" if sh is None else "0-d" if sh == [] else
                "%d-d %s" % (len(sh), "oversize" if len(c["vals"]) > nv else "fits"))
            els = [_dec_el(c, v) for v in c["vals"]]
            if "store_err" in o and c["dtype"] not in ("object", "str") and all(representable(c["cls"], x) for x in els) \
                    and not (len(els) > nv and c["assoc"] != "OBJECT"):
                h["refused_representable"] += 1
        elif k == "text":
            inc(h["text_form"], c["form"])
            inc(h["text_outcome"], out)
        elif k == "map":
            inc(h["map_outcome"], out)
            inc(h["map_ops"], str(len(c["ops"])))
        elif k == "blob":
            inc(h["blob_outcome"], out)
        else:
            inc(h.setdefault("json_outcome", {}), c["what"] + ("/spiced" if c.get("spice") else "") + ":" + out)
    return h
