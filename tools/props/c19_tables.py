"""C19 table extraction (run on every check): T_reader from the current source by `ast`, the object-class table by
reflection on the source text (no import), and the optional/mandatory table from the format document.

Output: coq/generated/Tables_Reader.v with
  reader_rows    : list (function * site * guard * on-miss * file:line)
  object_classes : list (type uid * class name * name-keyword-first)
  doc_entries    : list (section * name * optional)
"""
from __future__ import annotations

import ast
import re
from pathlib import Path

H5_NAMES = {"h5file", "entity", "type_handle", "h5_handle", "pg_handle", "group", "child_list", "project"}
READER_FUNCS = None  # all fetch_* of H5Reader
WS_FUNCS = ["open", "fetch_or_create_root", "fetch_children", "load_entity", "create_entity", "fetch_values",
            "fetch_array_attribute", "fetch_metadata"]


def _root_name(node):
    while True:
        if isinstance(node, ast.Subscript):
            node = node.value
        elif isinstance(node, ast.Attribute):
            node = node.value
        elif isinstance(node, ast.Call):
            node = node.func
        elif isinstance(node, ast.Name):
            return node.id
        else:
            return None


_LOCAL_H5 = set()      # per function: names assigned from an h5 handle expression (flat = h5file[name][...])
_ALIASES = {}          # per function: names assigned once from a name or a call on names (uid_str = as_str_if_uuid(uid))


def _h5ish(node):
    r = _root_name(node)
    return r in H5_NAMES or r in _LOCAL_H5


def _prepare_function(fn):
    """Collect local handle names and simple aliases so that renaming a local or naming a sub-expression leaves the rows alone."""
    _LOCAL_H5.clear()
    _ALIASES.clear()
    counts = {}
    assigns = []
    for n in ast.walk(fn):
        if isinstance(n, ast.Assign) and len(n.targets) == 1 and isinstance(n.targets[0], ast.Name):
            counts[n.targets[0].id] = counts.get(n.targets[0].id, 0) + 1
            assigns.append((n.lineno, n.targets[0].id, n.value))
    for _, name, value in sorted(assigns, key=lambda t: t[0]):
        if counts[name] != 1 or name in H5_NAMES:
            continue
        if isinstance(value, (ast.Subscript, ast.Call, ast.Attribute)) and _h5ish(value) and not (
                isinstance(value, ast.Subscript) and _is_data_index(value.slice)):
            _LOCAL_H5.add(name)
        elif isinstance(value, ast.Name) or (isinstance(value, ast.Call) and all(isinstance(a, ast.Name) for a in value.args)
                                             and not value.keywords and isinstance(value.func, ast.Name)):
            _ALIASES[name] = value


class _Subst(ast.NodeTransformer):
    def visit_Name(self, node):
        seen = set()
        while isinstance(node, ast.Name) and node.id in _ALIASES and node.id not in seen:
            seen.add(node.id)
            node = _ALIASES[node.id]
        if isinstance(node, ast.Call):
            return ast.Call(func=node.func, args=[self.visit(a) for a in node.args], keywords=[])
        return node


def _norm_key(node):
    import copy

    node = _Subst().visit(copy.deepcopy(node))
    if isinstance(node, ast.Constant) and isinstance(node.value, str):
        return repr(node.value)
    txt = ast.unparse(node)
    if re.search(r"\buid\b|uid_str|pg_uid", txt):
        return "<uid>"
    if re.search(r"\bentity_type\b", txt):
        return "<etype>"
    if re.fullmatch(r"name(\[0\])?", txt):
        return "<top>"
    if re.search(r"\b(label|key|argument|file_name)\b", txt):
        return "<label>"
    return txt


def _is_data_index(sl):
    """[:], [()], [0]: array indexing, not a link lookup"""
    if isinstance(sl, ast.Slice):
        return True
    if isinstance(sl, ast.Tuple) and not sl.elts:
        return True
    if isinstance(sl, ast.Constant) and isinstance(sl.value, int):
        return True
    return False


class _Sites(ast.NodeVisitor):
    def __init__(self, fname, relfile):
        self.fname, self.relfile = fname, relfile
        self.rows = []
        self.try_stack = []  # (handles KeyError?, summary)
        self.seen = {}

    def _add(self, op, keytxt, node, own_guard=None):
        guard, miss = "none", "raises KeyError"
        for catches, summary in reversed(self.try_stack):
            if catches:
                guard, miss = "try", summary
                break
        if own_guard:
            guard, miss = own_guard
        base = f"{op}:{keytxt}"
        n = self.seen.get(base, 0) + 1
        self.seen[base] = n
        site = base if n == 1 else f"{base}#{n}"
        self.rows.append((self.fname, site, guard, miss, f"{self.relfile}:{node.lineno}"))

    def visit_Try(self, node):
        catches = False
        summary = ""
        for h in node.handlers:
            names = []
            if h.type is None:
                names = ["*"]
            elif isinstance(h.type, ast.Tuple):
                names = [ast.unparse(e) for e in h.type.elts]
            else:
                names = [ast.unparse(h.type)]
            if any(n in ("KeyError", "*", "Exception", "LookupError") for n in names):
                catches = True
                summary = "; ".join(ast.unparse(s) for s in h.body)[:60]
        self.try_stack.append((catches, summary))
        if catches:
            # everything inside the swallowing scope that can raise KeyError: link lookups, attribute reads and plain dict
            # subscripts, in source order.  A lookup added to the scope is swallowed together with the ones the handler was
            # written for, so the scope's content is a row of its own.
            self.n_try = getattr(self, "n_try", 0) + 1
            inside = []
            for st in node.body:
                for sub in ast.walk(st):
                    if isinstance(sub, ast.Subscript) and not _is_data_index(sub.slice) and not isinstance(sub.ctx, (ast.Store, ast.Del)):
                        if isinstance(sub.value, ast.Attribute) and sub.value.attr == "attrs":
                            inside.append((sub.lineno, sub.col_offset, "attr:" + _norm_key(sub.slice)))
                        elif _h5ish(sub.value):
                            inside.append((sub.lineno, sub.col_offset, "h5:" + _norm_key(sub.slice)))
                        else:
                            inside.append((sub.lineno, sub.col_offset, "py:" + _norm_key(sub.slice)))
            content = "|".join(t for _, _, t in sorted(inside, key=lambda t: (t[2])))
            self.rows.append((self.fname, f"swallow#{self.n_try}", "try", content[:400], f"{self.relfile}:{node.lineno}"))
        for s in node.body:
            self.visit(s)
        self.try_stack.pop()
        for h in node.handlers:
            for s in h.body:
                self.visit(s)
        for s in node.orelse + node.finalbody:
            self.visit(s)

    def visit_Subscript(self, node):
        self.generic_visit(node)
        if _h5ish(node.value) and not _is_data_index(node.slice) and not isinstance(node.ctx, ast.Store):
            # attrs[...] is an attribute read, not a link lookup; `.attrs` chains are skipped
            if isinstance(node.value, ast.Attribute) and node.value.attr == "attrs":
                return
            self._add("sub", _norm_key(node.slice), node)

    def visit_Call(self, node):
        self.generic_visit(node)
        if isinstance(node.func, ast.Attribute) and node.func.attr == "get" and node.args and _h5ish(node.func.value):
            if isinstance(node.func.value, ast.Attribute) and node.func.value.attr == "attrs":
                return
            self._add("get", _norm_key(node.args[0]), node, own_guard=("get", "None"))

    def visit_Compare(self, node):
        self.generic_visit(node)
        for op, comp in zip(node.ops, node.comparators):
            if isinstance(op, (ast.In, ast.NotIn)) and _h5ish(comp):
                self._add("in", _norm_key(node.left), node, own_guard=("in", "branch skipped"))
            if isinstance(op, (ast.Is, ast.IsNot)) and isinstance(comp, ast.Constant) and comp.value is None \
                    and isinstance(node.left, ast.Name):
                self._add("none", node.left.id, node, own_guard=("handled", "None handled"))

    def visit_Attribute(self, node):
        self.generic_visit(node)
        if isinstance(node.value, ast.Name) and node.value.id == "H5Reader" and self.fname.startswith("Workspace."):
            self._add("ref", "H5Reader." + node.attr, node, own_guard=("handled", "reader function used here"))

    def visit_For(self, node):
        it = node.iter
        if isinstance(it, ast.Call) and isinstance(it.func, ast.Attribute) and it.func.attr == "items" and _h5ish(it.func.value) \
                and not (isinstance(it.func.value, ast.Attribute) and it.func.value.attr == "attrs"):
            self._add("iter", ast.unparse(it.func), node, own_guard=("iter", "absent links are not visited"))
        elif isinstance(it, ast.Name) and (it.id in H5_NAMES or it.id in _LOCAL_H5):
            self._add("iter", it.id, node, own_guard=("iter", "absent links are not visited"))
        self.generic_visit(node)


def _functions(tree, cls):
    for n in tree.body:
        if isinstance(n, ast.ClassDef) and n.name == cls:
            for m in n.body:
                if isinstance(m, ast.FunctionDef):
                    yield m


def _state_rows(fn, fname, relfile):
    """Session state: every `self.<attr> = ...` of the function with the number of conditions/loops it is nested in.  The model
    starts every open from empty registries and, without a Root link, from a root it creates: an assignment that becomes
    conditional (or disappears) lets state of a previous session of the same Workspace object leak into the next."""
    rows, seen = [], {}

    def rec(stmts, depth):
        for st in stmts:
            if isinstance(st, ast.Assign):
                for tg in st.targets:
                    if isinstance(tg, ast.Attribute) and isinstance(tg.value, ast.Name) and tg.value.id == "self":
                        base = f"assign:{tg.attr}"
                        n = seen.get(base, 0) + 1
                        seen[base] = n
                        rows.append((fname, base if n == 1 else f"{base}#{n}", "handled", f"depth={depth}", f"{relfile}:{st.lineno}"))
            for field in ("body", "orelse", "finalbody"):
                sub = getattr(st, field, None)
                if isinstance(sub, list) and sub and isinstance(sub[0], ast.stmt):
                    rec(sub, depth + (0 if isinstance(st, ast.With) else 1))
            for h in getattr(st, "handlers", []) or []:
                rec(h.body, depth + 1)

    rec(fn.body, 0)
    return rows


def reader_rows(repo: Path):
    rows = []
    src = repo / "geoh5py/io/h5_reader.py"
    tree = ast.parse(src.read_text())
    found = set()
    for fn in _functions(tree, "H5Reader"):
        if fn.name.startswith("fetch_"):
            _prepare_function(fn)
            v = _Sites(f"H5Reader.{fn.name}", "geoh5py/io/h5_reader.py")
            for s in fn.body:
                v.visit(s)
            rows += v.rows
            found.add(fn.name)
    src = repo / "geoh5py/workspace/workspace.py"
    tree = ast.parse(src.read_text())
    for fn in _functions(tree, "Workspace"):
        if fn.name in WS_FUNCS:
            _prepare_function(fn)
            v = _Sites(f"Workspace.{fn.name}", "geoh5py/workspace/workspace.py")
            for s in fn.body:
                v.visit(s)
            rows += v.rows
            rows += _state_rows(fn, f"Workspace.{fn.name}", "geoh5py/workspace/workspace.py")
            found.add("ws." + fn.name)
    need = {"fetch_attributes", "fetch_children", "fetch_property_groups", "fetch_type_attributes", "fetch_value_map", "fetch_values",
            "fetch_array_attribute", "fetch_metadata", "fetch_uuids", "fetch_project_attributes", "ws.open", "ws.fetch_or_create_root",
            "ws.fetch_children", "ws.load_entity"}
    missing = need - found
    if missing:
        raise RuntimeError(f"T_reader: functions not found in the source: {sorted(missing)}")
    return rows


# ----------------------------------------------------------------------------- object classes (reflection in a subprocess)
_REFLECT = r"""
import inspect, json, sys
import geoh5py.objects as O
from geoh5py.objects import ObjectBase
out = []
seen = set()
for name, cls in inspect.getmembers(O, inspect.isclass):
    if not issubclass(cls, ObjectBase) or cls is ObjectBase or name in seen:
        continue
    seen.add(name)
    try:
        uid = cls.default_type_uid()
    except Exception:
        uid = None
    if uid is None:
        continue
    first = any("name" in inspect.signature(c.__dict__["__init__"]).parameters
                for c in cls.__mro__ if "__init__" in c.__dict__ and c is not ObjectBase and issubclass(c, ObjectBase))
    out.append(["{" + str(uid) + "}", name, bool(first)])
json.dump(sorted(out), sys.stdout)
"""


def object_classes(repo: Path):
    """(type uid, class name, name-first) for every object class create_object_or_group can pick (members of geoh5py.objects with a
    default_type_uid).  name-first: some __init__ on the way up to ObjectBase takes `name` explicitly, so a missing Name attribute is
    replaced *before* on_file=True reaches the name setter; otherwise ObjectBase appends name=<class name> after on_file=True and
    the setter writes to the file."""
    import json
    import os
    import subprocess

    env = dict(os.environ)
    env["PYTHONPATH"] = str(repo)
    p = subprocess.run(["/venv/bin/python", "-W", "ignore", "-c", _REFLECT], env=env, capture_output=True, text=True, timeout=120)
    if p.returncode != 0:
        raise RuntimeError("object class reflection failed: " + p.stderr[-400:])
    out = [tuple(x) for x in json.loads(p.stdout)]
    if len(out) < 20:
        raise RuntimeError("object class table: fewer than 20 classes with a type uid were found")
    return out


# ----------------------------------------------------------------------------- the format document
DOC_FILES = {
    "workspace": ["hierarchy/workspace.rst"],
    "group": ["hierarchy/groups.rst", "analyst/groups.rst", "giftools/groups.rst", "integrator/groups.rst", "integrator/themes.rst"],
    "object": ["hierarchy/objects.rst", "analyst/objects.rst", "integrator/objects.rst"],
    "data": ["hierarchy/data.rst", "analyst/data.rst", "integrator/data.rst"],
}


def _entries(text):
    """`:Name: header` field-list entries with their indented body."""
    out = []
    lines = text.splitlines()
    i = 0
    while i < len(lines):
        m = re.match(r"^:([A-Za-z][^:]*):\s*(.*)$", lines[i])
        if m:
            name, head = m.group(1).strip(), m.group(2)
            body = []
            j = i + 1
            while j < len(lines) and (lines[j].startswith((" ", "\t")) or not lines[j].strip()):
                if re.match(r"^:([A-Za-z][^:]*):", lines[j].strip()) and lines[j].startswith("    :"):
                    break
                body.append(lines[j])
                j += 1
            out.append((name, head, "\n".join(body)))
            i = j
        else:
            i += 1
    return out


def _optional(head, body):
    t = (head + " " + body).lower()
    return "(optional)" in t or "optional" in head.lower() or "(default)" in head.lower() or "default=" in head.lower() \
        or "required only for" in t


def doc_entries(repo: Path):
    base = repo / "docs/content/geoh5_format"
    table = {}
    for section, files in DOC_FILES.items():
        for rel in files:
            p = base / rel
            if not p.exists():
                continue
            for name, head, body in _entries(p.read_text()):
                if name in ("Data", "Groups", "Objects", "Root", "Types"):  # the workspace hierarchy listing, handled structurally
                    continue
                k = (section, name)
                opt = _optional(head, body)
                table[k] = table.get(k, True) and opt  # mandatory anywhere -> mandatory
    types = (base / "hierarchy/types.rst").read_text()
    parts = re.split(r"^(Group Types|Object Types|Data Types)\n-+\n", types, flags=re.M)
    for i in range(1, len(parts), 2):
        section = {"Group Types": "group_type", "Object Types": "object_type", "Data Types": "data_type"}[parts[i]]
        for name, head, body in _entries(parts[i + 1]):
            k = (section, name)
            table[k] = table.get(k, True) and _optional(head, body)
    if ("workspace", "Version") not in table or ("data_type", "Primitive type") not in table or ("group", "ID") not in table:
        raise RuntimeError("format document: expected entries (Version, Primitive type, ID) were not found")
    return sorted((s, n, o) for (s, n), o in table.items())


# ----------------------------------------------------------------------------- emission
def _cs(s):
    s = "".join(c if 32 <= ord(c) < 127 else "?" for c in s)
    return '"' + s.replace('"', '""') + '"'


def emit(repo: Path, out: Path):
    rows = reader_rows(repo)
    classes = object_classes(repo)
    docs = doc_entries(repo)
    lines = ["(* GENERATED by tools/props/c19_tables.py from the current source; do not edit. *)",
             "From Coq Require Import String List.", "Import ListNotations.", "Local Open Scope string_scope.", "",
             "(* (function, site, guard, on-miss, file:line) *)",
             "Definition reader_rows : list (string * string * string * string * string) := ["]
    lines.append(";\n".join(f"  ({_cs(a)}, {_cs(b)}, {_cs(c)}, {_cs(d)}, {_cs(e)})" for a, b, c, d, e in rows))
    lines += ["].", "", "(* (type uid, class, __init__ takes `name` before **kwargs) *)",
              "Definition object_classes : list (string * string * bool) := ["]
    lines.append(";\n".join(f"  ({_cs(u)}, {_cs(c)}, {'true' if b else 'false'})" for u, c, b in classes))
    lines += ["].", "", "(* (section, name, optional per the format document) *)",
              "Definition doc_entries : list (string * string * bool) := ["]
    lines.append(";\n".join(f"  ({_cs(s)}, {_cs(n)}, {'true' if o else 'false'})" for s, n, o in docs))
    lines += ["]."]
    text = "\n".join(lines) + "\n"
    out.parent.mkdir(parents=True, exist_ok=True)
    if not out.exists() or out.read_text() != text:
        out.write_text(text)
    return {"reader_rows": len(rows), "object_classes": len(classes), "doc_entries": len(docs)}, rows, classes, docs


if __name__ == "__main__":
    import sys

    info, rows, classes, docs = emit(Path(sys.argv[1] if len(sys.argv) > 1 else "/repo"), Path("/verif/coq/generated/Tables_Reader.v"))
    print(info)
    for r in rows:
        print(r)
    for c in classes:
        print(c)
    for d in docs:
        print(d)
