"""C01 — Re-opening a file yields exactly the state built through the API."""
from __future__ import annotations

from props import wsmodel as W

ID = "C01"
PROPERTIES_V = "theories/Properties/C01X.v"
EXTRA_PROPERTIES_V = ["theories/Properties/C01W.v", "theories/Properties/C01T.v"]   # two-workspace world: cross-workspace copies, frame across workspaces
CHUNK = 8  # histories are heavy terms (a dump of tree and file after every op): small case files, evaluated in parallel
CASE_IMPORTS = "From GV Require Import Prelude.Base Model.WsX Model.WsXCheck.\nFrom GV Require Model.WsT Model.WsTCheck."  # typed terms are fully qualified
ALLOWED_AXIOMS: list = []
REFUTED = ["C01_reopen_refuted (full statement: witness ops_stale = re-creation over a stale flat node; open known finding stale-node-reused)", "C01T_reopen_refuted (typed layer: witness ops_stale_type = data created under a caller-supplied type identifier whose node is stale on file; open known finding stale-type-reused)"]
PARTIAL = ["C01_reopen_partial (for ALL histories without re-creation over a stale node (fresh_run): re-open succeeds and yields the live tree up to children order)", "C01_load_rep (the loader rebuilds any represented tree)", "C01T_reopen_partial (typed layer Model/WsT.v: for ALL histories with fresh_types_run, close + open gives every entity its class, type identifier, primitive type and type name)", "C01T_attrs_sync"]
LEVEL_TEXT = ("Unbounded Coq theorems over the workspace/file model: for ALL operation sequences (create, rename, flag, array, move, remove via workspace or parent, "
              "GC-dependent sweeps, close/re-open at any position) that never create an entity over a stale flat node, the file represents the live tree (invariant Rep, "
              "2.5 kLoC of proofs) and a fresh open rebuilds exactly that tree up to children order (C01_reopen_partial); the unrestricted statement is refuted with a "
              "machine-checked witness that is replayed on the implementation (open known finding). Tie: hand model vs. implementation after every op (live tree + raw file dump) "
              "on generated histories, plus an oracle-only stream over property groups, copies, many classes and types.")
TRUSTED = [
    "Coq 8.16.1 kernel + vm_compute (refutation witnesses, correspondence evaluation); Print Assumptions: closed under the global context for every theorem",
    "hand-written model coq/theories/Model/WsX.v (memory tree + geoh5 file as a link graph with addresses; property groups; copies) of Workspace.{create_entity, register, save_entity, update_attribute, remove_entity, remove_recursively, remove_children, remove_none_referents, close, open/fetch_or_create_root/fetch_children/load_entity, copy_to_parent, copy_property_groups, add_or_update_property_group}, ObjectBase.{add_data_to_group, find_or_create_property_group, remove_data_from_groups, copy}, Group.copy, Data.copy, PropertyGroup.{add_properties, remove_properties}, Entity.parent setter, EntityContainer/ObjectBase.{add_children, remove_children}, H5Writer.{save_entity, write_entity, write_to_parent, remove_child, remove_entity, update_field/write_attributes/write_array_attribute/write_data_values}, H5Reader.{fetch_attributes, fetch_children}; tied to the code by comparing, after EVERY operation of generated histories, the live tree and a raw h5py dump of the file with the model (vm_compute)",
    "modelled classes: RootGroup/ContainerGroup, Points, FloatData (one array token each), property groups (identifier, name, ordered members), copies of data/objects/group subtrees within the workspace; types, cross-workspace copies, other classes and concatenated drillholes are outside the Coq model and reach the check through the implementation-side oracle streams only",
    "CPython/weakref/gc: the driver drops its references and runs gc.collect() after every operation, so 'dead' = 'not reachable from the root'; GC placement is represented by the explicit Sweep (listing getter) operations of the history",
    "h5py/HDF5 behaviour (hard links = same object address, member iteration by name, attribute and dataset storage) is observed, not verified",
    "tools/props/wsmodel.py (history generator, driver, canonicalisation of identifiers uuid.UUID(int=n+1) <-> n, raw dump, node digests, structural validator) and tools/props/wsext.py (extended oracle-only histories)",
]
ASSUMPTIONS = [
    "operands are entities currently in the tree (no use-after-remove), identifiers are supplied explicitly so that model and code name entities alike",
    "uuid4 never collides (fresh identifiers)",
]
DRIVE_TIMEOUT = 2400
RULE = ("random API histories (12-30 ops: create group/points/data with explicit identifiers, rename, allow_delete flag, "
        "array assignment, move, remove through the workspace or through the parent, listing getters (= GC-dependent sweeps; "
        "the driver drops its references and collects after every op), identifier re-use on purpose, intermediate close/re-open), "
        "each ending with close + fresh open; after EVERY op the live tree and a raw h5py dump of the file are compared with the "
        "model; non-trivial = the history contains a removal or an identifier re-use")


def generate(rng, tier):
    from props import wsext

    n = 60 if tier == "quick" else 1500
    cases = [{"ops": W.gen_history_x(rng.fork(i), rng.range(12, 26))} for i in range(n)]
    # oracle-only stream: many classes, data kinds, property groups, shared types, multi-child removal, copies, two workspaces
    m = 40 if tier == "quick" else 1000
    cases += [{"ext": True, "ops": wsext.gen_ext_history(rng.fork(5000 + i), rng.range(20, 36))} for i in range(m)]
    # two workspaces with copies between them (identifiers kept when free in the target): compared with the Coq model
    k = 24 if tier == "quick" else 600
    cases += [{"w": True, "ops": W.gen_history_w(rng.fork(9000 + i), rng.range(14, 24))} for i in range(k)]
    # typed layer (Model/WsT.v): entity types under caller-supplied identifiers (shared / swept / stale), compared with the model
    from props import wstypes

    kt = 30 if tier == "quick" else 700
    cases += [{"t": True, "ops": wstypes.gen_history_t(rng.fork(13000 + i), rng.range(12, 24))} for i in range(kt)]
    return cases


def drive_one(case, work):
    if case.get("t"):
        from props import wstypes

        return wstypes.run_history_t(case["ops"], work, "c01t")
    if case.get("ext"):
        from props import wsext

        return wsext.run_ext_history(case["ops"], work, "c01x")
    if case.get("w"):
        return W.run_history_w(case["ops"], work, "c01w")
    return W.run_history_x(case["ops"], work, "c01")


def case_term(case, obs):
    if case.get("t"):
        from props import wstypes

        return wstypes.history_case_term_t(case["ops"], obs["steps"])
    if case.get("ext"):
        return None  # outside the Coq model: evaluated by the oracle only
    if case.get("w"):
        return W.world_case_term(obs["ops_filled"], obs["steps"])
    return W.history_case_term_x(obs["ops_filled"], obs["steps"])


def model_term(case):
    if case.get("ext"):
        return None
    return None


KNOWN_EXT_ERRORS: tuple = ()  # (the two C05 defects that used to raise here were repaired: /repo d375083, 273865f)


def oracle_ext(case, obs):
    fails = []
    for i, (op, st) in enumerate(zip(case["ops"], obs["steps"])):
        oc = str(st["outcome"])
        # an exception inside an operation is other properties' business (C05, C12, ...) as long as the workspace can still be
        # closed and re-opened and the re-opened tree equals the live one; a close / open that raises is C01's
        if oc.startswith("error") and op["op"] == "reopen" and not any(k in oc for k in KNOWN_EXT_ERRORS):
            fails.append({"key": "ext-unexpected-exception", "what": f"op {i} {op}: {oc[:200]}"})
            break
    for k, md in enumerate(obs.get("meta_diffs", [])):
        if md:
            # "nothing the user did is lost": a metadata entry assigned through the setter (which merges) is gone or changed in
            # the live workspace at the next close.  With a copy in the history the recorded C12 defect (a copy shares its
            # source's metadata dict) explains a CHANGED value; a LOST key is never explained by it
            lost = [x for x in md if any(kk not in x["live"] for kk in x["assigned"])]
            shared = not lost and any(o["op"] == "copy" for o in case["ops"])
            fails.append({"key": "copy-shares-metadata-dict" if shared else "metadata-assignment-lost",
                          "what": f"close #{k}: {str(md)[:400]}"})
            return fails
    for k, per_ws in enumerate(obs["reopen_diffs"]):
        for w, d in enumerate(per_ws):
            if d:
                fails.append({"key": _classify_ext_diff(case, obs, d), "what": f"re-open #{k}, workspace {w}: {str(d)[:500]}"})
                return fails
    return fails


def _classify_ext_diff(case, obs, diffs):
    """recorded defect 'stale-type-reused': a data type identifier supplied by the caller returns with another primitive type
    while the dead type's node is still in the file (the Types registry is swept only by ws.types / the next removal)"""
    if all("fields" in x and set(x["fields"]) <= {"metadata"} for x in diffs) and any(o["op"] == "copy" for o in case["ops"]) \
            and any(o["op"] == "meta" for o in case["ops"]):
        # recorded defect (C12 copy-shares-metadata-dict): a copy shares its source's metadata dict; assigning metadata on one
        # of them updates the dict in memory for both but is written for that one only
        return "copy-shares-metadata-dict"
    if all(x.get("fields") == ["values"] and x["live"].get("values") == [] and x["reopened"].get("values") is None for x in diffs) \
            and any(o["op"] == "bad_add" and o["how"] == "empty_text" and st["info"].get("raised") for o, st in zip(case["ops"], obs["steps"])):
        # recorded defect (C07 text-empty-unwritable): add_data with an empty text array raises IndexError in
        # H5Writer.write_data_values AFTER the entity was created and linked; the live object keeps a data child holding [],
        # the file has the node without values
        return "text-empty-unwritable"
    type_fields = {"cls", "primitive", "type_name", "values", "type"}
    if all("fields" in x and set(x["fields"]) <= type_fields for x in diffs):
        uids = {x["uid"] for x in diffs}
        # the entity that differs may be a COPY of the data created under the stale type identifier (thorough run 4): the
        # caller-supplied types are named t<k><PRIMITIVE> by the driver, so the live type name tells which creation to look at
        import re as _re

        named = set()
        for x in diffs:
            m = _re.fullmatch(r"t(\d+)(FLOAT|INTEGER)", str(x.get("live", {}).get("type_name", "")))
            if m:
                named.add((int(m.group(1)), {"FLOAT": "float", "INTEGER": "int"}[m.group(2)]))
        for i, (op, st) in enumerate(zip(case["ops"], obs["steps"])):
            if op["op"] == "add_data" and op.get("type_uid") and st["outcome"] == "done" and \
                    (st["info"].get("target") in uids or (op["type_uid"], op["dtype"]) in named):
                j = i - 1
                listed = False
                # "the removal of the previous user": remove_entity or parent.remove_children (thorough run 2, ext case 2205:
                # the float data holding the identifier was removed through its parent at op 16, the listing was older)
                while j >= 0 and case["ops"][j]["op"] not in ("rm_ws", "rm_children"):
                    if case["ops"][j]["op"] == "listing" and case["ops"][j]["kind"] == "types" and obs["steps"][j]["outcome"] == "done":
                        listed = True
                    j -= 1
                return "stale-type-after-listing" if listed else "stale-type-reused"
    return "ext-reopen-differs"


def _tree(rows):
    return sorted((tuple(r["key"]), r["name"], r["del"], r["arr"], tuple(r["parent"]), tuple(sorted(map(tuple, r["kids"]))),
                   tuple(sorted((g[0], g[1], tuple(map(tuple, g[2]))) for g in r.get("pgs", []))))
                  for r in rows)


def oracle(case, obs):
    """Property text: at every close + fresh open, the re-opened tree equals the tree the live workspace showed."""
    if "crash" in obs:
        return [{"key": "driver-crash", "what": obs["crash"][:300]}]
    if case.get("t"):
        from props import wstypes

        return wstypes.oracle_c01_t(case["ops"], obs["steps"])
    if case.get("ext"):
        return oracle_ext(case, obs)
    if case.get("w"):
        return oracle_world(case, obs)
    fails = []
    ops, steps = obs.get("ops_filled", case["ops"]), obs["steps"]
    for i, (op, st) in enumerate(zip(ops, steps)):
        if str(st["outcome"]).startswith("error"):
            fails.append({"key": "unexpected-exception", "what": f"op {i} {op}: {st['outcome']}"})
            break
        if op["op"] == "reopen" and i > 0:
            before, after = _tree(steps[i - 1]["mem"]), _tree(st["mem"])
            if before != after:
                lost = [r for r in before if r not in after]
                extra = [r for r in after if r not in before]
                # classify: the recorded defect = an entity created under the identifier of a stale flat node
                reused = _stale_reuse_keys(ops[:i], steps[:i])
                changed = {r[0] for r in lost} | {r[0] for r in extra}
                key = "stale-node-reused" if changed and changed <= _closure(reused, before, after) else "reopen-differs"
                fails.append({"key": key, "what": f"after op {i}: live-only rows {lost[:3]}, reopened-only rows {extra[:3]}"})
                break
    return fails


def oracle_world(case, obs):
    """two workspaces: at every close + fresh open of workspace i, its re-opened tree equals the tree it showed live"""
    ops, steps = obs["ops_filled"], obs["steps"]
    fails = []
    for i, (op, st) in enumerate(zip(ops, steps)):
        if str(st["outcome"]).startswith("error"):
            if op["op"] == "reopen" and W.world_stale_before(ops, steps, i, op["ws"]):
                return [{"key": "stale-node-reused", "what": f"workspace {op['ws']} cannot be re-opened after a stale-node re-use: {st['outcome'][:160]}"}]
            return [{"key": "unexpected-exception", "what": f"op {i} {op}: {st['outcome']}"}]
        if op["op"] == "reopen" and i > 0:
            side = "b" if op["ws"] == 1 else "a"
            before, after = _tree(steps[i - 1][side]["mem"]), _tree(st[side]["mem"])
            if before != after:
                lost = [r for r in before if r not in after]
                extra = [r for r in after if r not in before]
                # recorded defect: an entity created / copied over a flat node that was already in that file
                stale = set()
                for j in range(1, i):
                    o = ops[j]
                    tgt = None
                    if o["op"] == "copy_x" and (1 - o["ws"]) == op["ws"]:
                        tgt = "b" if o["ws"] == 0 else "a"
                    elif o["op"] == "create" and o["ws"] == op["ws"]:
                        tgt = side
                    if tgt:
                        had = {tuple(n["key"]) for n in steps[j - 1][tgt]["file"]["nodes"]}
                        now = {tuple(r["key"]) for r in steps[j][tgt]["mem"]} - {tuple(r["key"]) for r in steps[j - 1][tgt]["mem"]}
                        stale |= (had & now)
                changed = {r[0] for r in lost} | {r[0] for r in extra}
                key = "stale-node-reused" if stale and changed <= _closure(stale, before, after) else "reopen-differs"
                fails.append({"key": key, "what": f"workspace {op['ws']} after op {i}: live-only rows {lost[:2]}, reopened-only rows {extra[:2]}"})
                break
    return fails


def _stale_reuse_keys(ops, steps):
    """keys created while a flat node with that identifier was already in the file (the file dump before the create shows it)"""
    out = set()
    for i, op in enumerate(ops):
        if op["op"] == "create" and i > 0:
            k = [op["kind"], op["n"]]
            if any(n["key"] == k for n in steps[i - 1]["file"]["nodes"]):
                out.add(tuple(k))
    return out


def _closure(keys, before, after):
    """the reused keys, their parents' rows (children lists) and descendants on either side"""
    out = set(keys)
    grew = True
    rows = before + after
    while grew:
        grew = False
        for r in rows:
            if (r[4] in out or any(k in out for k in r[5])) and r[0] not in out:
                out.add(r[0])
                grew = True
    return out


def nontrivial(case, obs):
    if case.get("t"):
        return any(o["op"] in ("rm_ws", "rm_parent", "types") for o in case["ops"]) and any(o["op"] == "create" and o["k"] == "D" for o in case["ops"])
    if case.get("w"):
        return any(o["op"] == "copy_x" for o in case["ops"])
    return any(o["op"] in ("rm_ws", "rm_parent", "rm_children", "copy", "pg") for o in case["ops"])


def histogram(cases, obs):
    h = {"ops": {}, "outcomes": {}, "length": {}, "reuse_histories": 0, "ext_histories": sum(1 for c in cases if c.get("ext"))}
    h["world_histories"] = sum(1 for c in cases if c.get("w"))
    h["typed_histories"] = sum(1 for c in cases if c.get("t"))
    for c, o in zip(cases, obs):
        if not isinstance(o, dict) or c.get("w") or c.get("t"):
            continue
        L = str(len(c["ops"]) // 5 * 5)
        h["length"][L] = h["length"].get(L, 0) + 1
        seen = set()
        for op in c["ops"]:
            h["ops"][op["op"]] = h["ops"].get(op["op"], 0) + 1
            if op["op"] == "create":
                k = (op["kind"], op["n"])
                if k in seen:
                    h["reuse_histories"] += 1
                seen.add(k)
        for st in o.get("steps", []):
            oc = str(st["outcome"]).split(":")[0]
            h["outcomes"][oc] = h["outcomes"].get(oc, 0) + 1
    return h
