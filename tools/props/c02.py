"""C02 — Every file the library writes is a structurally valid geoh5 file."""
from __future__ import annotations

from props import wsmodel as W

ID = "C02"
PROPERTIES_V = "theories/Properties/C02X.v"
EXTRA_PROPERTIES_V = ["theories/Properties/C02W.v", "theories/Properties/C02T.v"]   # two-workspace world: cross-workspace copies, frame across workspaces
CHUNK = 8  # histories are heavy terms (a dump of tree and file after every op): small case files, evaluated in parallel
CASE_IMPORTS = "From GV Require Import Prelude.Base Model.WsX Model.WsXCheck.\nFrom GV Require Model.WsT Model.WsTCheck."  # typed terms are fully qualified
ALLOWED_AXIOMS: list = []
REFUTED = ["C02_valid_refuted (witness ops_orphan: removal through the parent + close leaves an orphan; open known finding)", "C02_close_valid_refuted", "C02_valid_upto_refuted", "C02_step_refuted (witness ops_forgot: a re-open forgets a pending object/data identifier whose node stays)"]
PARTIAL = ["C02_valid_upto_orphans (for ALL fresh histories the file represents the tree up to pending/forgotten orphan nodes of dead objects/data)", "C02_close_valid_partial (Valid at close when only dead groups are pending and no earlier re-open forgot an orphan)", "C02_close_valid_nolinger", "C02_step_partial", "C02_valid_upto_partial", "C02T_run / C02T_type_links_shared (typed layer Model/WsT.v: for ALL histories without entity-node re-use every live entity's Type link is the node stored under its type identifier, no type identifier twice per class container; caller-supplied type identifiers live, swept or stale included)", "C02T_step", "C02T_link_view"]
LEVEL_TEXT = ("Unbounded Coq theorems: Valid f := the file is exactly the encoding of a finite tree with unique identifiers hanging from the Root link (every entity under its own id, every "
              "child entry a hard link to the flat node, one parent each, all reachable, no id twice). For ALL histories without stale re-creation the file is valid up to the orphan nodes of "
              "dead entities (C02_valid_upto_orphans) and valid at close when no object/data orphan lingers (C02_close_valid_*); the full statement is refuted (orphan after removal through the "
              "parent: open known finding). Type links and property-group membership are outside the Coq model: checked at every close by an independent validator (oracle).")
TRUSTED = [
    "Coq 8.16.1 kernel + vm_compute (refutation witnesses, correspondence evaluation); Print Assumptions: closed under the global context for every theorem",
    "hand-written model coq/theories/Model/WsX.v (memory tree + geoh5 file as a link graph with addresses; property groups; copies) of Workspace.{create_entity, register, save_entity, update_attribute, remove_entity, remove_recursively, remove_children, remove_none_referents, close, open/fetch_or_create_root/fetch_children/load_entity, copy_to_parent, copy_property_groups, add_or_update_property_group}, ObjectBase.{add_data_to_group, find_or_create_property_group, remove_data_from_groups, copy}, Group.copy, Data.copy, PropertyGroup.{add_properties, remove_properties}, Entity.parent setter, EntityContainer/ObjectBase.{add_children, remove_children}, H5Writer.{save_entity, write_entity, write_to_parent, remove_child, remove_entity, update_field/write_attributes/write_array_attribute/write_data_values}, H5Reader.{fetch_attributes, fetch_children}; tied to the code by comparing, after EVERY operation of generated histories, the live tree and a raw h5py dump of the file with the model (vm_compute)",
    "modelled classes: RootGroup/ContainerGroup, Points, FloatData (one array token each), property groups (identifier, name, ordered members), copies of data/objects/group subtrees within the workspace; types, cross-workspace copies, other classes and concatenated drillholes are outside the Coq model and reach the check through the implementation-side oracle streams only",
    "CPython/weakref/gc: the driver drops its references and runs gc.collect() after every operation, so 'dead' = 'not reachable from the root'; GC placement is represented by the explicit Sweep (listing getter) operations of the history",
    "h5py/HDF5 behaviour (hard links = same object address, member iteration by name, attribute and dataset storage) is observed, not verified",
    "tools/props/wsmodel.py (history generator, driver, canonicalisation of identifiers uuid.UUID(int=n+1) <-> n, raw dump, node digests, structural validator) and tools/props/wsext.py (extended oracle-only histories)",
]
ASSUMPTIONS = [
    "operands are entities currently in the tree (no use-after-remove), identifiers are supplied explicitly so that model and code name entities alike",
    "uuid4 never collides (fresh identifiers)",
]
DRIVE_TIMEOUT = 2400
RULE = ("random API histories as for C01 (create/rename/flag/array/move/remove via workspace or parent/listing getters/"
        "identifier re-use/close+open), half of them ending with the three listing getters before the final close; after every "
        "op the raw h5py dump of the file (flat nodes, child links with hard-link address test, Root link) is compared with the "
        "model, and at EVERY close an independent validator written from the format description checks the closed file; "
        "non-trivial = the history contains a removal, a move or an identifier re-use")


def generate(rng, tier):
    from props import wsext

    n = 60 if tier == "quick" else 1500
    cases = [{"ops": W.gen_history_x(rng.fork(1000 + i), rng.range(10, 24))} for i in range(n)]
    m = 40 if tier == "quick" else 1000
    cases += [{"ext": True, "ops": wsext.gen_ext_history(rng.fork(6000 + i), rng.range(20, 36))} for i in range(m)]
    k = 20 if tier == "quick" else 500
    cases += [{"w": True, "ops": W.gen_history_w(rng.fork(9500 + i), rng.range(14, 24))} for i in range(k)]
    # typed layer (Model/WsT.v): entity types under caller-supplied identifiers (shared / swept / stale), compared with the model
    from props import wstypes

    kt = 30 if tier == "quick" else 700
    cases += [{"t": True, "ops": wstypes.gen_history_t(rng.fork(13500 + i), rng.range(12, 24))} for i in range(kt)]
    return cases


def drive_one(case, work):
    if case.get("t"):
        from props import wstypes

        return wstypes.run_history_t(case["ops"], work, "c02t")
    if case.get("ext"):
        from props import wsext

        return wsext.run_ext_history(case["ops"], work, "c02x")
    if case.get("w"):
        return W.run_history_w(case["ops"], work, "c02w")
    return W.run_history_x(case["ops"], work, "c02")


def case_term(case, obs):
    if case.get("t"):
        from props import wstypes

        return wstypes.history_case_term_t(case["ops"], obs["steps"])
    if case.get("ext"):
        return None
    if case.get("w"):
        return W.world_case_term(obs["ops_filled"], obs["steps"])
    return W.history_case_term_x(obs["ops_filled"], obs["steps"])


def model_term(case):
    if case.get("ext"):
        return None
    return None


def oracle_ext(case, obs):
    """validator at every close of both workspaces; orphans are the recorded defect only when the node belongs to an
    entity that an earlier remove_children detached (or to a descendant: those carry no parent link from a live node)"""
    detached = set()
    reused = set()   # identifiers detached through a parent and still on file when a later cross-workspace copy re-used them
    for op, st in zip(case["ops"], obs["steps"]):
        if op["op"] == "copy" and op.get("other_ws") and st["outcome"] == "done":
            reused |= detached
        detached.update(st["info"].get("detached", []) or [])
    fails, seen = [], set()
    for per_ws in obs["validations"] + [obs["final_validation"]]:
        for fl in per_ws:
            orphan_nodes = {f["node"].split("/")[1].strip("{}") for f in fl if f["key"].startswith("orphan-")}
            explained = bool(orphan_nodes & detached) or not orphan_nodes
            for f in fl:
                k = f["key"]
                node_uid = f["node"].split("/")[1].strip("{}") if "node" in f else None
                if k.startswith("orphan-") and detached and explained:
                    key = "orphan-after-remove-via-parent"
                elif node_uid in reused and k in ("type-not-shared", "type-link-missing", "child-link-dangling", "parent-count", "child-link-not-hard-link"):
                    # recorded defect (stale-node-reused, copy route): a second cross-workspace copy keeps the identifiers of
                    # entities detached earlier (free in the registry), write_entity returns their stale flat nodes untouched,
                    # whose Type link / child links point at nodes swept meanwhile (thorough run 5)
                    key = "stale-node-reused"
                elif k == "property-group-foreign-data":
                    key = "pg-lists-removed-data"
                else:
                    key = k
                if key not in seen:
                    seen.add(key)
                    fails.append({"key": key, "what": f["what"]})
    return fails


def _removed_via_parent(ops, steps):
    """paths of flat nodes whose entity was detached through its parent (operand and descendants at that time)"""
    out = set()
    for i, op in enumerate(ops):
        if op["op"] == "rm_parent" and i > 0 and steps[i]["outcome"] == "done":
            rows = {tuple(r["key"]): r for r in steps[i - 1]["mem"]}
            stack = [tuple(op["e"])]
            while stack:
                k = stack.pop()
                if k in rows:
                    out.add(k)
                    stack.extend(tuple(c) for c in rows[k]["kids"])
    return out


def _stale_keys(ops, steps):
    out = set()
    for i, op in enumerate(ops):
        if op["op"] == "create" and i > 0:
            k = [op["kind"], op["n"]]
            if any(n["key"] == k for n in steps[i - 1]["file"]["nodes"]):
                out.add(tuple(k))
    return out


def _stale_closure(stale, steps):
    """stale keys plus everything hanging below them through child links in any raw dump of the history"""
    out = set(stale)
    grew = True
    while grew:
        grew = False
        for st in steps:
            for n in st["file"]["nodes"]:
                if tuple(n["key"]) in out:
                    for l in n["links"]:
                        if tuple(l[0]) not in out:
                            out.add(tuple(l[0]))
                            grew = True
    return out


def oracle_world(case, obs):
    """two workspaces: every close of either file is validated; per side the same classification as the single-workspace stream"""
    ops, steps = obs["ops_filled"], obs["steps"]
    for i, st in enumerate(steps):
        if str(st["outcome"]).startswith("error"):
            if ops[i]["op"] == "reopen" and W.world_stale_before(ops, steps, i, ops[i]["ws"]):
                return [{"key": "stale-node-reused", "what": f"workspace {ops[i]['ws']} cannot be re-opened after a stale-node re-use: {st['outcome'][:160]}"}]
            return [{"key": "unexpected-exception", "what": f"op {i} {ops[i]}: {st['outcome']}"}]
    fails, seen = [], set()
    for side_i, side in enumerate(("a", "b")):
        sops = [dict(o) for o in ops]
        ssteps = [{"outcome": st["outcome"], "mem": st[side]["mem"], "file": st[side]["file"]} for st in steps]
        # ops of the other workspace do not touch this side, except copies INTO it, which behave like creations here
        detached, stale = set(), set()
        for j, o in enumerate(sops):
            if j == 0:
                continue
            into = (o["op"] == "copy_x" and (1 - o["ws"]) == side_i) or (o["op"] == "create" and o["ws"] == side_i)
            if into:
                had = {tuple(n["key"]) for n in ssteps[j - 1]["file"]["nodes"]}
                now = {tuple(r["key"]) for r in ssteps[j]["mem"]} - {tuple(r["key"]) for r in ssteps[j - 1]["mem"]}
                stale |= had & now
            if o["op"] == "rm_parent" and o["ws"] == side_i and ssteps[j]["outcome"] == "done":
                rows = {tuple(r["key"]): r for r in ssteps[j - 1]["mem"]}
                stack = [tuple(o["e"])]
                while stack:
                    k = stack.pop()
                    if k in rows:
                        detached.add(k)
                        stack.extend(tuple(c) for c in rows[k]["kids"])
        stale_cl = _stale_closure(stale, ssteps) if stale else set()
        for fl in obs["validations"][side_i] + [obs["final_validation"][side_i]]:
            for f in fl:
                k = f["key"]
                nk = _key_of_path(f["node"]) if "node" in f else None
                if k.startswith("orphan-") and (nk in detached or nk in stale_cl):
                    key = "orphan-after-remove-via-parent"
                elif stale_cl and (nk in stale_cl or k in ("child-link-dangling", "parent-count", "child-link-not-hard-link")):
                    key = "stale-node-reused"
                else:
                    key = k
                if key not in seen:
                    seen.add(key)
                    fails.append({"key": key, "what": f"workspace {side_i}: " + f["what"]})
    return fails


def _key_of_path(path):
    import uuid

    cont, us = path.split("/")[:2]
    try:
        return (W.CONT_INV[cont], uuid.UUID(us).int - 1)
    except Exception:  # noqa: BLE001
        return None


def oracle(case, obs):
    if "crash" in obs:
        return [{"key": "driver-crash", "what": obs["crash"][:300]}]
    if case.get("t"):
        from props import wstypes

        return wstypes.oracle_c02_t(case["ops"], obs["steps"])
    if case.get("ext"):
        return oracle_ext(case, obs)
    if case.get("w"):
        return oracle_world(case, obs)
    ops, steps = obs.get("ops_filled", case["ops"]), obs["steps"]
    for i, st in enumerate(steps):
        if str(st["outcome"]).startswith("error"):
            return [{"key": "unexpected-exception", "what": f"op {i} {ops[i]}: {st['outcome']}"}]
    fails = []
    detached = _removed_via_parent(ops, steps)
    stale = _stale_closure(_stale_keys(ops, steps), steps) if _stale_keys(ops, steps) else set()
    seen = set()
    for fl in obs["validations"] + [obs["final_validation"]]:
        for f in fl:
            k = f["key"]
            nk = _key_of_path(f["node"]) if "node" in f else None
            if k.startswith("orphan-") and nk in detached:
                key = "orphan-after-remove-via-parent"      # recorded defect: flat node of a detached, dead entity never swept
            elif stale and nk is not None and (nk in stale or k in ("child-link-dangling", "parent-count", "child-link-not-hard-link")):
                key = "stale-node-reused"                   # recorded defect: entity created over a stale flat node
            else:
                key = k
            if key not in seen:
                seen.add(key)
                fails.append({"key": key, "what": f["what"]})
    return fails


def nontrivial(case, obs):
    if case.get("t"):
        return any(o["op"] in ("rm_ws", "rm_parent", "types") for o in case["ops"]) and any(o["op"] == "create" and o["k"] == "D" for o in case["ops"])
    if case.get("w"):
        return any(o["op"] == "copy_x" for o in case["ops"])
    return any(o["op"] in ("rm_ws", "rm_parent", "move", "rm_children", "copy", "pg") for o in case["ops"])


def histogram(cases, obs):
    from props import c01

    h = c01.histogram(cases, obs)
    h["closes_validated"] = sum(len(o.get("validations", [])) + 1 for o in obs if isinstance(o, dict) and "steps" in o)
    keys = {}
    def flat(x):
        for y in x:
            if isinstance(y, dict):
                yield y
            elif isinstance(y, list):
                yield from flat(y)

    for o in obs:
        if isinstance(o, dict):
            for f in flat([o.get("validations", []), o.get("final_validation", [])]):
                keys[f["key"]] = keys.get(f["key"], 0) + 1
    h["validator_failures"] = keys
    return h
