"""C16 — Merging preserves every input's geometry and data (shared/merging)."""
from __future__ import annotations

import json

from vlib.common import cbool, clist, cnat, copt, cz

from props import c16_drape as DR

ID = "C16"
PROPERTIES_V = "theories/Properties/C16.v"
EXTRA_PROPERTIES_V = ["theories/Properties/C16D.v"]  # drape models (Model/MergeDrape.v)
CASE_IMPORTS = "From GV Require Import Prelude.Base Model.Merge Model.MergeDrape."
ALLOWED_AXIOMS: list = []
REFUTED = ["C16_old_code_refuted (the pre-repair transcription; the repaired code is what Model/Merge.v follows)",
           "C16D_merge_total_refuted (drape models: a valid single-prism input makes the merger raise IndexError; open finding "
           "drape-merge-single-prism-refused)"]
PARTIAL = ["C16_cells_partial (the code meets the cell specification when every input but the last has its last vertex referenced)",
           "C16_merged_data + C16_merged_data_blank_elsewhere (values at the right offsets and no-data where an input lacks the data set, for all "
           "input lists with distinct labels per input; 'inputs unchanged' is checked by correspondence and oracle only: the model is purely functional)",
           "C16D_merge_total_partial (drape models: the merge of two or more canonical inputs succeeds when every input has at least two prisms; "
           "all other C16D_* theorems hold for ALL lists of such inputs)"]
LEVEL_TEXT = ("Coq theorems over ALL lists of inputs (any sizes, cells, data): merged vertices are the inputs' vertices in order; the cell "
              "specification joins the same coordinates (C16_spec_*); the code's offset rule equals the specification iff tails are referenced "
              "(C16_cells_partial) and the full statement is refuted with a witness (C16_cells_refuted = open known finding); merged data sit at "
              "their input's offset under their own label (C16_merged_data, by an invariant over the merge_data double loop); no vertex is added "
              "(C16_vertices_complete), the code's offset rule never overshoots so every merged cell references an existing merged vertex even where "
              "it departs from the specification (C16_code_cells_in_range), unit and append laws (C16_merge_single, C16_vertices_append); no data set is invented, for ALL input lists incl. the renaming branch "
              "(C16_no_invented_data, exact label under distinct labels: C16_no_invented_data_exact). Tie: hand-written "
              "model Merge.v vs. the real CurveMerger/SurfaceMerger/PointsMerger on generated inputs, evaluated by vm_compute; independent oracle. "
              "Drape models (Properties/C16D.v over Model/MergeDrape.v, a transcription of DrapeModelMerger.create_object/_ghost_point/merge_data on "
              "top of Merge.v's merge_data loop): for ALL lists of >= 2 canonical drape models with >= 2 prisms each the merge succeeds "
              "(C16D_merge_total_partial; refuted for single-prism inputs = open finding), create_object equals the closed-form specification "
              "(C16D_code_meets_spec), every input prism/layer re-appears at poff/loff + j with first-layer/column shifted by the input's layer/prism "
              "offset (C16D_prism_preserved, C16D_layer_preserved), each output prism owns exactly its input's layers (C16D_prism_owns_its_layers, "
              "C16D_output_canonical), exactly two one-layer ghosts sit between consecutive inputs and nowhere else (C16D_ghosts_between_inputs, "
              "C16D_prisms_complete, C16D_layers_complete, C16D_counts), and after the ind_map re-ordering every input's cell values sit at its "
              "layers' positions with no-data in ghost cells and where an input lacks the data set (C16D_data_*). Tie: the real DrapeModelMerger on "
              "generated inputs (live and re-opened) vs. agree_drape by vm_compute; independent oracle.")
TRUSTED = [
    "Coq 8.16.1 kernel + vm_compute (correspondence evaluation); no axioms (Print Assumptions: closed)",
    "hand-written model coq/theories/Model/Merge.v of PointsMerger/CellMerger.create_object and BaseMerger.merge_data; tied to the code by running both on the same generated inputs",
    "numpy vstack / slice assignment / nanmax semantics, geoh5py object creation and add_data (exercised, not modelled)",
    "tools/props/c16.py (generator, driver, canonicalisation int<->float on a small integer lattice, oracle)",
    "hand-written model coq/theories/Model/MergeDrape.v of DrapeModelMerger.create_object/_ghost_point/merge_data, validate_objects (length) and the "
    "DrapeModel.layers setter check; tied to the code by running both on the same generated drape models (tools/props/c16_drape.py)",
    "DrapeModel.prisms/.layers getters return fresh float copies (so the in-place += of create_object does not touch the inputs): exercised by the "
    "'inputs unchanged' observations, not modelled",
]
ASSUMPTIONS = [
    "coordinates and data values are small integers so that float comparison is exact",
    "inputs are Points, Curve or Surface objects with FloatData children; or DrapeModel objects in canonical layout (layer blocks in prism order, "
    "column = prism index, >= 1 layer per prism) with CELL FloatData children (VERTEX data on drape models and merge_objects kwargs are not covered)",
]
RULE = (
    "2-5 same-class inputs (Points/Curve/Surface), 1-8 lattice vertices each, random cells (about a third of inputs have "
    "unreferenced tail vertices, cells unordered), float data on a subset of inputs with names drawn with replacement; "
    "non-trivial = some input has a vertex no cell uses or a data set is missing on some input; "
    "about 18% of all cases (every class) merge a list in which one of the built objects occurs more than once ([a, b, a]); about 8% of the inputs "
    "carry two data sets under one name/association (the renaming branch; the oracle then demands that every input data set survives unaltered "
    "at its input's positions in some merged data set of that name and that nothing else appears); "
    "drape models: 2-4 inputs, 2-4 prisms each (4% of the cases have one single-prism input), 1-3 layers per prism, integer trace coordinates / "
    "tops / bottoms, CELL data under 0-3 names each present on about half of the inputs; non-trivial = three or more inputs or a data set missing somewhere"
)


# ----------------------------------------------------------------------------- generation
def gen_input(rng, cls, names):
    nv = rng.range(2 if cls != "Surface" else 3, 8) if cls != "Points" else rng.range(1, 6)
    verts = [[rng.range(-4, 4), rng.range(-4, 4), rng.range(-2, 2)] for _ in range(nv)]
    cells = []
    if cls != "Points":
        arity = 2 if cls == "Curve" else 3
        top = nv if not rng.chance(35) else max(arity, nv - rng.range(1, 3))  # unreferenced tail
        ncell = rng.range(1, 5)
        for _ in range(ncell):
            c = [rng.below(top) for _ in range(arity)]
            cells.append(c)
        if rng.chance(50):
            cells = sorted(cells)
    data = []
    for nm in names:
        if rng.chance(55):
            is_cell = cls != "Points" and rng.chance(40)
            n = len(cells) if is_cell else nv
            vals = [None if rng.chance(15) else rng.range(-50, 50) for _ in range(n)]
            data.append({"name": nm, "cell": is_cell, "vals": vals})
    if rng.chance(8) and data:  # duplicate name inside one input: exercises the renaming branch
        d = dict(data[0])
        d["vals"] = [None if rng.chance(15) else rng.range(-50, 50) for _ in d["vals"]]
        data.append(d)
    return {"verts": verts, "cells": cells, "data": data}


def generate(rng, tier):
    n = 160 if tier == "quick" else 4000
    cases = [
        # the witness of the old defect: first input's last vertex is unreferenced
        {"cls": "Curve", "inputs": [
            {"verts": [[0, 0, 0], [1, 0, 0], [2, 0, 0], [3, 0, 0]], "cells": [[0, 1], [1, 2]], "data": []},
            {"verts": [[0, 1, 0], [1, 1, 0], [2, 1, 0]], "cells": [[0, 1], [1, 2]], "data": []}]},
    ]
    for _ in range(n):
        cls = rng.weighted([("Curve", 45), ("Surface", 35), ("Points", 20)])
        names = rng.sample([0, 1, 2, 3], rng.range(0, 3))
        k = rng.range(2, 5)
        case = {"cls": cls, "inputs": [gen_input(rng, cls, names) for _ in range(k)]}
        DR.maybe_repeat(rng, case, 5)  # the same object more than once in the list that is merged
        cases.append(case)
    cases += DR.generate(rng, tier)  # drape models, drawn after the others so that those stay the same per seed
    return cases


# ----------------------------------------------------------------------------- implementation driver
def _vals(arr):
    import numpy as np

    out = []
    for x in np.asarray(arr, dtype=float).ravel().tolist():
        if x != x or abs(x) > 1e30:
            out.append(None)
        elif float(x).is_integer():
            out.append(int(x))
        else:
            out.append({"float": x})
    return out


def _snap(obj):
    import numpy as np

    cells = getattr(obj, "cells", None)
    return {
        "verts": np.asarray(obj.vertices).tolist() if obj.vertices is not None else None,
        "cells": np.asarray(cells).tolist() if cells is not None and obj.__class__.__name__ != "Points" else [],
        "children": [
            {"name": ch.name, "cell": ch.association.name == "CELL", "vals": _vals(ch.values)}
            for ch in obj.children if hasattr(ch, "values") and hasattr(ch, "association")
        ],
    }


def drive_one(case, work):
    if case["cls"] == DR.CLS:
        return DR.drive_one(case, work)
    import numpy as np
    from geoh5py import Workspace
    from geoh5py import objects as O
    from geoh5py.shared.merging import CurveMerger, PointsMerger, SurfaceMerger

    cls = getattr(O, case["cls"])
    merger = {"Points": PointsMerger, "Curve": CurveMerger, "Surface": SurfaceMerger}[case["cls"]]
    with Workspace.create(f"{work}/c16.geoh5") as ws:
        ins = []
        for k, spec in enumerate(case["inputs"]):
            kw = {"vertices": np.array(spec["verts"], dtype=float), "name": f"in{k}"}
            if case["cls"] != "Points":
                kw["cells"] = np.array(spec["cells"], dtype="int32")
            ob = cls.create(ws, **kw)
            for d in spec["data"]:
                ob.add_data({f"d{d['name']}": {
                    "values": np.array([np.nan if v is None else float(v) for v in d["vals"]]),
                    "association": "CELL" if d["cell"] else "VERTEX"}})
            ins.append(ob)
        ins = [ins[j] for j in DR.order_of(case)]  # the list handed to the merger (an object may occur repeatedly)
        before = [_snap(o) for o in ins]
        try:
            out = merger.merge_objects(ws, ins)
        except Exception as e:  # noqa: BLE001
            return {"error": type(e).__name__, "msg": str(e)[:200], "inputs_after": [_snap(o) for o in ins], "inputs_before": before}
        res = {"out": _snap(out), "inputs_before": before, "inputs_after": [_snap(o) for o in ins]}
        out_uid, in_uids = out.uid, [o.uid for o in ins]
    # what a later reader of the file sees (merge results must be stored, inputs must be untouched on file too)
    with Workspace(f"{work}/c16.geoh5", mode="r") as ws2:
        res["out_reopened"] = _snap(ws2.get_entity(out_uid)[0])
        res["inputs_reopened"] = [_snap(ws2.get_entity(u)[0]) for u in in_uids]
    import os
    os.remove(f"{work}/c16.geoh5")
    return res


# ----------------------------------------------------------------------------- Coq case terms
def _pt(p):
    return "(" + ", ".join(cz(int(x)) for x in p) + ")"


def _vals_term(vals):
    return clist(copt(v, cz) for v in vals)


def _inp_term(spec):
    ds = clist(
        "{| dname := %s; dtype := %s; dcell := %s; dvals := %s |}" % (cnat(d["name"]), cnat(d["name"]), cbool(d["cell"]), _vals_term(d["vals"]))
        for d in spec["data"])
    cs = clist(clist(cnat(v) for v in c) for c in spec["cells"])
    return "{| vs := %s; cs := %s; ds := %s |}" % (clist(_pt(p) for p in spec["verts"]), cs, ds)


def _name_id(name):
    # implementation names are "d<k>"; anything else is not expressible
    if name.startswith("d") and name[1:].isdigit():
        return int(name[1:])
    return None


def case_term(case, obs, which="out"):
    if case["cls"] == DR.CLS:
        return DR.case_term(case, obs)
    if which not in obs:
        return "false"  # the model never refuses a well-formed merge
    o = obs[which]
    verts = o["verts"] or []
    if any(not float(x).is_integer() for p in verts for x in p):
        return "false"
    ch = []
    for c in o["children"]:
        nid = _name_id(c["name"])
        if nid is None or any(isinstance(v, dict) for v in c["vals"]):
            return "false"
        ch.append("(%s, %s, %s)" % (cnat(nid), cbool(c["cell"]), _vals_term(c["vals"])))
    ins = clist(_inp_term(s) for s in DR.expand(case))
    live = "%s %s %s %s %s" % ("agree" if which == "out" else "agree_stored", ins, clist(_pt(p) for p in verts), clist(clist(cnat(v) for v in c) for c in o["cells"]), clist(ch))
    if which == "out" and "out_reopened" in obs:
        stored = case_term(case, obs, "out_reopened")
        return f"({live}) && ({stored})"
    return live


def model_term(case):
    if case["cls"] == DR.CLS:
        return DR.model_term(case)
    ins = clist(_inp_term(s) for s in DR.expand(case))
    return f"(merge_verts {ins}, merge_cells {ins}, out_children {ins})"


# ----------------------------------------------------------------------------- oracle (property text, independent of the model)
def oracle(case, obs):
    if case["cls"] == DR.CLS:
        return DR.oracle(case, obs)
    fails = []
    if "crash" in obs:
        return [{"key": "driver-crash", "what": obs["crash"][:300]}]
    if "out" not in obs:
        return [{"key": "merge-refused", "what": f"merge of valid inputs raised {obs.get('error')}: {obs.get('msg')}"}]
    out = obs["out"]
    ins = DR.expand(case)
    # vertices: inputs' vertices in order
    exp_v = [[float(x) for x in p] for s in ins for p in s["verts"]]
    if out["verts"] != exp_v:
        fails.append({"key": "vertices-not-concatenated", "what": "output vertices are not the inputs' vertices in order"})
    # cells: every output cell joins the same coordinates as the corresponding input cell
    if case["cls"] != "Points":
        flat = [(k, c) for k, s in enumerate(ins) for c in s["cells"]]
        if len(flat) != len(out["cells"]):
            fails.append({"key": "cell-count", "what": f"{len(out['cells'])} output cells for {len(flat)} input cells"})
        else:
            for (k, c), oc in zip(flat, out["cells"]):
                try:
                    got = [out["verts"][v] for v in oc]
                except (IndexError, TypeError):
                    fails.append({"key": "cell-out-of-range", "what": f"output cell {oc} references a missing vertex"})
                    break
                want = [[float(x) for x in ins[k]["verts"][v]] for v in c]
                if got != want:
                    # the recorded defect predicts exactly: offset of the next input = largest referenced index + 1
                    pred, prev = [], 0
                    for s in ins:
                        tmp = [[v + prev for v in cc] for cc in s["cells"]]
                        pred += tmp
                        prev = max(v for cc in tmp for v in cc) + 1
                    known = pred == out["cells"]
                    fails.append({"key": "merge-offset-unreferenced-tail" if known else "cells-wrong-coordinates",
                                  "what": f"output cell {oc} joins {got}, input {k} cell {c} joins {want}"})
                    break
    # data: per (name, association) concatenated in input order, no-data where an input lacks it (inputs without duplicate names)
    if all(len({(d["name"], d["cell"]) for d in s["data"]}) == len(s["data"]) for s in ins):
        exp = {}
        order = []
        voff = coff = 0
        nv, nc = sum(len(s["verts"]) for s in ins), sum(len(s["cells"]) for s in ins)
        for s in ins:
            for d in s["data"]:
                key = (f"d{d['name']}", d["cell"])
                if key not in exp:
                    exp[key] = [None] * (nc if d["cell"] else nv)
                    order.append(key)
                off = coff if d["cell"] else voff
                exp[key][off:off + len(d["vals"])] = d["vals"]
            voff += len(s["verts"])
            coff += len(s["cells"])
        got = {(c["name"], c["cell"]): c["vals"] for c in out["children"]}
        if len(got) != len(out["children"]) or got != exp:
            fails.append({"key": "data-not-concatenated", "what": f"merged data {got} differ from expected {exp}"})
    else:
        # an input with several data sets under one name/type/association: whichever way they are told apart in the output,
        # every one of them must still be there at its input's positions, and nothing else may appear
        voffs, coffs, v, c = [], [], 0, 0
        for s in ins:
            voffs.append(v)
            coffs.append(c)
            v += len(s["verts"])
            c += len(s["cells"])
        fails += DR.survival_fails(
            ins, out["children"],
            lambda k, cell: coffs[k] if cell else voffs[k],
            lambda k, cell: len(ins[k]["cells"]) if cell else len(ins[k]["verts"]),
            lambda cell: c if cell else v)
    def _canon(sn):
        return None if sn is None else dict(sn, children=sorted(sn["children"], key=lambda c: (c["name"], c["cell"], str(c["vals"]))))

    if obs["inputs_before"] != obs["inputs_after"] or [_canon(x) for x in obs.get("inputs_reopened", obs["inputs_before"])] != [_canon(x) for x in obs["inputs_before"]]:
        fails.append({"key": "inputs-changed", "what": "an input object changed during the merge (live or on file)"})
    if "out_reopened" in obs and _canon(obs["out_reopened"]) != _canon(obs["out"]):
        fails.append({"key": "merged-object-not-stored", "what": f"re-opened merged object {obs['out_reopened']} differs from the live one {obs['out']}"})
    return fails


def nontrivial(case, obs):
    if case["cls"] == DR.CLS:
        return DR.nontrivial(case, obs)
    ins = DR.expand(case)
    tail = any(s["cells"] and max(v for c in s["cells"] for v in c) < len(s["verts"]) - 1 for s in ins)
    names = {d["name"] for s in ins for d in s["data"]}
    missing = any(n not in {d["name"] for d in s["data"]} for s in ins for n in names)
    return tail or missing


def histogram(cases, obs):
    dr = [(c, o) for c, o in zip(cases, obs) if c["cls"] == DR.CLS]
    rest = [(c, o) for c, o in zip(cases, obs) if c["cls"] != DR.CLS]
    h = _histogram([c for c, _ in rest], [o for _, o in rest])
    h["drape"] = DR.histogram([c for c, _ in dr], [o for _, o in dr])
    return h


def _histogram(cases, obs):
    h = {"cls": {}, "n_inputs": {}, "unreferenced_tail": 0, "data_sets": {}, "dup_name_in_input": 0, "repeated_object": 0, "outcome": {}}
    for c, o in zip(cases, obs):
        if "order" in c:
            h["repeated_object"] += 1
        h["cls"][c["cls"]] = h["cls"].get(c["cls"], 0) + 1
        k = str(len(DR.order_of(c)))
        h["n_inputs"][k] = h["n_inputs"].get(k, 0) + 1
        if any(s["cells"] and max(v for cc in s["cells"] for v in cc) < len(s["verts"]) - 1 for s in c["inputs"]):
            h["unreferenced_tail"] += 1
        nd = str(sum(len(s["data"]) for s in c["inputs"]))
        h["data_sets"][nd] = h["data_sets"].get(nd, 0) + 1
        if any(len({(d["name"], d["cell"]) for d in s["data"]}) != len(s["data"]) for s in c["inputs"]):
            h["dup_name_in_input"] += 1
        oc = "ok" if "out" in o else o.get("error", "crash")
        h["outcome"][oc] = h["outcome"].get(oc, 0) + 1
    return h
