"""C16, drape models: generator, driver on the real DrapeModelMerger, Coq case terms (Model/MergeDrape.v) and oracle.

Used by tools/props/c16.py for cases ``{"cls": "DrapeModel", "inputs": [{"prisms": [[x, y, top, first, count], ...],
"layers": [[column, row, bottom], ...], "data": [{"name": n, "cell": True, "vals": [...]}, ...]}, ...]}``.
"""
from __future__ import annotations

from vlib.common import cbool, clist, cnat, copt, cz

CLS = "DrapeModel"
KNOWN_SINGLE_PRISM = "drape-merge-single-prism-refused"


# ----------------------------------------------------------------------------- lists with repeated objects (all classes)
def order_of(case):
    """indices into case["inputs"] of the objects handed to the merger, in order (default: each once)"""
    return case.get("order") or list(range(len(case["inputs"])))


def expand(case):
    """the merged list as specs, one per occurrence"""
    return [case["inputs"][j] for j in order_of(case)]


def maybe_repeat(rng, case, max_len, percent=18):
    """with the given chance: merge a list in which at least one of the built objects occurs more than once"""
    if not rng.chance(percent):
        return
    k = len(case["inputs"])
    order = [rng.below(k) for _ in range(rng.range(2, max_len))]
    if len(set(order)) == len(order):
        order[-1] = order[0] if len(order) > 1 else order[-1]
    if len(order) >= 2 and len(set(order)) < len(order):
        case["order"] = order


def survival_fails(ins, children, off, size, total):
    """inputs with several data sets under one label: each (not entirely no-data) input data set is found unaltered at its
    input's positions in some output child of that name/association; every output child has one entry per vertex/cell and
    holds, over each input's range, either no-data or one of that input's data sets of that name"""
    fails = []
    for k, s in enumerate(ins):
        for d in s["data"]:
            if all(x is None for x in d["vals"]):
                continue
            o, n = off(k, d["cell"]), size(k, d["cell"])
            if not any(c["name"] == f"d{d['name']}" and c["cell"] == d["cell"] and c["vals"] is not None and c["vals"][o:o + n] == d["vals"]
                       for c in children):
                fails.append({"key": "data-set-lost", "what": f"data d{d['name']} {d['vals']} of input {k} is at positions {o}..{o + n} of no merged data set "
                                                               f"{[(c['name'], c['vals']) for c in children]}"})
                return fails
    for c in children:
        if c["vals"] is None or len(c["vals"]) != total(c["cell"]):
            fails.append({"key": "data-length", "what": f"merged data {c['name']} has {None if c['vals'] is None else len(c['vals'])} entries"})
            return fails
        covered = [False] * len(c["vals"])
        for k, s in enumerate(ins):
            o, n = off(k, c["cell"]), size(k, c["cell"])
            got = c["vals"][o:o + n]
            for q in range(o, o + n):
                covered[q] = True
            mine = [d["vals"] for d in s["data"] if f"d{d['name']}" == c["name"] and d["cell"] == c["cell"]]
            if any(x is not None for x in got) and got not in mine:
                fails.append({"key": "data-stray-values", "what": f"merged data {c['name']} holds {got} over input {k}, which is none of {mine}"})
                return fails
        if any(x is not None for q, x in enumerate(c["vals"]) if not covered[q]):
            fails.append({"key": "data-stray-values", "what": f"merged data {c['name']} holds values outside every input's range: {c['vals']}"})
            return fails
    return fails


# ----------------------------------------------------------------------------- generation
def gen_input(rng, names, single=False):
    npr = 1 if single else rng.range(2, 4)
    prisms, layers = [], []
    x, y = rng.range(-6, 6), rng.range(-6, 6)
    first = 0
    for j in range(npr):
        cnt = rng.range(1, 3)
        top = rng.range(-3, 5)
        prisms.append([x, y, top, first, cnt])
        z = top
        for r in range(cnt):
            z -= rng.range(1, 3)
            layers.append([j, r, z])
        first += cnt
        # next trace point: never the same place twice in a row (a ghost is mirrored through the neighbour)
        dx, dy = rng.range(-3, 3), rng.range(-3, 3)
        if dx == 0 and dy == 0:
            dx = 1
        x, y = x + dx, y + dy
    data = []
    for nm in names:
        if rng.chance(55):
            data.append({"name": nm, "cell": True,
                         "vals": [None if rng.chance(15) else rng.range(-50, 50) for _ in layers]})
    if rng.chance(8) and data:  # two data sets under one name in one input: the renaming branch of BaseMerger.merge_data
        data.append({"name": data[0]["name"], "cell": True,
                     "vals": [None if rng.chance(15) else rng.range(-50, 50) for _ in layers]})
    return {"prisms": prisms, "layers": layers, "data": data}


def fixed_cases():
    return [
        # two inputs, every data set on one input only
        {"cls": CLS, "inputs": [
            {"prisms": [[0, 0, 10, 0, 2], [1, 0, 11, 2, 1]], "layers": [[0, 0, 5], [0, 1, 3], [1, 0, 4]],
             "data": [{"name": 0, "cell": True, "vals": [1, 2, 3]}]},
            {"prisms": [[5, 5, 20, 0, 1], [6, 5, 21, 1, 2], [8, 5, 22, 3, 1]],
             "layers": [[0, 0, 15], [1, 0, 14], [1, 1, 13], [2, 0, 12]],
             "data": [{"name": 0, "cell": True, "vals": [4, None, 6, 7]}, {"name": 1, "cell": True, "vals": [8, 9, 10, 11]}]}]},
    ]


def generate(rng, tier):
    n = 70 if tier == "quick" else 1500
    cases = fixed_cases()
    for _ in range(n):
        names = rng.sample([0, 1, 2, 3], rng.range(0, 3))
        k = rng.range(2, 4)
        single = rng.below(k) if rng.chance(4) else -1  # rare: one input with a single prism (recorded finding)
        case = {"cls": CLS, "inputs": [gen_input(rng, names, single=(j == single)) for j in range(k)]}
        maybe_repeat(rng, case, 4)
        cases.append(case)
    return cases


# ----------------------------------------------------------------------------- implementation driver
def _num(x):
    x = float(x)
    if x != x or abs(x) > 1e30:
        return None
    return int(x) if x.is_integer() else {"float": x}


def _snap(obj):
    import numpy as np

    pr, la = obj.prisms, obj.layers
    return {
        "prisms": None if pr is None else [[_num(v) for v in row] for row in np.asarray(pr, dtype=float).tolist()],
        "layers": None if la is None else [[_num(v) for v in row] for row in np.asarray(la, dtype=float).tolist()],
        "n_cells": obj.n_cells,
        "children": [
            {"name": ch.name, "cell": ch.association.name == "CELL",
             "vals": None if ch.values is None else [_num(v) for v in np.asarray(ch.values, dtype=float).ravel().tolist()]}
            for ch in obj.children if hasattr(ch, "values") and hasattr(ch, "association")
        ],
    }


def drive_one(case, work):
    import os
    import warnings

    import numpy as np
    from geoh5py import Workspace
    from geoh5py.objects import DrapeModel
    from geoh5py.shared.merging import DrapeModelMerger

    path = f"{work}/c16d.geoh5"
    with warnings.catch_warnings():
        warnings.simplefilter("ignore")
        with Workspace.create(path) as ws:
            ins = []
            for k, spec in enumerate(case["inputs"]):
                ob = DrapeModel.create(ws, name=f"in{k}", layers=np.array(spec["layers"], dtype=float),
                                       prisms=np.array(spec["prisms"], dtype=float))
                for d in spec["data"]:
                    ob.add_data({f"d{d['name']}": {
                        "values": np.array([np.nan if v is None else float(v) for v in d["vals"]]),
                        "association": "CELL" if d["cell"] else "VERTEX"}})
                ins.append(ob)
            ins = [ins[j] for j in order_of(case)]  # the list handed to the merger (an object may occur repeatedly)
            before = [_snap(o) for o in ins]
            in_uids = [o.uid for o in ins]
            n_objects = len(ws.objects)
            try:
                out = DrapeModelMerger.merge_objects(ws, ins)
            except Exception as e:  # noqa: BLE001
                res = {"error": type(e).__name__, "msg": str(e)[:200], "inputs_before": before,
                       "inputs_after": [_snap(o) for o in ins]}
                out = None
            else:
                res = {"out": _snap(out), "inputs_before": before, "inputs_after": [_snap(o) for o in ins],
                       "new_objects": len(ws.objects) - n_objects}
                out_uid = out.uid
        # what a later reader of the file sees
        with Workspace(path, mode="r") as ws2:
            if out is not None:
                res["out_reopened"] = _snap(ws2.get_entity(out_uid)[0])
            res["inputs_reopened"] = [_snap(ws2.get_entity(u)[0]) for u in in_uids]
    os.remove(path)
    return res


# ----------------------------------------------------------------------------- Coq case terms
def _prism(p):
    return "{| px := %s; py := %s; ptop := %s; pfirst := %s; pcount := %s |}" % (cz(p[0]), cz(p[1]), cz(p[2]), cnat(p[3]), cnat(p[4]))


def _layer(l):
    return "{| lcol := %s; lrow := %s; lbot := %s |}" % (cnat(l[0]), cnat(l[1]), cz(l[2]))


def _vals_term(vals):
    return clist(copt(v, cz) for v in vals)


def _dinp(spec):
    ds = clist("{| dname := %s; dtype := %s; dcell := %s; dvals := %s |}" % (cnat(d["name"]), cnat(d["name"]), cbool(d["cell"]), _vals_term(d["vals"]))
               for d in spec["data"])
    return "{| dps := %s; dls := %s; dds := %s |}" % (clist(_prism(p) for p in spec["prisms"]), clist(_layer(l) for l in spec["layers"]), ds)


def _ints(rows, nonneg_cols):
    """rows of integers, with the given columns non-negative and small; None when not expressible"""
    for r in rows:
        for j, v in enumerate(r):
            if not isinstance(v, int):
                return False
            if j in nonneg_cols and not 0 <= v < 5000:
                return False
    return True


def _expressible(case):
    for s in case["inputs"]:
        if not _ints(s["prisms"], (3, 4)) or not _ints(s["layers"], (0, 1)):
            return False
        if any(not d["cell"] for d in s["data"]):
            return False  # VERTEX data on a drape model: not modelled
    return True


def _obs_term(o):
    if o["prisms"] is None or o["layers"] is None:
        return None
    if not _ints(o["prisms"], (3, 4)) or not _ints(o["layers"], (0, 1)):
        return None
    ch = []
    for c in o["children"]:
        name = c["name"]
        if not (name.startswith("d") and name[1:].isdigit()) or c["vals"] is None or any(isinstance(v, dict) for v in c["vals"]):
            return None
        ch.append("(%s, %s, %s)" % (cnat(int(name[1:])), cbool(c["cell"]), _vals_term(c["vals"])))
    return "(inl (%s, %s, %s))" % (clist(_prism(p) for p in o["prisms"]), clist(_layer(l) for l in o["layers"]), clist(ch))


ERR_CODE = {"ValueError": 0, "IndexError": 1}


def case_term(case, obs):
    if not _expressible(case):
        return None
    ins = clist(_dinp(s) for s in expand(case))
    if "out" not in obs:
        code = ERR_CODE.get(obs.get("error"))
        if code is None:
            return "false"  # the model knows no other refusal
        return f"agree_drape false {ins} (inr {cnat(code)})"
    live = _obs_term(obs["out"])
    if live is None:
        return "false"
    t = f"agree_drape false {ins} {live}"
    if "out_reopened" in obs:
        st = _obs_term(obs["out_reopened"])
        if st is None:
            return "false"
        t = f"({t}) && (agree_drape true {ins} {st})"
    return t


def model_term(case):
    if not _expressible(case):
        return None
    return "drape_merge %s" % clist(_dinp(s) for s in expand(case))


# ----------------------------------------------------------------------------- oracle (property text, independent of the model)
def _wellformed(spec):
    """canonical layout: blocks of layers in prism order, prism j owns count>=1 layers with column j starting at first"""
    pos = 0
    for j, p in enumerate(spec["prisms"]):
        if p[3] != pos or p[4] < 1:
            return False
        blk = spec["layers"][pos:pos + p[4]]
        if len(blk) != p[4] or any(l[0] != j for l in blk):
            return False
        pos += p[4]
    return pos == len(spec["layers"]) and len(spec["prisms"]) >= 1


def _cells_of(prisms, layers, j):
    """the cells of prism j as the geometry they describe: (x, y, top of prism, [(row, bottom), ...]) or None"""
    p = prisms[j]
    first, cnt = p[3], p[4]
    if not (isinstance(first, int) and isinstance(cnt, int)) or first < 0 or first + cnt > len(layers):
        return None
    blk = layers[first:first + cnt]
    if any(l[0] != j for l in blk):
        return None  # the layers the prism points at say they belong to another prism
    return (p[0], p[1], p[2], [(l[1], l[2]) for l in blk])


def _canon(sn):
    return None if sn is None else dict(sn, children=sorted(sn["children"], key=lambda c: (c["name"], c["cell"], str(c["vals"]))))


def oracle(case, obs):
    if "crash" in obs:
        return [{"key": "driver-crash", "what": obs["crash"][:300]}]
    ins = expand(case)
    fails = []
    if not all(_wellformed(s) for s in ins):
        return fails  # the property speaks about valid drape models only
    if "out" not in obs:
        single = any(len(s["prisms"]) == 1 for s in ins)
        key = KNOWN_SINGLE_PRISM if single and obs.get("error") == "IndexError" else "drape-merge-refused"
        fails.append({"key": key, "what": f"merge of valid drape models raised {obs.get('error')}: {obs.get('msg')}"})
    else:
        out = obs["out"]
        P, L = out["prisms"] or [], out["layers"] or []
        k = len(ins)
        n_p, n_l = sum(len(s["prisms"]) for s in ins), sum(len(s["layers"]) for s in ins)
        if len(P) != n_p + 2 * (k - 1) or len(L) != n_l + 2 * (k - 1) or out["n_cells"] != len(L):
            fails.append({"key": "drape-counts", "what": f"{len(P)} prisms / {len(L)} layers for {n_p} / {n_l} input prisms / layers and {k} inputs"})
        else:
            ppos = lpos = 0
            bad = None
            for t, s in enumerate(ins):
                # every prism of input t re-appears, in order, with the same place, top and cells (rows, bottoms), and the
                # layers it points at are its own
                for j in range(len(s["prisms"])):
                    want = _cells_of(s["prisms"], s["layers"], j)
                    got = _cells_of(P, L, ppos + j)
                    if got != want:
                        bad = bad or ("drape-prism-cells", f"input {t} prism {j}: output prism {ppos + j} describes {got}, input describes {want}")
                # ... and its cells are at the running cell position, in the same order
                blk = L[lpos:lpos + len(s["layers"])]
                if [(l[1], l[2]) for l in blk] != [(l[1], l[2]) for l in s["layers"]]:
                    bad = bad or ("drape-layers-moved", f"input {t}: output layers {blk} at {lpos} are not the input's layers {s['layers']}")
                if [l[0] - ppos for l in blk] != [l[0] for l in s["layers"]]:
                    bad = bad or ("drape-layer-columns", f"input {t}: output layer columns {[l[0] for l in blk]} are not the input's columns shifted by {ppos}")
                ppos += len(s["prisms"])
                lpos += len(s["layers"])
                if t + 1 < k:
                    # exactly two ghost prisms, one flat cell each, between consecutive inputs
                    for g in range(2):
                        c = _cells_of(P, L, ppos + g)
                        if c is None or len(c[3]) != 1 or P[ppos + g][3] != lpos + g:
                            bad = bad or ("drape-ghost", f"ghost prism {ppos + g} after input {t} is {P[ppos + g]} with cells {c}")
                            continue
                        # _ghost_point docstring: the ghost is the end prism mirrored away from its neighbour, with one flat cell
                        src = s["prisms"][::-1] if g == 0 else ins[t + 1]["prisms"]
                        if len(src) < 2:
                            continue  # a single prism has no neighbour to mirror through: nothing to compare with
                        end, nb = src[0], src[1]
                        want = tuple(2 * end[a] - nb[a] for a in range(3))
                        if c[:3] != want or c[3] != [(0, want[2])]:
                            bad = bad or ("drape-ghost-geometry", f"ghost prism {ppos + g} after input {t} is at {c[:3]} with cell {c[3]}, "
                                          f"the mirror of {nb[:3]} through {end[:3]} is {want} (flat cell at its top)")
                    ppos += 2
                    lpos += 2
            if bad:
                fails.append({"key": bad[0], "what": bad[1]})
            # data: per name concatenated in input order, no-data where an input lacks it and in the ghost cells
            if all(len({(d["name"], d["cell"]) for d in s["data"]}) == len(s["data"]) for s in ins):
                exp, order = {}, []
                for t, s in enumerate(ins):
                    for d in s["data"]:
                        key = (f"d{d['name']}", d["cell"])
                        if key not in exp:
                            exp[key] = None
                            order.append(key)
                for key in order:
                    arr = []
                    for t, s in enumerate(ins):
                        mine = [d for d in s["data"] if (f"d{d['name']}", d["cell"]) == key]
                        arr += mine[0]["vals"] if mine else [None] * len(s["layers"])
                        if t + 1 < k:
                            arr += [None, None]
                    exp[key] = arr
                got = {(c["name"], c["cell"]): c["vals"] for c in out["children"]}
                if len(got) != len(out["children"]) or got != exp:
                    fails.append({"key": "drape-data-not-concatenated", "what": f"merged data {got} differ from expected {exp}"})
            else:
                loffs, lp = [], 0
                for s in ins:
                    loffs.append(lp)
                    lp += len(s["layers"]) + 2
                fails += survival_fails(ins, out["children"], lambda t, cell: loffs[t], lambda t, cell: len(ins[t]["layers"]),
                                        lambda cell: len(L))
            if obs.get("new_objects") != 1:
                fails.append({"key": "drape-extra-objects", "what": f"the merge created {obs.get('new_objects')} objects"})
        if "out_reopened" in obs and _canon(obs["out_reopened"]) != _canon(obs["out"]):
            fails.append({"key": "merged-object-not-stored", "what": f"re-opened merged object {obs['out_reopened']} differs from the live one {obs['out']}"})
    if obs["inputs_before"] != obs["inputs_after"] or [_canon(x) for x in obs.get("inputs_reopened", obs["inputs_before"])] != [_canon(x) for x in obs["inputs_before"]]:
        fails.append({"key": "inputs-changed", "what": "an input drape model changed during the merge (live or on file)"})
    # the driver built what the case says
    for s, b in zip(ins, obs["inputs_before"]):
        if b["prisms"] != s["prisms"] or b["layers"] != s["layers"]:
            fails.append({"key": "driver-input-mismatch", "what": f"input built as {b['prisms']} / {b['layers']}"})
            break
    return fails


def nontrivial(case, obs):
    ins = expand(case)
    names = {d["name"] for s in ins for d in s["data"]}
    missing = any(n not in {d["name"] for d in s["data"]} for s in ins for n in names)
    return "out" in obs and (missing or len(ins) >= 3)


def histogram(cases, obs):
    h = {"n_inputs": {}, "prisms_per_input": {}, "layers_per_prism": {}, "data_sets": {}, "single_prism_input": 0, "repeated_object": 0,
         "dup_name_in_input": 0, "outcome": {}}
    for c, o in zip(cases, obs):
        if "order" in c:
            h["repeated_object"] += 1
        if any(len({d["name"] for d in s["data"]}) != len(s["data"]) for s in c["inputs"]):
            h["dup_name_in_input"] += 1
        k = str(len(order_of(c)))
        h["n_inputs"][k] = h["n_inputs"].get(k, 0) + 1
        for s in c["inputs"]:
            n = str(len(s["prisms"]))
            h["prisms_per_input"][n] = h["prisms_per_input"].get(n, 0) + 1
            for p in s["prisms"]:
                h["layers_per_prism"][str(p[4])] = h["layers_per_prism"].get(str(p[4]), 0) + 1
        if any(len(s["prisms"]) == 1 for s in c["inputs"]):
            h["single_prism_input"] += 1
        nd = str(sum(len(s["data"]) for s in c["inputs"]))
        h["data_sets"][nd] = h["data_sets"].get(nd, 0) + 1
        oc = "ok" if "out" in o else o.get("error", "crash")
        h["outcome"][oc] = h["outcome"].get(oc, 0) + 1
    return h
