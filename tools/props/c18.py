"""C18 — Drillhole positions follow the survey (desurvey / locations / depth and interval data additions)."""
from __future__ import annotations

import math
import os
from fractions import Fraction

from vlib.common import clist, cnat

ID = "C18"
PROPERTIES_V = "theories/Properties/C18.v"
CASE_IMPORTS = ("From GV Require Import Prelude.Base Model.GridIndex Model.Desurvey Model.HoleData.\n"
                "From Coq Require Import QArith.")
ALLOWED_AXIOMS: list = []
REFUTED = [
    "C18_collar_inplace_refuted (an accepted in-place write `well.collar[\"x\"] = v` changes the reported collar without resetting the "
    "cached path; open finding collar-inplace-stale; proposed fixes/C18-collar-inplace-readonly.patch)",
    "C18_values_attached_refuted (two depths of one call collocate with the same existing vertex: the earlier value is overwritten; "
    "open finding depth-value-lost-collision; the from-to analogue interval-value-lost-collision is found by the oracle)",
    "C18_divide_old_code_refuted (pre-repair compute_deviation: a zero-length leg takes the first station's direction / reads "
    "uninitialised memory; repaired by /repo commit 9179588 = fixes/C18-divide-uninitialised.patch)",
]
PARTIAL = [
    "C18_values_stay_attached_partial / _calls_partial (depth values) and C18_interval_values_stay_attached_partial (from-to values): under "
    "the side condition that no two entries of a data set collocate with the same existing vertex / cell",
    "the direction of an (azimuth, dip) pair is a function parameter of the theorems (float trigonometry not proved; correspondence on "
    "axis-aligned directions, oracle on arbitrary angles to 1e-9)",
    "np.searchsorted on the augmented depth table is modelled as `number of entries < d` (equal for non-decreasing tables, the stated domain)",
    "np.argsort is modelled as a stable sort; histories in which two vertices carry the same depth are outside the correspondence (oracle only)",
    "beyond the final survey the theorem states what the code does: the LAST LEG's deviation (mean of the last two station directions) is continued",
]
TRUSTED = [
    "Coq 8.16.1 kernel + vm_compute (correspondence evaluation); no axioms (Print Assumptions: closed)",
    "hand-written models coq/theories/Model/{Desurvey,HoleData}.v of Drillhole.locations/desurvey/compute_deviation, "
    "validate_depth_data/validate_interval_data/add_vertices/sort_depths and utils.match_values/merge_arrays; tied to the code by "
    "running both on the same generated survey tables, query depths and histories of data additions",
    "numpy searchsorted/argsort/unique/delete/fancy assignment semantics and float arithmetic on dyadic inputs (exercised, not modelled); "
    "floats are compared after rounding to multiples of 2^-20 (tolerance 1e-9)",
    "tools/props/c18.py (generator, driver, canonicalisation to rows that do not depend on the order of tied vertices, oracle); "
    "the poisoned np.divide probe replaces an uninitialised output by NaN (numpy documents those entries as uninitialised)",
]
ASSUMPTIONS = [
    "survey depths are non-decreasing and not negative (the stated domain); collar, depths and values are small dyadic rationals",
    "survey tables are stored as float32 by the library: depths/angles are chosen exactly representable",
    "the model follows the repaired validate_depth_data (fixes/C18-depth-after-interval-misaligned.patch: DEPTH padded to n_vertices before "
    "matching); on a tree without it the oracle reports depth-after-interval-misaligned",
    "the model follows the repaired compute_deviation (/repo commit 9179588 = fixes/C18-divide-uninitialised.patch); on a tree without it "
    "the oracle reports divide-where-uninitialised (poisoned-output probe) and off-path positions beyond a zero-length last leg",
]
RULE = (
    "survey tables of 1-6 rows (default table, single row, first depth 0 or > 0, equal consecutive depths) with axis-aligned "
    "directions (azimuth multiple of 90, dip in {-90, 0, 90}) for the correspondence and arbitrary angles for the oracle; query depths "
    "at, between and beyond the stations and 0; histories of 1-3 add_data calls, each with 1-3 depth / from-to data sets (later sets of a call repeating depths of earlier ones, arrays in unsorted logging order), with depths that repeat, "
    "collocate within / outside the tolerance (default 0.01 and explicit ones), arrive unsorted and overlap earlier intervals. "
    "plus histories on one hole mixing position queries, collar changes, survey-table changes and add_data calls (the path is always "
    "used before it is changed). non-trivial = at least two stations with different directions, or a history with a collocated or "
    "unsorted addition, or a collar / survey change after the path was used"
)
LEVEL_TEXT = (
    "Proved for all collars, all survey tables with non-decreasing non-negative depths (single-row and repeated depths included) and all "
    "query depths (Coq, no axioms): the position at depth 0 is the collar; strictly after station k up to station k+1 the position is "
    "location_k + (d - depth_k) * deviation_k, where deviation_k is the mean of the two station directions when the leg has a length and "
    "the common direction when they coincide; legs join (location_{k+1} = location_k + length_k * deviation_k) and desurveying a station's "
    "own depth yields that station's location (continuity); beyond the last station the last leg's deviation is continued. For all "
    "histories of add_data calls (any number of depth / from-to data sets per call): every vertex with a DEPTH value sits where "
    "desurvey puts that depth (C18_vertex_on_surveyed_path; in leg k at loc_k + (d - depth_k) * dev_k, C18_vertex_in_leg), every cell joins the "
    "desurveyed positions of its FROM and TO values, all arrays stay aligned (through sort_depths); the cached path is never stale: after any history of API CALLS (collar / survey setters, queries, add_data; in-place writes into the arrays `collar` / `locations` hand out are not calls: collar[\"x\"] = v is modelled and refuted, writes into `locations` are out of scope) the path used is that of the current collar and surveys (C18_path_cache_coherent). Partial: values stay attached under a side "
    "condition (refuted without it: open finding); the direction map (trigonometry) is a parameter; np.divide(where=) without out= is "
    "repaired by a fix patch (the unrepaired code reads uninitialised memory; probed by the oracle with a poisoned output). The model is "
    "tied to the code on every run by evaluating it inside Coq on generated inputs."
)
TECHNIQUE = "Coq proofs over Q (setoid reasoning, sorted-table search lemma, permutation invariants) + in-Coq differential evaluation"

SCALE = 1 << 20


# ----------------------------------------------------------------------------- helpers
def _fr(x) -> Fraction:
    return Fraction(x)


def cq(x) -> str:
    f = _fr(x)
    n = f"({f.numerator})%Z" if f.numerator < 0 else f"{f.numerator}%Z"
    return f"(Qmake {n} {f.denominator}%positive)"


def cv3(p) -> str:
    return "(" + ", ".join(cq(x) for x in p) + ")"


def coq_oq(x) -> str:
    return "None" if x is None else f"(Some {cq(x)})"


def _obs_num(x):
    x = float(x)
    if x != x:
        return None
    if abs(x) > 1e12:
        return {"float": repr(x)}
    r = round(x * SCALE)
    if abs(x - r / SCALE) > 1e-9:
        return {"float": repr(x)}
    f = Fraction(r, SCALE)
    return f"{f.numerator}/{f.denominator}"


def _is_exact(v) -> bool:
    if isinstance(v, list):
        return all(_is_exact(x) for x in v)
    return v is None or isinstance(v, str)


EXACT_AZ = [0, 90, 180, 270, 360, -90, 450]
EXACT_DIP = [-90, -90, 0, 90]


def _exact_table(surveys) -> bool:
    return surveys is None or all(float(a) % 90 == 0 and float(d) in (-90.0, 0.0, 90.0) for _, a, d in surveys)


# ----------------------------------------------------------------------------- generation
def gen_surveys(rng, exact=True):
    w = rng.below(100)
    if w < 8:
        return None  # default table [[0, 0, -90]]
    n = 1 if w < 22 else rng.range(2, 6)
    depth = 0.0 if rng.chance(55) else rng.choice([0.5, 2.0, 5.0, 10.0])
    rows = []
    for _ in range(n):
        if exact:
            az, dip = rng.choice(EXACT_AZ), rng.choice(EXACT_DIP)
        else:
            az, dip = rng.choice([0, 30, 45, 120, 200.5, 315, -45, 725]), rng.choice([-90, -60, -45, -30, -12.5, 0, 15, 80])
        rows.append([depth, az, dip])
        depth += 0.0 if rng.chance(18) else rng.choice([0.5, 1.0, 2.5, 5.0, 10.0, 3.0])
    return rows


def gen_collar(rng):
    return [rng.range(-20, 20) * 0.5, rng.range(-20, 20) * 0.5, rng.range(-8, 8) * 0.25]


def gen_queries(rng, surveys):
    st = [0.0] + ([r[0] for r in surveys] if surveys else [0.0])
    qs = [0.0] + list(st)
    for a, b in zip(st, st[1:]):
        if b > a:
            qs.append((a + b) / 2)
            qs.append(a + (b - a) / 4)
    last = st[-1]
    qs += [last + 0.5, last + 7.0]
    qs += [rng.range(0, 80) * 0.25 for _ in range(3)]
    return rng.shuffle(qs)[:14]


def gen_desurvey(rng, exact):
    s = gen_surveys(rng, exact)
    return {"kind": "desurvey", "exact": exact, "collar": gen_collar(rng), "surveys": s, "queries": gen_queries(rng, s)}


TOLS = [None, None, 0.25, 1 / 1024, 0.5]


def _near(rng, pool, tol):
    """a depth that repeats / collocates with one already used, or a fresh one."""
    t = 0.01 if tol is None else tol
    w = rng.below(100)
    if pool and w < 22:
        return rng.choice(pool)
    if pool and w < 40:
        return rng.choice(pool) + rng.choice([1, -1]) * (t / 4 if tol is not None else 1 / 256)
    if pool and w < 50:
        return rng.choice(pool) + rng.choice([1, -1]) * (4 * t if tol is not None else 0.0625)
    return rng.range(0, 160) * 0.25


def _gen_sub(rng, wild, name, tol, pool, ipool, share=None):
    """one data set; `share`: an earlier data set of the same call whose depths / intervals are partly repeated."""
    kind = share["op"] if share is not None else ("depth" if rng.chance(60) else "interval")
    if kind == "depth":
        n = rng.range(1, 5)
        ds = []
        if share is not None:
            ds = [d for d in share["depth"] if rng.chance(60)]
        for _ in range(n):
            d = max(0.0, _near(rng, pool, tol))
            if not wild:
                t = 0.01 if tol is None else tol
                if any(abs(d - e) < 2 * t + 1e-12 for e in ds):
                    continue
            ds.append(d)
        if not ds:
            ds = [rng.range(0, 160) * 0.25]
        if wild and rng.chance(25):
            ds.append(rng.choice(ds))  # the same depth twice in one data set
        if rng.chance(70):
            ds = rng.shuffle(ds)  # logging order, not sorted
        vals = [None if rng.chance(8) else rng.range(-50, 50) * 0.5 for _ in ds]
        return {"op": "depth", "name": name, "depth": ds, "values": vals}
    n = rng.range(1, 4)
    fts = []
    if share is not None:
        fts = [list(p) for p in share["ft"] if rng.chance(60)]
    for _ in range(n):
        if ipool and rng.chance(35):
            f, t = rng.choice(ipool)
            if rng.chance(40):
                f += (1 / 256 if tol is None else tol / 4)
        else:
            f = max(0.0, _near(rng, pool + [x for p in ipool for x in p], None))
            t = f + rng.choice([0.5, 1.0, 2.0, 0.25])
        if not wild and any(abs(f - a) + abs(t - b) < 2 for a, b in fts):
            continue
        fts.append([f, t])
    if not fts:
        f = rng.range(0, 160) * 0.25
        fts = [[f, f + 1.0]]
    if rng.chance(60):
        fts = rng.shuffle(fts)
    vals = [None if rng.chance(8) else rng.range(-50, 50) * 0.5 for _ in fts]
    return {"op": "interval", "name": name, "ft": fts, "values": vals}


def gen_data(rng, wild):
    """a history of add_data calls, each with 1-3 data sets (validated in turn, sorted once at the end of the call).
    wild: repeated depths inside one data set / collisions allowed (oracle only when the model cannot express them)."""
    s = gen_surveys(rng, True)
    calls, pool, ipool, name = [], [], [], 0
    for _ in range(rng.range(1, 4)):
        tol = rng.choice(TOLS)
        subs = []
        for k in range(rng.weighted([(1, 55), (2, 33), (3, 12)])):
            share = None
            if subs and rng.chance(65):
                share = rng.choice(subs)  # a later data set of the call repeats depths of an earlier one
            sub = _gen_sub(rng, wild, name, tol, pool, ipool, share)
            name += 1
            subs.append(sub)
            if sub["op"] == "depth":
                pool += sub["depth"]
            else:
                ipool += [tuple(x) for x in sub["ft"]]
        calls.append({"tol": tol, "subs": subs})
    return {"kind": "data", "collar": gen_collar(rng), "surveys": s, "calls": calls}


def gen_hist(rng):
    """one hole: position queries, collar changes, survey changes and add_data calls in any order (changes mostly before the
    first data call; the path is always evaluated at least once before a change)."""
    s = gen_surveys(rng, True)
    steps, pool, ipool, name = [], [], [], 0
    cur = s
    data_seen = False
    for _ in range(rng.range(3, 7)):
        w = rng.below(100)
        if w < 8 and steps:
            # not a setter call: a write into the array the `collar` getter hands out
            steps.append({"op": "collar_x", "value": rng.range(-20, 20) * 0.5})
            steps.append({"op": "query", "depths": [0.0, 1.0]})
        elif w < 35:
            steps.append({"op": "query", "depths": [0.0] + gen_queries(rng, cur)[:4]})
        elif w < 55 and (not data_seen or rng.chance(25)):
            steps.append({"op": "collar", "value": gen_collar(rng)})
        elif w < 68 and (not data_seen or rng.chance(25)):
            cur = gen_surveys(rng, True) or [[0.0, 0, -90]]
            steps.append({"op": "surveys", "value": cur})
        else:
            tol = rng.choice(TOLS)
            subs = []
            for k in range(rng.weighted([(1, 70), (2, 30)])):
                sub = _gen_sub(rng, False, name, tol, pool, ipool, None)
                name += 1
                subs.append(sub)
                if sub["op"] == "depth":
                    pool += sub["depth"]
                else:
                    ipool += [tuple(x) for x in sub["ft"]]
            steps.append({"op": "call", "tol": tol, "subs": subs})
            data_seen = True
    if not any(st["op"] in ("query", "call") for st in steps[:-1]) or steps[-1]["op"] in ("collar", "surveys"):
        steps.insert(0, {"op": "query", "depths": [0.0, 1.0]})
        steps.append({"op": "query", "depths": [0.0, 2.5]})
    return {"kind": "hist", "collar": gen_collar(rng), "surveys": s, "steps": steps}


def _calls(case):
    """histories are lists of calls; corpus files written before multi-data-set calls existed list single ops."""
    if "calls" in case:
        return case["calls"]
    return [{"tol": op["tol"], "subs": [{k: v for k, v in op.items() if k != "tol"}]} for op in case["ops"]]


def generate(rng, tier):
    thorough = tier != "quick"
    cases = []
    for _ in range(1500 if thorough else 110):
        cases.append(gen_desurvey(rng, True))
    for _ in range(600 if thorough else 50):
        cases.append(gen_desurvey(rng, False))
    # forced patterns: single row at depth 0 / > 0, all stations at one depth, default table
    cases += [
        {"kind": "desurvey", "exact": True, "collar": [0, 0, 0], "surveys": [[0, 0, -90]], "queries": [0, 1, 2.5]},
        {"kind": "desurvey", "exact": True, "collar": [1, 2, 3], "surveys": [[5, 90, 0]], "queries": [0, 3, 5, 7]},
        {"kind": "desurvey", "exact": True, "collar": [1, 2, 3], "surveys": [[0, 0, -90], [0, 90, 0], [0, 0, 0]], "queries": [0, 1, 4]},
        {"kind": "desurvey", "exact": True, "collar": [1, 2, 3], "surveys": None, "queries": [0, 1, 4]},
        {"kind": "desurvey", "exact": True, "collar": [1, 2, 3], "surveys": [[0, 0, -90], [10, 90, 0], [10, 0, 0], [20, 0, -90]],
         "queries": [0, 5, 10, 15, 20, 25]},
    ]
    # two depth data sets in ONE call: the first in logging (unsorted) order, the second sharing depths with it; and the
    # from-to analogue; and a from-to set followed by a depth set while DEPTH exists
    cases += [
        {"kind": "data", "collar": [100, 200, 300], "surveys": [[0, 0, -90], [40, 90, 0], [80, 0, -90]], "calls": [
            {"tol": None, "subs": [
                {"op": "depth", "name": 0, "depth": [75, 15, 45, 105, 30], "values": [7.5, 1.5, 4.5, 10.5, 3.0]},
                {"op": "depth", "name": 1, "depth": [15, 60, 30, 90, 105], "values": [-15, -60, -30, -90, -105]}]}]},
        {"kind": "data", "collar": [0, 0, 0], "surveys": None, "calls": [
            {"tol": None, "subs": [
                {"op": "interval", "name": 0, "ft": [[30, 31], [10, 12], [20, 21]], "values": [3, 1, 2]},
                {"op": "interval", "name": 1, "ft": [[10, 12], [40, 41], [30, 31]], "values": [-1, -4, -3]}]}]},
        {"kind": "data", "collar": [0, 0, 0], "surveys": None, "calls": [
            {"tol": None, "subs": [{"op": "depth", "name": 0, "depth": [10, 5], "values": [1, 2]}]},
            {"tol": None, "subs": [{"op": "interval", "name": 1, "ft": [[1, 2]], "values": [7]},
                                   {"op": "depth", "name": 2, "depth": [20, 5], "values": [3, 4]}]}]},
    ]
    for _ in range(1500 if thorough else 120):
        cases.append(gen_data(rng, wild=False))
    for _ in range(800 if thorough else 60):
        cases.append(gen_data(rng, wild=True))
    for _ in range(900 if thorough else 90):
        cases.append(gen_hist(rng))
    return cases


# ----------------------------------------------------------------------------- implementation driver
class _PoisonNP:
    """numpy stand-in for geoh5py.objects.drillhole: an np.divide(..., where=...) call without out= gets an output
    pre-filled with NaN, i.e. the worst admissible content of the memory numpy leaves uninitialised there."""

    def __init__(self, np):
        self._np = np
        self.poisoned = 0

    def __getattr__(self, name):
        return getattr(self._np, name)

    def divide(self, *args, **kw):
        np = self._np
        if "where" in kw and kw.get("out") is None and len(args) < 3:
            self.poisoned += 1
            shape = np.broadcast(*[np.asarray(a) for a in args[:2]], np.asarray(kw["where"])).shape
            kw["out"] = np.full(shape, np.nan)
        return np.divide(*args, **kw)


def _mk_hole(ws, case):
    import numpy as np
    from geoh5py.objects import Drillhole

    kw = {"collar": [float(x) for x in case["collar"]]}
    if case["surveys"] is not None:
        kw["surveys"] = np.array(case["surveys"], dtype=float)
    return Drillhole.create(ws, **kw)


def _drive_desurvey(case, ws):
    import numpy as np
    import geoh5py.objects.drillhole as dh

    w = _mk_hole(ws, case)
    q = np.array([float(x) for x in case["queries"]], dtype=float)
    res = {"locations": [[_obs_num(x) for x in r] for r in np.asarray(w.locations).tolist()],
           "positions": [[_obs_num(x) for x in r] for r in np.asarray(w.desurvey(q)).tolist()],
           "raw": np.asarray(w.desurvey(q)).tolist(),
           "surveys_read": np.asarray(w.surveys).tolist()}
    # poisoned-allocation probe on a fresh hole
    real = dh.np
    proxy = _PoisonNP(real)
    dh.np = proxy
    try:
        w2 = _mk_hole(ws, case)
        out = np.r_[np.asarray(w2.locations).ravel(), np.asarray(w2.desurvey(q)).ravel()]
        res["poison_calls"] = proxy.poisoned
        res["poison_nan"] = bool(np.isnan(out).any())
    finally:
        dh.np = real
    return res


def _rows(w, vnames, cnames):
    import numpy as np

    verts = None if w.vertices is None else np.asarray(w.vertices, dtype=float)
    nv = 0 if verts is None else verts.shape[0]
    cells = None if w.cells is None else np.asarray(w.cells).astype(int)
    nc = 0 if cells is None else cells.shape[0]

    def child(name, n):
        objs = w.get_data(name)
        if not objs or objs[0].values is None:
            return [None] * n
        v = np.asarray(objs[0].values, dtype=float).ravel().tolist()
        v = v[:n] + [float("nan")] * (n - len(v))
        return [_obs_num(x) for x in v]

    depth = child("DEPTH", nv)
    vcols = [child(f"v{k}", nv) for k in vnames]
    vrows = [[depth[i], [_obs_num(x) for x in verts[i]], [c[i] for c in vcols]] for i in range(nv)]
    crows = []
    if nc:
        frm, to = child("FROM", nc), child("TO", nc)
        ccols = [child(f"c{k}", nc) for k in cnames]
        for c in range(nc):
            a, b = int(cells[c, 0]), int(cells[c, 1])
            pa = [_obs_num(x) for x in verts[a]] if 0 <= a < nv else None
            pb = [_obs_num(x) for x in verts[b]] if 0 <= b < nv else None
            crows.append([pa, pb, frm[c], to[c], [col[c] for col in ccols]])
    return {"vrows": vrows, "crows": crows}


def _drive_data(case, ws):
    import numpy as np

    w = _mk_hole(ws, case)
    res = {"steps": []}
    vnames, cnames = [], []
    for k, call in enumerate(_calls(case)):
        kw = {} if call["tol"] is None else {"collocation_distance": float(call["tol"])}
        data = {}
        for sub in call["subs"]:
            vals = np.array([float("nan") if v is None else float(v) for v in sub["values"]])
            if sub["op"] == "depth":
                data[f"v{sub['name']}"] = {"depth": np.array(sub["depth"], dtype=float), "values": vals}
            else:
                data[f"c{sub['name']}"] = {"from-to": np.array(sub["ft"], dtype=float).reshape((-1, 2)), "values": vals}
        try:
            w.add_data(data, **kw)
        except Exception as e:  # noqa: BLE001
            res["error"] = type(e).__name__
            res["msg"] = str(e)[:200]
            res["at"] = k
            break
        for sub in call["subs"]:
            (vnames if sub["op"] == "depth" else cnames).append(sub["name"])
        res["steps"].append(_rows(w, vnames, cnames))
    return res


def _drive_hist(case, ws):
    import numpy as np

    w = _mk_hole(ws, case)
    res = {"outs": [], "inplace_refused": []}
    vnames, cnames = [], []
    for k, st in enumerate(case["steps"]):
        try:
            if st["op"] == "collar_x":
                try:
                    w.collar["x"] = float(st["value"])
                    res["inplace_refused"].append(False)
                except (ValueError, TypeError, IndexError):
                    res["inplace_refused"].append(True)
            elif st["op"] == "collar":
                w.collar = [float(x) for x in st["value"]]
            elif st["op"] == "surveys":
                w.surveys = np.array(st["value"], dtype=float)
            elif st["op"] == "query":
                q = np.array([float(x) for x in st["depths"]], dtype=float)
                res["outs"].append({"positions": [[_obs_num(x) for x in r] for r in np.asarray(w.desurvey(q)).tolist()]})
            else:
                kw = {} if st["tol"] is None else {"collocation_distance": float(st["tol"])}
                data = {}
                for sub in st["subs"]:
                    vals = np.array([float("nan") if v is None else float(v) for v in sub["values"]])
                    if sub["op"] == "depth":
                        data[f"v{sub['name']}"] = {"depth": np.array(sub["depth"], dtype=float), "values": vals}
                    else:
                        data[f"c{sub['name']}"] = {"from-to": np.array(sub["ft"], dtype=float).reshape((-1, 2)), "values": vals}
                w.add_data(data, **kw)
                for sub in st["subs"]:
                    (vnames if sub["op"] == "depth" else cnames).append(sub["name"])
                res["outs"].append(_rows(w, vnames, cnames))
        except Exception as e:  # noqa: BLE001
            res["error"] = type(e).__name__
            res["msg"] = str(e)[:200]
            res["at"] = k
            break
    return res


def drive_one(case, work):
    from geoh5py import Workspace

    path = f"{work}/c18.geoh5"
    if os.path.exists(path):
        os.remove(path)
    try:
        with Workspace.create(path) as ws:
            if case["kind"] == "desurvey":
                return _drive_desurvey(case, ws)
            if case["kind"] == "hist":
                return _drive_hist(case, ws)
            return _drive_data(case, ws)
    finally:
        if os.path.exists(path):
            os.remove(path)


# ----------------------------------------------------------------------------- Coq case terms
def _table(case):
    s = case["surveys"] if case["surveys"] is not None else [[0, 0, -90]]
    return clist(f"({cq(d)}, ({cq(a)}, {cq(p)}))" for d, a, p in s)


def _sorted_table(case):
    s = case["surveys"] if case["surveys"] is not None else [[0, 0, -90]]
    ds = [0] + [r[0] for r in s]
    return all(a <= b for a, b in zip(ds, ds[1:]))


def _vrow(r):
    return f"({coq_oq(r[0])}, {cv3(r[1])}, {clist(coq_oq(x) for x in r[2])})"


def _crow(r):
    pa = "None" if r[0] is None else f"(Some {cv3(r[0])})"
    pb = "None" if r[1] is None else f"(Some {cv3(r[1])})"
    return f"({pa}, {pb}, {cq(r[2])}, {cq(r[3])}, {clist(coq_oq(x) for x in r[4])})"


def _ops_term(case):
    calls = []
    for call in _calls(case):
        tol = cq(0.01 if call["tol"] is None else call["tol"])
        out = []
        for op in call["subs"]:
            vals = clist(coq_oq(v) for v in op["values"])
            if op["op"] == "depth":
                out.append(f"AddDepth {cnat(op['name'])} {clist(cq(d) for d in op['depth'])} {vals} {tol}")
            else:
                out.append(f"AddInterval {cnat(op['name'])} {clist('(%s, %s)' % (cq(f), cq(t)) for f, t in op['ft'])} {vals} {tol}")
        calls.append(clist(out))
    return clist(calls)


def _subs_term(subs, tol):
    t = cq(0.01 if tol is None else tol)
    out = []
    for op in subs:
        vals = clist(coq_oq(v) for v in op["values"])
        if op["op"] == "depth":
            out.append(f"AddDepth {cnat(op['name'])} {clist(cq(d) for d in op['depth'])} {vals} {t}")
        else:
            out.append(f"AddInterval {cnat(op['name'])} {clist('(%s, %s)' % (cq(f), cq(t2)) for f, t2 in op['ft'])} {vals} {t}")
    return clist(out)


def _stations(s):
    return clist(f"({cq(d)}, ({cq(a)}, {cq(p)}))" for d, a, p in s)


def _hist_term(case, obs):
    if "error" in obs:
        return "false"
    tables = [case["surveys"] if case["surveys"] is not None else [[0, 0, -90]]] + [st["value"] for st in case["steps"] if st["op"] == "surveys"]
    for tb in tables:
        ds = [0] + [r[0] for r in tb]
        if not _exact_table(tb) or any(a > b for a, b in zip(ds, ds[1:])):
            return None
    ops, outs = [], []
    it = iter(obs["outs"])
    refused = iter(obs.get("inplace_refused", []))
    for st in case["steps"]:
        if st["op"] == "collar_x":
            ops.append(f"DCollarX {'true' if next(refused) else 'false'} {cq(st['value'])}")
        elif st["op"] == "collar":
            ops.append(f"DSetCollar {cv3(st['value'])}")
        elif st["op"] == "surveys":
            ops.append(f"DSetSurveys {_stations(st['value'])}")
        elif st["op"] == "query":
            o = next(it)
            if not _is_exact(o["positions"]) or any(x is None for r in o["positions"] for x in r):
                return "false"
            ops.append(f"DQuery {clist(cq(q) for q in st['depths'])}")
            outs.append("OQuery %s" % clist(f"(Some {cv3(r)})" for r in o["positions"]))
        else:
            o = next(it)
            for r in o["vrows"]:
                if not _is_exact(r) or any(x is None for x in r[1]):
                    return "false"
            for r in o["crows"]:
                if not _is_exact(r) or r[0] is None or r[1] is None or r[2] is None or r[3] is None:
                    return "false"
            ds = [r[0] for r in o["vrows"] if r[0] is not None]
            if len(ds) != len(set(Fraction(d) for d in ds)):
                return None
            ops.append(f"DCall {_subs_term(st['subs'], st['tol'])}")
            outs.append("OCall %s %s" % (clist(_vrow(r) for r in o["vrows"]), clist(_crow(r) for r in o["crows"])))
    return f"dh_agree {cv3(case['collar'])} {_stations(tables[0])} {clist(ops)} {clist(outs)}"


def case_term(case, obs):
    if case["kind"] == "hist":
        return _hist_term(case, obs)
    if not _exact_table(case["surveys"]) or not _sorted_table(case):
        return None
    if case["kind"] == "desurvey":
        if not case.get("exact"):
            return None
        if not (_is_exact(obs["locations"]) and _is_exact(obs["positions"])) or any(x is None for r in obs["locations"] + obs["positions"] for x in r):
            return "false"
        return "desurvey_agree %s %s %s %s %s" % (cv3(case["collar"]), _table(case), clist(cq(q) for q in case["queries"]),
                                                  clist(cv3(r) for r in obs["locations"]), clist(cv3(r) for r in obs["positions"]))
    if "error" in obs:
        return "false"
    steps = obs["steps"]
    for st in steps:
        for r in st["vrows"]:
            if not _is_exact(r) or any(x is None for x in r[1]):
                return "false"
        for r in st["crows"]:
            if not _is_exact(r) or r[2] is None or r[3] is None:
                return "false"
    ob = clist("(%s, %s)" % (clist(_vrow(r) for r in st["vrows"]), clist(_crow(r) for r in st["crows"])) for st in steps)
    collar, table, ops = cv3(case["collar"]), _table(case), _ops_term(case)
    # histories in which two vertices share a depth are outside the model (np.argsort's tie order is unspecified): counted as
    # not expressible, the oracle alone judges them
    for st in steps:
        ds = [r[0] for r in st["vrows"] if r[0] is not None]
        if len(ds) != len(set(Fraction(d) for d in ds)):
            return None
    return f"hole_agree {collar} {table} empty_hole {ops} {ob}"


def model_term(case):
    if case["kind"] == "hist":
        return None
    if not _exact_table(case["surveys"]) or not _sorted_table(case):
        return None
    if case["kind"] == "desurvey":
        return "(locations dir_exact %s %s, map (desurvey dir_exact %s %s) %s)" % (
            cv3(case["collar"]), _table(case), cv3(case["collar"]), _table(case), clist(cq(q) for q in case["queries"]))
    collar, table, ops = cv3(case["collar"]), _table(case), _ops_term(case)
    return f"(let h := hrunc (pos_exact {collar} {table}) empty_hole {ops} in (vrows h, crows h))"


# ----------------------------------------------------------------------------- oracle (property text)
def _dir(az, dip, exact):
    """unit vector of a station: azimuth clockwise from north, dip negative downwards (east, north, up)."""
    if exact:
        q = int((Fraction(az) / 90) % 4)
        sa, ca = [(0, 1), (1, 0), (0, -1), (-1, 0)][q]  # (sin az, cos az)
        sd, cd = {-90: (-1, 0), 0: (0, 1), 90: (1, 0)}[int(dip)]
        return (Fraction(sa * cd), Fraction(ca * cd), Fraction(sd))
    a, d = math.radians(float(az)), math.radians(float(dip))
    return (math.sin(a) * math.cos(d), math.cos(a) * math.cos(d), math.sin(d))


class _Path:
    """the surveyed path written from the property text: collar at 0, each leg along the mean of its two station directions,
    the last leg's direction continued beyond the final station."""

    def __init__(self, collar, surveys, exact):
        num = Fraction if exact else float
        s = surveys if surveys is not None else [[0, 0, -90]]
        self.t = [num(0)] + [num(r[0]) for r in s]
        dirs = [_dir(s[0][1], s[0][2], exact)] + [_dir(r[1], r[2], exact) for r in s]
        self.dev = [tuple((a + b) / 2 for a, b in zip(dirs[k], dirs[k + 1])) for k in range(len(s))]
        self.loc = [tuple(num(x) for x in collar)]
        for k in range(len(s)):
            ln = self.t[k + 1] - self.t[k]
            self.loc.append(tuple(p + ln * v for p, v in zip(self.loc[-1], self.dev[k])))
        self.num = num

    def pos(self, d):
        d = self.num(d)
        n = len(self.dev)
        k = 0
        while k + 1 < n and d > self.t[k + 1]:
            k += 1
        if d > self.t[n]:
            return tuple(p + (d - self.t[n]) * v for p, v in zip(self.loc[n], self.dev[n - 1]))
        if d <= self.t[0]:
            return tuple(p + (d - self.t[0]) * v for p, v in zip(self.loc[0], self.dev[0]))
        return tuple(p + (d - self.t[k]) * v for p, v in zip(self.loc[k], self.dev[k]))


def _oracle_desurvey(case, obs):
    fails = []
    if obs.get("poison_nan"):
        fails.append({"key": "divide-where-uninitialised",
                      "what": f"with the uninitialised output of np.divide(where=) set to NaN ({obs.get('poison_calls')} calls) locations/desurvey contain NaN: "
                              "the result depends on memory numpy leaves uninitialised for zero-length legs"})
    if not _sorted_table(case):
        return fails
    exact = bool(case.get("exact")) and _exact_table(case["surveys"])
    path = _Path(case["collar"], case["surveys"], exact)
    raw = obs["raw"]
    tol = 0 if exact else 1e-9
    if exact and not _is_exact(obs["positions"]):
        return fails + [{"key": "desurvey-inexact", "what": "inexact position on an axis-aligned table with dyadic depths"}]

    def differs(got, want):
        if exact:
            return tuple(Fraction(x) for x in got) != tuple(want)
        return any(abs(g - w) > tol * max(1.0, abs(w)) for g, w in zip(got, want))

    for q, pos_exact, pos_raw in zip(case["queries"], obs["positions"], raw):
        if q < 0:
            continue
        want = path.pos(q)
        got = pos_exact if exact else pos_raw
        if any(x is None for x in got) or differs(got, want):
            where = "collar-at-zero" if q == 0 else ("beyond-last" if q > path.t[-1] else ("at-station" if any(q == t for t in path.t) else "within-leg"))
            fails.append({"key": f"desurvey-off-path-{where}", "what": f"depth {q}: position {pos_raw}, surveyed path gives {tuple(map(float, want))}"})
            break
    # the stations themselves
    locs = obs["locations"]
    if exact and _is_exact(locs) and len(locs) == len(path.loc):
        for k, (g, w) in enumerate(zip(locs, path.loc)):
            if any(x is None for x in g) or tuple(Fraction(x) for x in g) != tuple(w):
                fails.append({"key": "locations-off-path", "what": f"station {k}: location {g}, path gives {tuple(map(str, w))}"})
                break
    return fails


def _oracle_data(case, obs):
    calls = _calls(case)
    if "error" in obs:
        return [{"key": "add-data-refused", "what": f"call {obs['at']} raised {obs['error']}: {obs.get('msg')}"}]
    if not _sorted_table(case) or not _exact_table(case["surveys"]):
        return []
    path = _Path(case["collar"], case["surveys"], True)
    return _judge_calls(calls, obs["steps"], [path] * len(calls))


def _judge_calls(calls, steps, paths):
    """paths[k]: the surveyed path every vertex / cell must lie on after call k, or None when vertices created on an earlier
    path (before a collar / survey change) are present and positions are not judged."""
    fails = []
    obs = {"steps": steps}
    added_v, added_c = [], []  # (name, j, depth, value, tol, call, before, rivals) / (name, j, f, t, value, tol, call, before, rivals)
    vorder, corder = [], []
    had_depth = False
    for k, (call, st) in enumerate(zip(calls, obs["steps"])):
        tol = Fraction(0.01) if call["tol"] is None else Fraction(call["tol"])
        vrows, crows = st["vrows"], st["crows"]
        path = paths[k]
        kinds = [sub["op"] for sub in call["subs"]]
        # the recorded (repaired) defect: a from-to data set validated before a depth data set of the same call while DEPTH exists
        mixed = had_depth and any(a == "interval" and "depth" in kinds[i + 1:] for i, a in enumerate(kinds))
        # every vertex with a depth sits at the position of that depth
        for i, r in enumerate(vrows):
            if not _is_exact(r) or any(x is None for x in r[1]):
                fails.append({"key": "vertex-inexact", "what": f"after call {k}: vertex {i} = {r}"})
                return fails
            if path is not None and r[0] is not None and tuple(Fraction(x) for x in r[1]) != path.pos(Fraction(r[0])):
                key = "depth-after-interval-misaligned" if mixed else "vertex-not-at-depth"
                fails.append({"key": key, "what": f"after call {k}: vertex {i} has DEPTH {r[0]} but sits at {r[1]}"})
                return fails
        # every cell joins the positions of its from / to
        for c, r in enumerate(crows):
            if r[0] is None or r[1] is None or r[2] is None or r[3] is None or not _is_exact(r):
                fails.append({"key": "cell-dangling", "what": f"after call {k}: cell {c} = {r}"})
                return fails
            if path is not None and (tuple(Fraction(x) for x in r[0]) != path.pos(Fraction(r[2])) or tuple(Fraction(x) for x in r[1]) != path.pos(Fraction(r[3]))):
                fails.append({"key": "cell-not-joining-from-to", "what": f"after call {k}: cell {c} FROM {r[2]} TO {r[3]} joins {r[0]} - {r[1]}"})
                return fails
        # the values of this and of every earlier call are attached to their depth / interval
        prev = obs["steps"][k - 1] if k else {"vrows": [], "crows": []}
        before_v = [Fraction(r[0]) for r in prev["vrows"] if r[0] is not None]
        before_c = [(Fraction(r[2]), Fraction(r[3])) for r in prev["crows"]]
        for sub in call["subs"]:
            if sub["op"] == "depth":
                ds = [Fraction(d) for d in sub["depth"]]
                added_v += [(sub["name"], j, d, v, tol, k, list(before_v), ds) for j, (d, v) in enumerate(zip(ds, sub["values"])) if v is not None]
                before_v += ds  # what later data sets of the same call are matched against
                vorder.append(sub["name"])
                had_depth = True
            else:
                fts = [(Fraction(f), Fraction(t)) for f, t in sub["ft"]]
                added_c += [(sub["name"], j, f, t, v, tol, k, list(before_c), fts) for j, ((f, t), v) in enumerate(zip(fts, sub["values"])) if v is not None]
                before_c += fts
                corder.append(sub["name"])
        for name, j, d, v, t, kk, before, ds in added_v:
            col = vorder.index(name)
            ok = any(r[0] is not None and abs(Fraction(r[0]) - d) < t and r[2][col] is not None and Fraction(r[2][col]) == Fraction(v) for r in vrows)
            if not ok:
                # the recorded defect: another entry of the same data set collocates with the same already existing vertex
                cands = [c for c in before if abs(c - d) < t]
                rival = any(j2 != j and any(abs(e - c) < t for c in cands) for j2, e in enumerate(ds))
                key = "depth-value-lost-collision" if rival else "depth-value-lost"
                fails.append({"key": key, "what": f"after call {k}: value {v} added at depth {float(d)} by call {kk} (data v{name}) is attached to no vertex within {float(t)}"})
                return fails
        for name, j, f, tt, v, t, kk, before, fts in added_c:
            col = corder.index(name)
            ok = any(r[2] is not None and (Fraction(r[2]) - f) ** 2 + (Fraction(r[3]) - tt) ** 2 < t * t and r[4][col] is not None
                     and Fraction(r[4][col]) == Fraction(v) for r in crows)
            if not ok:
                cands = [(a, b) for a, b in before if (a - f) ** 2 + (b - tt) ** 2 < t * t]
                rival = any(j2 != j and any((a - cf) ** 2 + (b - ct) ** 2 < t * t for cf, ct in cands) for j2, (a, b) in enumerate(fts))
                key = "interval-value-lost-collision" if rival else "interval-value-lost"
                fails.append({"key": key, "what": f"after call {k}: value {v} added on [{float(f)}, {float(tt)}] by call {kk} (data c{name}) is attached to no cell within {float(t)}"})
                return fails
    return fails


def _oracle_hist(case, obs):
    """collar / survey changes, queries and add_data calls on one hole: every query and every call uses the path of the
    collar and survey table as they are at that moment."""
    if "error" in obs:
        return [{"key": f"history-step-refused-{case['steps'][obs['at']]['op']}", "what": f"step {obs['at']} raised {obs['error']}: {obs.get('msg')}"}]
    fails = []
    collar, surveys = case["collar"], case["surveys"]
    calls, steps, paths = [], [], []
    data_seen = moved_after_data = False
    it = iter(obs["outs"])
    refused = iter(obs.get("inplace_refused", []))
    inplace_pending = False  # an accepted collar["x"] = v since the last setter call
    for k, st in enumerate(case["steps"]):
        if st["op"] == "collar_x":
            if not next(refused, True):
                collar = [st["value"], collar[1], collar[2]]
                inplace_pending = True
                moved_after_data = True  # vertices of later calls land on the stale path: judged through the queries
            continue
        if st["op"] in ("collar", "surveys"):
            inplace_pending = False
        if st["op"] == "collar":
            collar = st["value"]
            moved_after_data = moved_after_data or data_seen
        elif st["op"] == "surveys":
            surveys = st["value"]
            moved_after_data = moved_after_data or data_seen
        elif st["op"] == "query":
            out = next(it)
            path = _Path(collar, surveys, True)
            for q, got in zip(st["depths"], out["positions"]):
                if not _is_exact(got) or any(x is None for x in got) or tuple(Fraction(x) for x in got) != path.pos(q):
                    where = "collar-at-zero" if q == 0 else "query"
                    # the recorded defect: accepted in-place write into the collar array, no setter call since: the cached path
                    # keeps the OLD collar, i.e. the position is the expected one shifted along x only
                    want = path.pos(q)
                    xs = (inplace_pending and _is_exact(got) and all(x is not None for x in got)
                          and Fraction(got[0]) != want[0] and Fraction(got[1]) == want[1] and Fraction(got[2]) == want[2])
                    fails.append({"key": "collar-inplace-stale" if xs else f"stale-path-{where}", "what": f"step {k}: desurvey({q}) = {got}, the path of the current collar "
                                  f"{collar} and surveys gives {tuple(map(str, path.pos(q)))}"})
                    return fails
        else:
            out = next(it)
            calls.append(st)
            steps.append(out)
            paths.append(None if moved_after_data else _Path(collar, surveys, True))
            data_seen = True
    return fails + _judge_calls(calls, steps, paths)


def oracle(case, obs):
    if "crash" in obs:
        return [{"key": "driver-crash", "what": obs["crash"][:300]}]
    if case["kind"] == "desurvey":
        return _oracle_desurvey(case, obs)
    if case["kind"] == "hist":
        return _oracle_hist(case, obs)
    return _oracle_data(case, obs)


# ----------------------------------------------------------------------------- evidence
def nontrivial(case, obs):
    if case["kind"] == "hist":
        ops = [st["op"] for st in case["steps"]]
        first_use = min([i for i, o in enumerate(ops) if o in ("query", "call")] or [99])
        return any(o in ("collar", "surveys") and i > first_use for i, o in enumerate(ops))
    s = case["surveys"] or []
    if case["kind"] == "desurvey":
        return len({(r[1] % 360, r[2]) for r in s}) >= 2
    seen = []
    for call in _calls(case):
        if len(call["subs"]) > 1:
            return True
        for op in call["subs"]:
            ds = op["depth"] if op["op"] == "depth" else [x for p in op["ft"] for x in p]
            if ds != sorted(ds) or any(abs(d - e) < 0.3 for d in ds for e in seen):
                return True
            seen += ds
    return False


def histogram(cases, obs):
    h = {"kind": {}, "rows": {}, "first_depth_zero": 0, "repeated_station_depth": 0, "default_table": 0, "exact_tables": 0,
         "hist_steps": {}, "ops_per_history": {}, "data_sets_per_call": {}, "op_kinds": {"depth": 0, "interval": 0}, "explicit_tolerance": 0, "poison_nan": 0, "outcome": {}}
    for c, o in zip(cases, obs):
        h["kind"][c["kind"]] = h["kind"].get(c["kind"], 0) + 1
        s = c["surveys"]
        if s is None:
            h["default_table"] += 1
        else:
            n = str(len(s))
            h["rows"][n] = h["rows"].get(n, 0) + 1
            if s[0][0] == 0:
                h["first_depth_zero"] += 1
            if any(a[0] == b[0] for a, b in zip(s, s[1:])):
                h["repeated_station_depth"] += 1
        if _exact_table(s):
            h["exact_tables"] += 1
        if c["kind"] == "hist":
            for st in c["steps"]:
                h["hist_steps"][st["op"]] = h["hist_steps"].get(st["op"], 0) + 1
        if c["kind"] == "data":
            cl = _calls(c)
            n = str(len(cl))
            h["ops_per_history"][n] = h["ops_per_history"].get(n, 0) + 1
            for call in cl:
                m = str(len(call["subs"]))
                h["data_sets_per_call"][m] = h["data_sets_per_call"].get(m, 0) + 1
                if call["tol"] is not None:
                    h["explicit_tolerance"] += 1
                for op in call["subs"]:
                    h["op_kinds"][op["op"]] += 1
        if isinstance(o, dict) and o.get("poison_nan"):
            h["poison_nan"] += 1
        oc = "crash" if not isinstance(o, dict) or "crash" in o else o.get("error", "ok")
        h["outcome"][oc] = h["outcome"].get(oc, 0) + 1
    return h
