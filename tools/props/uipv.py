"""Shared plumbing for C14/C15: the tagged-JSON form of Python values (the `pv` universe of Model/PyVal.v), the fixed little
workspace the drivers build, Coq literals, value generators.

tagged JSON (J):  None | bool | int | str | {"f": [num, dexp] | "inf" | "-inf" | "nan" | "npnan"} | {"u": int} |
                  {"e": int, "k": "ent" | "pg:<type>"} | {"w": path} | {"ty": name} | {"l": [J]} | {"t": [J]} | {"d": [[J, J]]}
"""
from __future__ import annotations

import os

# ----------------------------------------------------------------------------- the world (fixed uids)
#   g0 ContainerGroup 0x10            g1 ContainerGroup 0x11 (empty)
#     p0 Points 0x20                    p1 Points 0x21 (child of root)
#       d00 Float 0x30  d01 Float 0x31  d02 Text 0x32        d10 Float 0x38
#       pg0 "Multi-element" 0x40 [d00,d01]   pg1 "Strike & dip" 0x41 [d00,d01]
WORLD = {
    "ents": {0x10: "ent", 0x11: "ent", 0x20: "ent", 0x21: "ent", 0x30: "ent", 0x31: "ent", 0x32: "ent", 0x38: "ent",
             0x40: "pg:Multi-element", 0x41: "pg:Strike & dip"},
    # descendants as Workspace.fetch_children(x, recursively=True) lists them (uids)
    "desc": {0x10: [0x20, 0x30, 0x31, 0x32, 0x40, 0x41], 0x11: [], 0x20: [0x30, 0x31, 0x32, 0x40, 0x41], 0x21: [0x38],
             0x30: [], 0x31: [], 0x32: [], 0x38: [], 0x40: [], 0x41: []},
    "objects": [0x20, 0x21], "groups": [0x10, 0x11], "data": {0x20: [0x30, 0x31, 0x32], 0x21: [0x38]},
    "pgs": {0x20: [0x40, 0x41]},
}
UNKNOWN_UIDS = [0x99, 0x9A]
_world_cache = {}
WORLD_NAME = ["world.geoh5"]     # file name of the world the current case uses (C14 varies it: extra dots, blanks)


def get_world(work):
    """Create (once per process, work dir and file name) the workspace; returns (ws, {uid int: live object}, path)."""
    key = str(work) + "//" + WORLD_NAME[0]
    if key in _world_cache:
        w = _world_cache[key]
        if w[0]._geoh5 is None:      # pylint: disable=protected-access  (a file case closed it)
            w[0].open(mode="r+")
        return w
    from uuid import UUID

    import numpy as np
    from geoh5py import Workspace
    from geoh5py.groups import ContainerGroup, PropertyGroup
    from geoh5py.objects import Points

    os.makedirs(work, exist_ok=True)
    path = os.path.join(str(work), WORLD_NAME[0])
    if os.path.exists(path):
        os.remove(path)
    ws = Workspace.create(path)
    objs = {}
    g0 = ContainerGroup.create(ws, uid=UUID(int=0x10), name="g0")
    g1 = ContainerGroup.create(ws, uid=UUID(int=0x11), name="g1")
    p0 = Points.create(ws, vertices=np.zeros((3, 3)), parent=g0, uid=UUID(int=0x20), name="p0")
    p1 = Points.create(ws, vertices=np.zeros((2, 3)), uid=UUID(int=0x21), name="p1")
    d00, d01 = p0.add_data({"d00": {"values": np.zeros(3), "uid": UUID(int=0x30)}, "d01": {"values": np.ones(3), "uid": UUID(int=0x31)}})
    d02 = p0.add_data({"d02": {"values": np.array(["a", "b", "c"]), "type": "text", "uid": UUID(int=0x32)}})
    d10 = p1.add_data({"d10": {"values": np.zeros(2), "uid": UUID(int=0x38)}})
    pg0 = PropertyGroup(p0, name="pg0", property_group_type="Multi-element", uid=UUID(int=0x40))
    pg0.add_properties([d00, d01])
    pg1 = PropertyGroup(p0, name="pg1", property_group_type="Strike & dip", uid=UUID(int=0x41))
    pg1.add_properties([d00, d01])
    for o in (g0, g1, p0, p1, d00, d01, d02, d10, pg0, pg1):
        objs[o.uid.int] = o
    _world_cache[key] = (ws, objs, path)
    return _world_cache[key]


# ----------------------------------------------------------------------------- Python object <-> tagged JSON
TYPE_OBJ = None


def _types():
    global TYPE_OBJ
    if TYPE_OBJ is None:
        from pathlib import Path
        from uuid import UUID

        from geoh5py import Workspace
        from geoh5py.groups import PropertyGroup
        from geoh5py.shared import Entity
        TYPE_OBJ = {"str": str, "int": int, "float": float, "bool": bool, "NoneType": type(None), "list": list, "tuple": tuple,
                    "dict": dict, "UUID": UUID, "Entity": Entity, "PropertyGroup": PropertyGroup, "Workspace": Workspace, "Path": Path}
    return TYPE_OBJ


def dec(j, work=None):
    """tagged JSON -> live Python object (fresh containers every time)"""
    if j is None or isinstance(j, (bool, int, str)):
        return j
    if "f" in j:
        f = j["f"]
        if f == "inf":
            return float("inf")
        if f == "-inf":
            return float("-inf")
        if f == "nan":
            return float("nan")
        if f == "npnan":
            import numpy as np
            return np.nan
        return f[0] / (1 << f[1])
    if "u" in j:
        from uuid import UUID
        return UUID(int=j["u"])
    if "e" in j:
        return get_world(work)[1][j["e"]]
    if "w" in j:
        ws = get_world(work)
        if j["w"] != "WORLD":
            raise ValueError("only the world workspace can be decoded")
        return ws[0]
    if "ty" in j:
        return _types()[j["ty"]]
    if "l" in j:
        return [dec(x, work) for x in j["l"]]
    if "t" in j:
        return tuple(dec(x, work) for x in j["t"])
    if "d" in j:
        return {dec(k, work): dec(v, work) for k, v in j["d"]}
    raise ValueError(f"bad tagged value {j!r}")


class NotExpressible(Exception):
    pass


def enc(v, work=None):
    """live Python object -> tagged JSON (raises NotExpressible outside the universe)"""
    from uuid import UUID
    if v is None or isinstance(v, (bool, str)):
        return v
    if type(v) is int:
        return v
    if isinstance(v, float):
        try:
            import numpy as np
            if v is np.nan:
                return {"f": "npnan"}
        except ImportError:
            pass
        if v != v:
            return {"f": "nan"}
        if v == float("inf"):
            return {"f": "inf"}
        if v == float("-inf"):
            return {"f": "-inf"}
        n, d = float(v).as_integer_ratio()
        return {"f": [n, d.bit_length() - 1]}
    if isinstance(v, UUID):
        return {"u": v.int}
    if isinstance(v, list):
        return {"l": [enc(x, work) for x in v]}
    if isinstance(v, tuple):
        return {"t": [enc(x, work) for x in v]}
    if isinstance(v, dict):
        return {"d": [[enc(k, work), enc(x, work)] for k, x in v.items()]}
    if isinstance(v, type):
        for n, t in _types().items():
            if t is v:
                return {"ty": n}
        if issubclass(v, _types()["Entity"]):
            return {"ty": "Entity"}          # type(entity) is a concrete class; the universe only knows Entity
        raise NotExpressible(f"type {v}")
    cls = type(v).__name__
    if cls == "Workspace":
        w = get_world(work) if work is not None else None
        if w is not None and os.path.abspath(str(v.h5file)) == os.path.abspath(w[2]):
            return {"w": "WORLD"}
        return {"w": str(v.h5file)}
    if hasattr(v, "uid") and isinstance(getattr(v, "uid"), UUID):
        if cls == "PropertyGroup":
            return {"e": v.uid.int, "k": "pg:" + str(v.property_group_type)}
        return {"e": v.uid.int, "k": "ent"}
    raise NotExpressible(f"{cls}")


def exc_name(e):
    return type(e).__name__


# ----------------------------------------------------------------------------- Coq literals
def cstring(s):
    if all(32 <= ord(c) < 127 for c in s):
        return '"' + s.replace('"', '""') + '"'
    raise NotExpressible("non-ASCII string")


def cz(z):
    return f"({z})%Z" if z < 0 else f"{z}%Z"


WORLD_PATH = ["WORLD"]      # case_term sets this to the path the driver reported before printing terms


def coq(j):
    if j is None:
        return "PNone"
    if j is True:
        return "(PBool true)"
    if j is False:
        return "(PBool false)"
    if isinstance(j, int):
        return f"(PInt {cz(j)})"
    if isinstance(j, str):
        return f"(PStr {cstring(j)})"
    if "f" in j:
        f = j["f"]
        if isinstance(f, str):
            return {"inf": "(PFloat FPInf)", "-inf": "(PFloat FNInf)", "nan": "(PFloat (FNaN false))", "npnan": "(PFloat (FNaN true))"}[f]
        return f"(PFloat (FFin {cz(f[0])} {f[1]}%N))"
    if "u" in j:
        return f"(PUuid {j['u']}%N)"
    if "e" in j:
        k = j.get("k") or WORLD["ents"].get(j["e"], "ent")
        kind = "KEntity" if k == "ent" else f"(KPropGroup {cstring(k[3:])})"
        return f"(PEnt {kind} {j['e']}%N)"
    if "w" in j:
        return f"(PWs {cstring(WORLD_PATH[0] if j['w'] == 'WORLD' else j['w'])})"
    if "ty" in j:
        return "(PType T%s)" % {"str": "Str", "int": "Int", "float": "Float", "bool": "Bool", "NoneType": "NoneType", "list": "List",
                                "tuple": "Tuple", "dict": "Dict", "UUID": "Uuid", "Entity": "Entity", "PropertyGroup": "PropertyGroup",
                                "Workspace": "Workspace", "Path": "Path"}[j["ty"]]
    if "l" in j:
        return "(PList [" + "; ".join(coq(x) for x in j["l"]) + "])"
    if "t" in j:
        return "(PTuple [" + "; ".join(coq(x) for x in j["t"]) + "])"
    if "d" in j:
        return "(PDict [" + "; ".join(f"({coq(k)}, {coq(v)})" for k, v in j["d"]) + "])"
    raise NotExpressible(repr(j))


EXN_COQ = {
    "KeyError": "KeyError", "TypeError": "TypeError", "ValueError": "ValueError", "AttributeError": "AttributeError",
    "IndexError": "IndexError", "UserWarning": "UserWarning",
    "OptionalValidationError": "(Validation VOptional)", "AssociationValidationError": "(Validation VAssociation)",
    "PropertyGroupValidationError": "(Validation VPropertyGroup)", "AtLeastOneValidationError": "(Validation VAtLeastOne)",
    "RequiredValidationError": "(Validation VRequired)", "ShapeValidationError": "(Validation VShape)",
    "TypeValidationError": "(Validation VType)", "UUIDValidationError": "(Validation VUUID)",
    "ValueValidationError": "(Validation VValue)", "AggregateValidationError": "(Validation VAggregate)",
    "TypeUIDValidationError": "(Validation VTypeUID)", "InCollectionValidationError": "(Validation VInCollection)",
    "RequiredFormMemberValidationError": "(Validation VInCollection)", "RequiredUIJsonParameterValidationError": "(Validation VInCollection)",
    "UIJsonFormatError": "(Validation VUIJsonFormat)", "JSONParameterValidationError": "JSONParameterValidationError",
}


def coq_res(r):
    """observation {"ok": J} | {"error": name} -> Coq term of type res pv (None if the exception has no counterpart)"""
    if "ok" in r:
        return f"(Ok {coq(r['ok'])})"
    e = EXN_COQ.get(r.get("error"))
    return None if e is None else f"(Raise {e})"


def jd(pairs):
    """helper: python dict of tagged values -> tagged dict"""
    return {"d": [[k, v] for k, v in pairs.items()]}


def jget(j, key, default=None):
    for k, v in j["d"]:
        if k == key:
            return v
    return default


def jhas(j, key):
    return any(k == key for k, _ in j["d"])


def is_jdict(j):
    return isinstance(j, dict) and "d" in j


# ----------------------------------------------------------------------------- value generators
LOOKALIKE_STRINGS = ["", "inf", "-inf", "nan", "None", "Infinity", "{00000000-0000-0000-0000-000000000030}",
                     "00000000-0000-0000-0000-000000000031", "00000000000000000000000000000099", "urn:uuid:00000000-0000-0000-0000-000000000020",
                     "a.geoh5", "sub.x.geoh5", ".geoh5", "x.geoh5.", "true", "1", "1.5", "[1, 2]", "Option A", "data", "{}", "-"]


def gen_scalar(rng, strings=True):
    k = rng.weighted([("none", 10), ("bool", 10), ("int", 20), ("float", 20), ("str", 25 if strings else 0), ("uuid", 8), ("big", 4), ("nonfinite", 8)])
    if k == "none":
        return None
    if k == "bool":
        return rng.chance(50)
    if k == "int":
        return rng.choice([0, 1, -1, 2, 7, 42, -13, 1000, 2 ** 31, -2 ** 31, 2 ** 53 + 1])
    if k == "float":
        return {"f": rng.choice([[0, 0], [1, 0], [3, 1], [-5, 2], [1, 10], [12345, 3], [-1, 0], [2 ** 60, 0], [1, 60],
                                  [0x1FFFFFFFFFFFFF, 0], [5e-324.as_integer_ratio()[0], 1074], [int(1.7976931348623157e308), 0]])}
    if k == "str":
        return rng.choice(LOOKALIKE_STRINGS + ["abc", "Points_A", "G1", "value", "hello world", "x" * 40])
    if k == "uuid":
        return {"u": rng.choice(list(WORLD["ents"]) + UNKNOWN_UIDS)}
    if k == "big":
        return rng.choice([2 ** 63, 2 ** 64 - 1, 2 ** 64, 2 ** 70, -2 ** 63, -2 ** 63 - 1, 10 ** 31, 12345678901234567890123456789012, -(10 ** 31 + 5)])
    return {"f": rng.choice(["inf", "-inf", "nan", "npnan"])}


def gen_value(rng, depth=2):
    """an arbitrary nested value"""
    if depth <= 0 or rng.chance(55):
        return gen_scalar(rng)
    k = rng.weighted([("list", 40), ("tuple", 15), ("dict", 45)])
    n = rng.range(0, 3)
    if k == "list":
        return {"l": [gen_value(rng, depth - 1) for _ in range(n)]}
    if k == "tuple":
        return {"t": [gen_value(rng, depth - 1) for _ in range(n)]}
    keys = rng.sample(["label", "value", "enabled", "optional", "group", "a", "b", "main"], n)
    return {"d": [[kk, gen_value(rng, depth - 1)] for kk in keys]}


# ----------------------------------------------------------------------------- ui.json builders (cases name templates; the DRIVER calls them)
TEMPLATES = ["bool_parameter", "integer_parameter", "float_parameter", "string_parameter", "choice_string_parameter",
             "file_parameter", "group_parameter", "object_parameter", "data_parameter", "data_value_parameter",
             "drillhole_group_data", "range_label_template"]
HAS_OPTIONAL_KW = set(TEMPLATES) - {"bool_parameter"}
BASE_PARAMS = ["title", "geoh5", "run_command", "monitoring_directory", "conda_environment", "conda_environment_boolean", "workspace"]


def build_ui(entries, work):
    """entries -> live ui_json dict, built with the template functions of the geoh5py under test"""
    from geoh5py.ui_json import templates
    ui = {}
    for en in entries:
        if "raw" in en:
            ui[en["name"]] = dec(en["raw"], work)
            continue
        kw = {k: dec(v, work) for k, v in en.get("kw", {}).items()}
        form = getattr(templates, en["tmpl"])(**kw)
        for k, v in en.get("extra", []):
            form[k] = dec(v, work)
        for k in en.get("drop", []):
            form.pop(k, None)
        ui[en["name"]] = form
    return ui


def gen_form_entry(rng, name, others, value_mode="domain"):
    """one template form with random optional members; `others` = names usable as parent/dependency"""
    t = rng.choice(TEMPLATES)
    kw = {}
    if rng.chance(30):
        kw["main"] = rng.chance(50)
    if rng.chance(30):
        kw["label"] = rng.choice(["A label", "x", "Data channel"])
    if t in HAS_OPTIONAL_KW and rng.chance(45):
        kw["optional"] = rng.choice(["enabled", "disabled"])
    objs, data = WORLD["objects"], WORLD["data"]
    if t == "bool_parameter":
        if rng.chance(70):
            kw["value"] = rng.chance(50)
    elif t == "integer_parameter":
        if rng.chance(70):
            kw["value"] = rng.choice([0, 1, -3, 42, 2 ** 31, 2 ** 53 + 1, 2 ** 63, 2 ** 64 - 1] + ([2 ** 64, 2 ** 70, -2 ** 63 - 1] if rng.chance(12) else []))
        if rng.chance(25):
            kw["vmin"] = rng.choice([0, -10])
        if rng.chance(25):
            kw["vmax"] = rng.choice([10, 100])
    elif t == "float_parameter":
        if rng.chance(75):
            kw["value"] = rng.choice([{"f": [0, 0]}, {"f": [3, 1]}, {"f": [-5, 2]}, {"f": [1, 60]}, {"f": "inf"}, {"f": "-inf"},
                                      {"f": [int(1.7976931348623157e308), 0]}, {"f": [1, 1074]}, 3])
        if rng.chance(25):
            kw["vmin"] = rng.choice([{"f": [0, 0]}, {"f": "-inf"}])
        if rng.chance(25):
            kw["vmax"] = rng.choice([{"f": [100, 0]}, {"f": "inf"}])
        if rng.chance(20):
            kw["precision"] = rng.range(0, 6)
        if rng.chance(20):
            kw["line_edit"] = rng.chance(50)
    elif t == "string_parameter":
        if rng.chance(80):
            kw["value"] = rng.choice(["data", "hello", "Points_A"] + (LOOKALIKE_STRINGS if value_mode == "lookalike" or rng.chance(30) else []))
    elif t == "choice_string_parameter":
        cl = rng.choice([["Option A", "Option B"], ["a", "b", "c"], ["inf", "", "x"]])
        kw["choice_list"] = {"t": cl} if rng.chance(50) else {"l": cl}
        kw["value"] = rng.choice(cl)
        if rng.chance(30):
            kw["multi_select"] = True
            kw["value"] = {"l": rng.sample(cl, rng.range(0, 2))}
    elif t == "file_parameter":
        if rng.chance(60):
            kw["file_description"] = {"t": ["Chargeability"]}
            kw["file_type"] = {"t": ["chg"]}
        if rng.chance(60):
            kw["value"] = rng.choice(["", "a/b.chg", "x.geoh5", "file.txt;other.txt"])
    elif t == "group_parameter":
        if rng.chance(50):
            kw["group_type"] = {"t": [{"u": 0x61FBB4E808C1599BA1D3BD4A5F4CA0A0}]} if rng.chance(50) else {"l": []}
        if rng.chance(70):
            kw["value"] = rng.choice([{"u": 0x10}, {"u": 0x11}, None, "{00000000-0000-0000-0000-000000000010}"])
    elif t == "object_parameter":
        if rng.chance(50):
            kw["mesh_type"] = {"t": [{"u": 0x202C5DB1A56D4004A3C9DBAF6F0B7CC0}]} if rng.chance(50) else {"l": []}
        if rng.chance(75):
            kw["value"] = rng.choice([{"u": objs[0]}, {"u": objs[1]}, None, "{00000000-0000-0000-0000-000000000020}"])
        if rng.chance(30):
            kw["multi_select"] = True
            kw["value"] = {"l": [{"u": o} for o in rng.sample(objs, rng.range(0, 2))]}
    elif t == "data_parameter":
        par = rng.choice(others) if others and rng.chance(80) else ""
        kw["parent"] = par
        if rng.chance(70):
            kw["value"] = rng.choice([{"u": data[objs[0]][0]}, {"u": data[objs[0]][1]}, {"u": data[objs[1]][0]}, "", None])
        if rng.chance(25):
            kw["data_group_type"] = rng.choice(["Multi-element", "Strike & dip", "3D vector"])
            kw["value"] = rng.choice([{"u": 0x40}, {"u": 0x41}, ""])
        if rng.chance(20):
            kw["association"] = rng.choice(["Vertex", "Cell"])
        if rng.chance(20):
            kw["data_type"] = rng.choice(["Float", "Integer", "Text"])
    elif t == "data_value_parameter":
        kw["parent"] = rng.choice(others) if others and rng.chance(80) else ""
        if rng.chance(50):
            kw["is_value"] = False
            kw["prop"] = rng.choice([{"u": data[objs[0]][0]}, {"u": data[objs[1]][0]}, None])
        if rng.chance(60):
            kw["value"] = rng.choice([{"f": [0, 0]}, {"f": [3, 1]}, 2, {"f": "inf"}])
    elif t == "drillhole_group_data":
        if rng.chance(60):
            kw["value"] = {"l": rng.sample(["Au", "Cu", "inf", ""], rng.range(0, 2))}
        if rng.chance(50):
            kw["group_value"] = rng.choice([{"u": 0x10}, None])
        if rng.chance(30):
            kw["enabled"] = rng.chance(50)
        if rng.chance(20):
            kw["multiselect"] = rng.chance(50)
    elif t == "range_label_template":
        kw["parent"] = rng.choice(others) if others and rng.chance(80) else ""
        if rng.chance(60):
            kw["value"] = rng.choice([{"l": [{"f": [0, 0]}, {"f": [3, 1]}]}, {"l": [1, 2]}, {"l": [{"f": "-inf"}, {"f": "inf"}]}, None])
        if rng.chance(50):
            kw["property_"] = rng.choice([{"u": data[objs[0]][0]}, ""])
        if rng.chance(30):
            kw["enabled"] = rng.chance(50)
        if rng.chance(20):
            kw["is_complement"] = True
            kw["allow_complement"] = True
    return {"name": name, "tmpl": t, "kw": kw, "extra": [], "drop": []}


def add_switches(rng, entries, weird=8):
    """decorate form entries with group / groupOptional / dependency / dependencyType / enabled members"""
    names = [e["name"] for e in entries if "tmpl" in e]
    groups = {}
    for e in entries:
        if "tmpl" not in e:
            continue
        if rng.chance(45):
            g = rng.choice(["G1", "G2"])
            e["extra"].append(["group", g])
            groups.setdefault(g, []).append(e)
    for g, members in groups.items():
        k = rng.weighted([(0, 25), (1, 60), (2, 15)])
        for e in rng.sample(members, min(k, len(members))):
            e["extra"].append(["groupOptional", rng.chance(75)])
            if rng.chance(70) and not any(k2 == "enabled" for k2, _ in e["extra"]):
                e["extra"].append(["enabled", rng.chance(55)])
    for e in entries:
        if "tmpl" not in e:
            continue
        if rng.chance(40):
            cands = [n for n in names if n != e["name"]]
            if rng.chance(weird):
                dep = rng.choice(["title", "nosuch", e["name"]])
            elif cands:
                dep = rng.choice(cands)
            else:
                continue
            e["extra"].append(["dependency", dep])
            r = rng.below(100)
            if r < 35:
                e["extra"].append(["dependencyType", "enabled"])
            elif r < 75:
                e["extra"].append(["dependencyType", "disabled"])
            elif r < 75 + weird // 2:
                e["extra"].append(["dependencyType", "bogus"])
        if rng.chance(weird) and "optional" in e["kw"]:
            e["drop"].append("enabled")
        if rng.chance(weird // 2):
            e["extra"].append(["enabled", None])
    return entries
