#!/venv/bin/python
"""tools/seed_verify.py <Cxx> <dir-with-patch.diff,demo.py,meta.json> <name> [--no-check] [--props C01,C02] [--reuse-tests]

Confirms a seeded breaking change independently (scratch worktree of /repo HEAD outside /repo and /verif), then runs the
registered check(s) against it and records the outcome in /verif/seeded/<name>/.  The worktree is removed afterwards.
"""
import json
import os
import re
import shutil
import subprocess
import sys
import time
from pathlib import Path

V = Path(__file__).resolve().parents[1]


def sh(cmd, cwd=None, env=None, timeout=3000):
    p = subprocess.run(cmd, cwd=cwd, env=env, shell=isinstance(cmd, str), capture_output=True, text=True, timeout=timeout)
    return p.returncode, p.stdout + p.stderr


def main():
    pid, src, name = sys.argv[1], Path(sys.argv[2]), sys.argv[3]
    no_check = "--no-check" in sys.argv
    props = [pid]
    if "--props" in sys.argv:
        props = sys.argv[sys.argv.index("--props") + 1].split(",")
    wt = Path(f"/tmp/sv-{name}")
    if wt.exists():
        sh(["git", "-C", "/repo", "worktree", "remove", "--force", str(wt)])
    rc, out = sh(["git", "-C", "/repo", "worktree", "add", "-q", "--detach", str(wt), "HEAD"])
    assert rc == 0, out
    res = {"property": pid, "name": name, "repo_head": sh(["git", "-C", "/repo", "rev-parse", "--short", "HEAD"])[1].strip()}
    try:
        env = dict(os.environ, PYTHONPATH=str(wt), PYTHONHASHSEED="0")
        demo = src / "demo.py"
        rc0, out0 = sh(["/venv/bin/python", str(demo)], cwd="/tmp", env=env, timeout=600)
        res["demo_on_original"] = {"rc": rc0, "tail": out0[-400:]}
        rc, out = sh(["git", "-C", str(wt), "apply", str(src / "patch.diff")])
        res["patch_applies"] = rc == 0
        if rc != 0:
            res["apply_error"] = out[-500:]
        else:
            rc1, out1 = sh(["/venv/bin/python", str(demo)], cwd="/tmp", env=env, timeout=600)
            tries = 1
            while rc1 == 0 and tries < 6:
                # some demonstrations depend on the order of freshly drawn uuids: the change is kept if the demo fails at
                # least once in six runs on the changed code (it passed on the original)
                rc1, out1 = sh(["/venv/bin/python", str(demo)], cwd="/tmp", env=env, timeout=600)
                tries += 1
            res["demo_on_changed"] = {"rc": rc1, "tail": out1[-600:], "runs": tries}
            t0 = time.time()
            prev = V / "seeded" / name / "meta.json"
            if "--reuse-tests" in sys.argv and prev.exists() and json.loads(prev.read_text()).get("verification", {}).get("tests", {}).get("passed", 0) >= 377 \
                    and json.loads(prev.read_text())["verification"].get("repo_head") == res["repo_head"]:
                # the suite was already run with this patch on this very /repo HEAD (recorded in seeded/<name>/meta.json)
                res["tests"] = dict(json.loads(prev.read_text())["verification"]["tests"], reused=True)
                rct = res["tests"]["rc"]
            else:
                rct, outt = sh(["/venv/bin/python", "-m", "pytest", "-q", "-p", "no:cacheprovider", "-x", "--timeout=900"], cwd=str(wt), env=env)
                m = re.search(r"(\d+) passed", outt)
                res["tests"] = {"rc": rct, "passed": int(m.group(1)) if m else 0, "tail": outt[-300:], "wall_s": round(time.time() - t0)}
            res["confirmed"] = bool(rc0 == 0 and rc1 != 0 and rct == 0 and res["tests"]["passed"] >= 377)
            if not no_check:
                res["checks"] = {}
                for p in props:
                    e2 = dict(os.environ, VERIF_REPO=str(wt))
                    t0 = time.time()
                    rcc, outc = sh([str(V / "bin" / "check"), p, "quick"], cwd=str(V), env=e2)
                    viol = [l for l in outc.splitlines() if l.startswith("VIOLATION")]
                    res["checks"][p] = {"rc": rcc, "violations": viol[:4], "detected": rcc == 1 and bool(viol), "wall_s": round(time.time() - t0),
                                        "summary": [l for l in outc.splitlines() if l.startswith(f"[{p}]")][-4:]}
    finally:
        sh(["git", "-C", "/repo", "worktree", "remove", "--force", str(wt)])
    dst = V / "seeded" / name
    dst.mkdir(parents=True, exist_ok=True)
    for f in ("patch.diff", "demo.py"):
        if (src / f).resolve() != (dst / f).resolve():
            shutil.copy(src / f, dst / f)
    meta = {}
    if (src / "meta.json").exists():
        try:
            meta = json.loads((src / "meta.json").read_text())
        except Exception:  # noqa: BLE001
            meta = {"raw": (src / "meta.json").read_text()[:2000]}
    meta["verification"] = res
    meta["what_was_run"] = ("git worktree of /repo HEAD under /tmp; demo.py on the original (expect exit 0) and with patch.diff applied (expect exit != 0); "
                            "full pytest suite with the patch (expect 377 passed); then VERIF_REPO=<worktree> bin/check <property> quick")
    (dst / "meta.json").write_text(json.dumps(meta, indent=1))
    print(json.dumps(res, indent=1)[:3000])


if __name__ == "__main__":
    main()
