#!/venv/bin/python
"""Merge findings.d/*.json (per-property fragments written by the builders) into known_findings.json (the one committed
known-findings file the checks read first).  Entries already present (same property + key) are updated from the fragment."""
import json
from pathlib import Path

V = Path(__file__).resolve().parents[1]
kf = json.loads((V / "known_findings.json").read_text())
idx = {(f["property"], f["key"]): i for i, f in enumerate(kf["findings"])}
n_new = n_upd = 0
for q in sorted((V / "findings.d").glob("*.json")):
    for f in json.loads(q.read_text()):
        k = (f["property"], f["key"])
        if k in idx:
            if kf["findings"][idx[k]] != f:
                kf["findings"][idx[k]] = f
                n_upd += 1
        else:
            idx[k] = len(kf["findings"])
            kf["findings"].append(f)
            n_new += 1
kf["findings"].sort(key=lambda f: (f["property"], f.get("status") != "open", f["key"]))
(V / "known_findings.json").write_text(json.dumps(kf, indent=1) + "\n")
o = sum(1 for f in kf["findings"] if f.get("status") == "open")
print(f"{len(kf['findings'])} entries ({o} open, {len(kf['findings']) - o} fixed); {n_new} new, {n_upd} updated")
