"""PyLite translator: Python ``ast`` -> Gallina definitions over ``GV.Model.PyVal`` (shallow embedding, ``res`` monad).

Fail-closed: any construct outside the subset raises :class:`Refuse`; the caller (``regenerate``) lets it propagate so the
check stops with a broken obligation instead of silently losing a definition.

Subset (see DESIGN.md 3.1): assignments to locals, ``x[k] = e`` / ``x[k][m] = e`` / ``x += e`` / ``x.update(e)`` / ``x.append(e)``
on a local or parameter (functionalised: the name is rebound to the updated value), ``if/elif/else``, ``for`` over
``d.items()/.keys()/.values()``, a list/tuple/dict/str value or a list of function values, ``continue``, ``return``, ``raise
Cls(...)`` (arguments dropped), ``warn(...)`` (dropped), list comprehensions, ``all/any`` over one generator, boolean operators,
``== != is [not] None, is np.nan, in, not in``, ``isinstance``, ``hasattr(x, "uid"|"__iter__")``, subscripts, ``.get``, ``.copy``,
conditional expressions, ``typing.cast``, ``try: <assignments> except E: warn(..)`` (statement by statement), calls of translated functions, of *extern* (hand-modelled) functions, of a function value drawn from a
list of functions, and a fixed set of library primitives (``str float list tuple len np.isfinite UUID(str(x))``).

Systematic transformations (trusted, cross-checked by the correspondence run on every translated function):
  * statements after an ``if`` are duplicated into both branches (continuation style), loops become ``fold_res`` over a snapshot of
    the iterated sequence with the tuple of re-assigned names as state;
  * self-recursive functions get a ``fuel`` argument (``Raise OutOfFuel`` at 0), callers pass their own fuel on;
  * mutation of a container bound to a name is a rebinding of that name; parameters mutated this way are listed in the
    generated header (``mutates``) and a name passed in such a position must not be read again before it is re-assigned;
  * a parameter may be specialised to a constant (``*args`` empty, ``omit=None``) when no call site in the repository passes it;
    branches whose test folds to a constant are pruned;
  * assignments whose target is read only inside ``raise``/``warn`` arguments are dropped with those arguments.
"""
from __future__ import annotations

import ast
import hashlib
import textwrap
from dataclasses import dataclass, field
from pathlib import Path


class Refuse(Exception):
    """The source left the translatable subset."""


COQ_KEYWORDS = {
    "fun", "end", "match", "in", "let", "if", "then", "else", "as", "at", "return", "using", "with", "for", "forall", "exists",
    "Type", "Prop", "Set", "fix", "cofix", "struct", "where", "mod", "by", "type",
}

TYPE_NAMES = {
    "dict": "TDict", "list": "TList", "tuple": "TTuple", "str": "TStr", "int": "TInt", "float": "TFloat", "bool": "TBool",
    "UUID": "TUuid", "Entity": "TEntity", "PropertyGroup": "TPropertyGroup", "Workspace": "TWorkspace", "Path": "TPath",
}
# classes with no inhabitant in the value universe: isinstance(x, C) is constantly False
EMPTY_TYPES = {"bytes", "ndarray", "ContainerGroup", "BytesIO"}

EXN = {
    "KeyError": "KeyError", "TypeError": "TypeError", "ValueError": "ValueError", "AttributeError": "AttributeError",
    "IndexError": "IndexError", "UserWarning": "UserWarning",
    "OptionalValidationError": "(Validation VOptional)", "AssociationValidationError": "(Validation VAssociation)",
    "PropertyGroupValidationError": "(Validation VPropertyGroup)", "AtLeastOneValidationError": "(Validation VAtLeastOne)",
    "RequiredValidationError": "(Validation VRequired)", "ShapeValidationError": "(Validation VShape)",
    "TypeValidationError": "(Validation VType)", "UUIDValidationError": "(Validation VUUID)",
    "ValueValidationError": "(Validation VValue)", "AggregateValidationError": "(Validation VAggregate)",
    "JSONParameterValidationError": "JSONParameterValidationError",
}


@dataclass
class FnSpec:
    """One function to translate."""
    path: str                       # file relative to the repository root
    qualname: str                   # "requires_value" or "InputFile.demote"
    coq: str | None = None          # Coq identifier (default: function name)
    drop_first: bool = False        # drop a cls/self parameter
    specialise: dict = field(default_factory=dict)   # parameter -> Python constant (as source text: "None")
    varargs_empty: bool = False     # *args is the empty tuple everywhere
    kinds: dict = field(default_factory=dict)        # parameter -> "funs"

    @property
    def name(self):
        return self.qualname.split(".")[-1]

    @property
    def coq_name(self):
        return self.coq or self.qualname.replace(".", "_")


@dataclass
class Extern:
    """A hand-modelled callee (tied by correspondence only)."""
    coq: str
    kind: str = "res_pv"            # res_pv | res_bool | pv | bool
    arity: int = 1


@dataclass
class FnInfo:
    spec: FnSpec
    node: ast.FunctionDef
    params: list
    defaults: dict
    fuel: bool = False
    recursive: bool = False
    mutates: list = field(default_factory=list)
    dropped: list = field(default_factory=list)


def _src_hash(node, source):
    seg = ast.get_source_segment(source, node) or ""
    return hashlib.sha256(seg.encode()).hexdigest()[:12]


def _find_def(tree, qualname):
    parts = qualname.split(".")
    body = tree.body
    node = None
    for i, p in enumerate(parts):
        node = None
        for n in body:
            if isinstance(n, (ast.FunctionDef, ast.ClassDef)) and n.name == p:
                node = n
                break
        if node is None:
            raise Refuse(f"definition {qualname} not found")
        body = node.body
    if not isinstance(node, ast.FunctionDef):
        raise Refuse(f"{qualname} is not a function")
    return node


class Unit:
    """A set of functions translated together (possibly into several files)."""

    def __init__(self, repo, specs, externs=None):
        self.repo = Path(repo)
        self.externs: dict[str, Extern] = dict(externs or {})
        self.infos: dict[str, FnInfo] = {}     # keyed by python callee name (bare name; methods also under "Class.name")
        self.order: list[FnInfo] = []
        self.sources = {}
        for sp in specs:
            src = self.sources.get(sp.path)
            if src is None:
                p = self.repo / sp.path
                if not p.exists():
                    raise Refuse(f"{sp.path} does not exist")
                src = p.read_text()
                self.sources[sp.path] = src
            tree = ast.parse(src)
            node = _find_def(tree, sp.qualname)
            a = node.args
            if a.posonlyargs or a.kwarg:
                raise Refuse(f"{sp.qualname}: unsupported parameter kinds")
            if a.vararg and not sp.varargs_empty:
                raise Refuse(f"{sp.qualname}: *{a.vararg.arg} is not specialised")
            params = [x.arg for x in a.args]
            defaults = {}
            for x, d in zip(reversed(a.args), reversed(a.defaults)):
                defaults[x.arg] = d
            for x, d in zip(a.kwonlyargs, a.kw_defaults):
                if x.arg not in sp.specialise:
                    raise Refuse(f"{sp.qualname}: keyword-only parameter {x.arg} must be specialised")
            if sp.drop_first:
                params = params[1:]
            params = [p for p in params if p not in sp.specialise]
            info = FnInfo(sp, node, params, defaults)
            key = sp.qualname if "." in sp.qualname else sp.name
            if key in self.infos:
                raise Refuse(f"duplicate function name {key}")
            self.infos[key] = info
            info.mutates = self._syntactic_mutates(node, params)
            self.order.append(info)
        self._fuel_analysis()

    @staticmethod
    def _syntactic_mutates(node, params):
        return [n for n in FnTranslator.assigned_mut(node.body) if n in params]

    # ------------------------------------------------------------------ call graph
    def _callees(self, info):
        out = set()
        cls = info.spec.qualname.split(".")[0] if "." in info.spec.qualname else None
        for n in ast.walk(info.node):
            if isinstance(n, ast.Call):
                tgt = self.resolve_callee(n.func, cls)
                if tgt is not None and tgt in self.infos:
                    out.add(tgt)
            elif isinstance(n, ast.Name) and isinstance(n.ctx, ast.Load) and n.id in self.infos:
                out.add(n.id)
        return out

    def resolve_callee(self, func, cls):
        if isinstance(func, ast.Name):
            return func.id if (func.id in self.infos or func.id in self.externs) else None
        if isinstance(func, ast.Attribute) and isinstance(func.value, ast.Name) and func.value.id in ("cls", "self") and cls:
            q = f"{cls}.{func.attr}"
            if q in self.infos or q in self.externs:
                return q
        return None

    def _fuel_analysis(self):
        graph = {}
        for info in self.order:
            graph[id(info)] = (info, {id(self.infos[c]): self.infos[c] for c in self._callees(info)})
        for info, cal in graph.values():
            if id(info) in cal:
                info.recursive = True
                info.fuel = True
        changed = True
        while changed:
            changed = False
            for info, cal in graph.values():
                if not info.fuel and any(c.fuel for c in cal.values()):
                    info.fuel = True
                    changed = True
        # mutual recursion is outside the subset: a callee must be emitted before its caller
        pos = {id(i): k for k, i in enumerate(self.order)}
        for info, cal in graph.values():
            for c in cal.values():
                if c is not info and pos[id(c)] > pos[id(info)]:
                    raise Refuse(f"{info.spec.qualname} calls {c.spec.qualname} which is translated later (reorder or mutual recursion)")

    # ------------------------------------------------------------------ emission
    def emit(self, header, imports, members=None):
        """Return the text of one generated .v file containing ``members`` (default: all) in order."""
        lines = [
            "(* GENERATED by tools/pylite/translate.py from the source named per definition — do not edit.",
            "   " + header + " *)",
            "From Coq Require Import String.",
            "From GV Require Import Prelude.Base Model.PyVal.",
        ]
        for imp in imports:
            lines.append(imp)
        lines.append("Local Open Scope string_scope.")
        lines.append("")
        for info in self.order:
            if members is not None and info.spec.qualname not in members:
                continue
            tr = FnTranslator(self, info)
            body = tr.translate()
            lines.append(f"(* {info.spec.path} :: {info.spec.qualname}  (lines {info.node.lineno}-{info.node.end_lineno}, "
                         f"sha256 {_src_hash(info.node, self.sources[info.spec.path])})")
            meta = []
            if info.mutates:
                meta.append("mutates: " + ", ".join(info.mutates))
            if info.spec.specialise or info.spec.varargs_empty:
                sp = dict(info.spec.specialise)
                if info.spec.varargs_empty:
                    sp["*args"] = "()"
                meta.append("specialised: " + ", ".join(f"{k}={v}" for k, v in sorted(sp.items())))
            if info.dropped:
                meta.append("dropped: " + "; ".join(dict.fromkeys(info.dropped)))
            lines.append("   " + (" | ".join(meta) if meta else "pure") + " *)")
            lines.append(body)
            lines.append("")
        return "\n".join(lines)


def cstr(s: str) -> str:
    if not all(32 <= ord(c) < 127 for c in s):
        raise Refuse("non-ASCII string constant")
    return '"' + s.replace('"', '""') + '"'


class _Res:
    def __contains__(self, k):
        return isinstance(k, str) and k.startswith("res_")


RES = _Res()


class FnTranslator:
    def __init__(self, unit: Unit, info: FnInfo):
        self.u = unit
        self.info = info
        self.sp = info.spec
        self.cls = self.sp.qualname.split(".")[0] if "." in self.sp.qualname else None
        self.tmp = 0
        self.kinds = {}         # local name -> "pv" | "funs" | "fun"
        self.msg_only = set()
        self.consumed = {}      # name -> reason (passed to a mutating callee)
        self.const = {k: v for k, v in self.sp.specialise.items()}

    # ---------------------------------------------------------------- helpers
    def fresh(self):
        self.tmp += 1
        return f"t{self.tmp}"

    def var(self, name):
        return "v_" + name

    def refuse(self, node, why):
        raise Refuse(f"{self.sp.path}:{getattr(node, 'lineno', '?')} {self.sp.qualname}: {why}")

    def seq(self, args, build):
        """args: [(kind, term)] in evaluation order; effectful ones are bound to temporaries; build(pure terms) -> (kind, term)."""
        binds, pure = [], []
        for k, t in args:
            if k in RES:
                n = self.fresh()
                binds.append((n, t))
                pure.append(n)
            else:
                pure.append(t)
        k, t = build(pure)
        if not binds:
            return k, t
        if k not in RES:
            t = f"Ok {self.par(t)}"
            k = "res_" + k
        for n, b in reversed(binds):
            t = f"({n} <- {b} ;; {t})"
        return k, t

    @staticmethod
    def par(t):
        t = t.strip()
        if t.startswith("(") or t.startswith("[") or " " not in t:
            return t
        return "(" + t + ")"

    def as_pv(self, kt):
        k, t = kt
        if k in ("pv", "res_pv"):
            return kt
        if k == "bool":
            return "pv", f"(PBool {self.par(t)})"
        if k == "res_bool":
            return self.seq([kt], lambda p: ("pv", f"(PBool {p[0]})"))
        self.refuse(None, f"a value of kind {k} is used as a Python value")

    def as_bool(self, kt):
        k, t = kt
        if k in ("bool", "res_bool"):
            return kt
        if k == "pv":
            return "bool", f"(truthy {self.par(t)})"
        if k == "res_pv":
            return self.seq([kt], lambda p: ("bool", f"(truthy {p[0]})"))
        self.refuse(None, f"a value of kind {k} is used as a condition")

    def to_res(self, kt):
        k, t = kt
        if k in RES:
            return t
        return f"Ok {self.par(t)}"

    # ---------------------------------------------------------------- expressions
    def E(self, e, defined, want="pv"):
        kt = self._E(e, defined, want)
        if want == "pv" and kt[0] not in ("funs", "fun"):
            return self.as_pv(kt)
        if want == "bool":
            return self.as_bool(kt)
        return kt

    def type_list(self, t):
        """isinstance's second argument -> list of Coq pty constructors (None for a class with no inhabitant)."""
        items = t.elts if isinstance(t, ast.Tuple) else [t]
        out = []
        for it in items:
            if isinstance(it, ast.Name) and it.id in TYPE_NAMES:
                out.append(TYPE_NAMES[it.id])
            elif isinstance(it, ast.Name) and it.id in EMPTY_TYPES:
                continue
            elif isinstance(it, ast.Attribute) and it.attr in EMPTY_TYPES:
                continue
            elif isinstance(it, ast.Call) and isinstance(it.func, ast.Name) and it.func.id == "type" and len(it.args) == 1 \
                    and isinstance(it.args[0], ast.Constant) and it.args[0].value is None:
                out.append("TNoneType")
            else:
                return None
        return out

    def name_term(self, e, defined):
        n = e.id
        if n in self.const:
            v = self.const[n]
            if v == "None":
                return "pv", "PNone"
            if v == "()":
                return "pv", "(PTuple [])"
            if v in ("True", "False"):
                return "bool", v.lower()
            self.refuse(e, f"unsupported specialisation constant {v}")
        if n in defined:
            if n in self.consumed:
                self.refuse(e, f"'{n}' is read after being passed to a mutating callee ({self.consumed[n]})")
            return self.kinds.get(n, "pv"), self.var(n)
        if n in self.u.infos and n not in defined:
            return "fun", self.fun_value(n)
        if n in self.u.externs:
            ex = self.u.externs[n]
            if ex.kind == "res_pv" and ex.arity == 1:
                return "fun", ex.coq
            self.refuse(e, f"extern {n} cannot be used as a function value")
        if n in TYPE_NAMES:
            return "pv", f"(PType {TYPE_NAMES[n]})"
        self.refuse(e, f"name '{n}' is not a known local, function or type")

    def fun_value(self, n):
        info = self.u.infos[n]
        if len(info.params) != 1:
            self.refuse(None, f"function value {n} must take one argument")
        return f"({info.spec.coq_name} fuel)" if info.fuel else info.spec.coq_name

    def const_term(self, e):
        v = e.value
        if v is None:
            return "pv", "PNone"
        if v is True:
            return "bool", "true"
        if v is False:
            return "bool", "false"
        if isinstance(v, int):
            return "pv", f"(PInt ({v})%Z)"
        if isinstance(v, str):
            return "pv", f"(PStr {cstr(v)})"
        self.refuse(e, f"constant {v!r} outside the subset")

    def _E(self, e, defined, want):  # noqa: C901 - one case per syntactic form
        if isinstance(e, ast.Constant):
            return self.const_term(e)
        if isinstance(e, ast.Name):
            return self.name_term(e, defined)
        if isinstance(e, ast.Subscript):
            if isinstance(e.slice, ast.Slice):
                self.refuse(e, "slices are outside the subset")
            return self.seq([self.E(e.value, defined), self.E(e.slice, defined)], lambda p: ("res_pv", f"getitem {p[0]} {p[1]}"))
        if isinstance(e, ast.UnaryOp) and isinstance(e.op, ast.Not):
            return self.seq([self.E(e.operand, defined, "bool")], lambda p: ("bool", f"(negb {p[0]})"))
        if isinstance(e, ast.BoolOp):
            return self.boolop(e, defined, want)
        if isinstance(e, ast.Compare):
            return self.compare(e, defined)
        if isinstance(e, ast.IfExp):
            c = self.E(e.test, defined, "bool")
            a = self.E(e.body, defined, want)
            b = self.E(e.orelse, defined, want)
            if a[0] in ("funs", "fun") or b[0] in ("funs", "fun"):
                self.refuse(e, "conditional expression over function values")
            if a[0] in RES or b[0] in RES:
                base = a[0][4:] if a[0] in RES else a[0]
                return self.seq([c], lambda p: ("res_" + base, f"(if {p[0]} then {self.to_res(a)} else {self.to_res(b)})"))
            return self.seq([c], lambda p: (a[0], f"(if {p[0]} then {a[1]} else {b[1]})"))
        if isinstance(e, ast.BinOp):
            op = {ast.Add: "py_add", ast.BitAnd: "py_bitand"}.get(type(e.op))
            if op is None:
                self.refuse(e, f"binary operator {type(e.op).__name__} outside the subset")
            return self.seq([self.E(e.left, defined), self.E(e.right, defined)], lambda p: ("res_pv", f"{op} {p[0]} {p[1]}"))
        if isinstance(e, (ast.List, ast.Tuple)):
            if any(isinstance(x, ast.Starred) for x in e.elts):
                self.refuse(e, "starred element")
            elts = [self.E(x, defined, "any") for x in e.elts]
            if elts and all(k == "fun" for k, _ in elts) and isinstance(e, ast.List):
                return "funs", "[" + "; ".join(t for _, t in elts) + "]"
            if any(k in ("fun", "funs") for k, _ in elts):
                self.refuse(e, "mixed list of functions and values")
            elts = [self.as_pv(x) for x in elts]
            con = "PList" if isinstance(e, ast.List) else "PTuple"
            return self.seq(elts, lambda p: ("pv", f"({con} [" + "; ".join(p) + "])"))
        if isinstance(e, ast.Dict):
            keys = []
            for k in e.keys:
                if not (isinstance(k, ast.Constant) and isinstance(k.value, str)):
                    self.refuse(e, "dict literal with a non-constant key")
                keys.append(k.value)
            if len(set(keys)) != len(keys):
                self.refuse(e, "dict literal with repeated keys")
            vals = [self.E(v, defined) for v in e.values]
            return self.seq(vals, lambda p: ("pv", "(PDict [" + "; ".join(f"(PStr {cstr(k)}, {v})" for k, v in zip(keys, p)) + "])"))
        if isinstance(e, ast.ListComp):
            return self.listcomp(e, defined)
        if isinstance(e, ast.Attribute):
            if e.attr == "uid":
                return self.seq([self.E(e.value, defined)], lambda p: ("res_pv", f"get_uid {p[0]}"))
            self.refuse(e, f"attribute .{e.attr} outside the subset")
        if isinstance(e, ast.Call):
            return self.call(e, defined, want)
        self.refuse(e, f"expression {type(e).__name__} outside the subset")

    def boolop(self, e, defined, want):
        is_and = isinstance(e.op, ast.And)
        if want == "bool":
            parts = [self.E(v, defined, "bool") for v in e.values]
            acc = parts[-1]
            for p in reversed(parts[:-1]):
                if p == ("bool", "false" if is_and else "true"):
                    acc = p
                    continue
                if p == ("bool", "true" if is_and else "false"):
                    continue
                if acc[0] == "bool":
                    nxt = acc
                    acc = self.seq([p], lambda q, nxt=nxt: ("bool", f"({q[0]} && {nxt[1]})" if is_and else f"({q[0]} || {nxt[1]})"))
                else:
                    nxt = acc
                    acc = self.seq([p], lambda q, nxt=nxt: (
                        "res_bool", f"(if {q[0]} then {nxt[1]} else Ok false)" if is_and else f"(if {q[0]} then Ok true else {nxt[1]})"))
            return acc
        # value semantics: the operand itself is the result
        parts = [self.E(v, defined, "pv") for v in e.values]
        acc = parts[-1]
        for p in reversed(parts[:-1]):
            nxt = acc

            def build(q, nxt=nxt):
                if nxt[0] in RES:
                    return "res_pv", (f"(if truthy {q[0]} then {nxt[1]} else Ok {q[0]})" if is_and
                                      else f"(if truthy {q[0]} then Ok {q[0]} else {nxt[1]})")
                return "pv", (f"(if truthy {q[0]} then {nxt[1]} else {q[0]})" if is_and
                              else f"(if truthy {q[0]} then {q[0]} else {nxt[1]})")
            if p[0] == "pv" and " " in p[1].strip("()"):
                n = self.fresh()
                k, t = build([n])
                acc = (k, f"(let {n} := {p[1]} in {t})")
            else:
                acc = self.seq([p], build)
        return acc

    def compare(self, e, defined):
        if len(e.ops) != 1:
            self.refuse(e, "comparison chain")
        op, l, r = e.ops[0], e.left, e.comparators[0]
        if isinstance(op, (ast.Is, ast.IsNot)):
            if isinstance(r, ast.Constant) and r.value is None:
                test = "is_none"
            elif isinstance(r, ast.Attribute) and r.attr == "nan" and isinstance(r.value, ast.Name) and r.value.id in ("np", "numpy"):
                test = "is_np_nan"
            elif isinstance(r, ast.Name) and r.id in TYPE_NAMES:
                kt = self.seq([self.E(l, defined)], lambda p: ("bool", f"(py_eq {p[0]} (PType {TYPE_NAMES[r.id]}))"))
                return kt if isinstance(op, ast.Is) else self.seq([kt], lambda p: ("bool", f"(negb {p[0]})"))
            else:
                self.refuse(e, "'is' is only supported against None, np.nan and type names")
            neg = isinstance(op, ast.IsNot)
            lk = self.E(l, defined)
            if test == "is_none" and lk == ("pv", "PNone"):        # specialised parameter: fold
                return "bool", ("false" if neg else "true")
            return self.seq([lk], lambda p: ("bool", f"(negb ({test} {p[0]}))" if neg else f"({test} {p[0]})"))
        if isinstance(op, (ast.Eq, ast.NotEq)):
            neg = isinstance(op, ast.NotEq)
            return self.seq([self.E(l, defined), self.E(r, defined)],
                            lambda p: ("bool", f"(negb (py_eq {p[0]} {p[1]}))" if neg else f"(py_eq {p[0]} {p[1]})"))
        if isinstance(op, (ast.In, ast.NotIn)):
            neg = isinstance(op, ast.NotIn)
            if isinstance(r, ast.Call) and isinstance(r.func, ast.Attribute) and r.func.attr == "keys" and not r.args:
                kt = self.seq([self.E(l, defined), self.E(r.func.value, defined)], lambda p: ("res_bool", f"in_keys {p[0]} {p[1]}"))
            elif isinstance(r, (ast.List, ast.Tuple)) and all(isinstance(x, ast.Constant) for x in r.elts):
                items = [self.as_pv(self.const_term(x))[1] for x in r.elts]
                kt = self.seq([self.E(l, defined)], lambda p: ("bool", f"(existsb (py_eq {p[0]}) [" + "; ".join(items) + "])"))
            else:
                kt = self.seq([self.E(l, defined), self.E(r, defined)], lambda p: ("res_bool", f"contains {p[0]} {p[1]}"))
            if neg:
                kt = self.seq([kt], lambda p: ("bool", f"(negb {p[0]})"))
            return kt
        self.refuse(e, f"comparison {type(op).__name__} outside the subset")

    def iterable(self, e, defined):
        """-> (kind, term, shape) with term : list pv / list (pv*pv) / list of functions (possibly in res)."""
        if isinstance(e, ast.Call) and isinstance(e.func, ast.Attribute) and not e.args and e.func.attr in ("items", "keys", "values"):
            fn = {"items": "dict_items", "keys": "dict_keys", "values": "dict_values"}[e.func.attr]
            k, t = self.seq([self.E(e.func.value, defined)], lambda p: ("res_list", f"{fn} {p[0]}"))
            return k, t, ("items" if e.func.attr == "items" else "elems")
        kt = self.E(e, defined, "any")
        if kt[0] == "funs":
            return "list", kt[1], "funs"
        kt = self.as_pv(kt)
        k, t = self.seq([kt], lambda p: ("res_list", f"iter_list {p[0]}"))
        return k, t, "elems"

    def seq_list(self, it, build):
        """bind an iterable (possibly effectful) and build a term from the list name."""
        k, t, _ = it
        if k == "list":
            return build(t)
        # k == res_list possibly wrapped in binds by seq: treat uniformly as an effectful term of type res (list _)
        n = self.fresh()
        kk, tt = build(n)
        if kk not in RES:
            tt = f"Ok {self.par(tt)}"
            kk = "res_" + kk
        return kk, f"({n} <- {t} ;; {tt})"

    def bind_target(self, target, shape, defined):
        """loop / comprehension target -> (lambda pattern, names)"""
        if shape == "items":
            if not (isinstance(target, ast.Tuple) and len(target.elts) == 2 and all(isinstance(x, ast.Name) for x in target.elts)):
                self.refuse(target, ".items() must be unpacked into two names")
            a, b = target.elts[0].id, target.elts[1].id
            return f"'({self.var(a)}, {self.var(b)})", [a, b]
        if not isinstance(target, ast.Name):
            self.refuse(target, "loop target must be a name")
        return self.var(target.id), [target.id]

    def listcomp(self, e, defined):
        if len(e.generators) != 1 or e.generators[0].is_async:
            self.refuse(e, "comprehension with several generators")
        g = e.generators[0]
        it = self.iterable(g.iter, defined)
        pat, names = self.bind_target(g.target, it[2], defined)
        inner = set(defined) | set(names)
        saved = dict(self.kinds)
        for n in names:
            self.kinds[n] = "fun" if it[2] == "funs" else "pv"
        elt = self.E(e.elt, inner, "any")
        if elt[0] == "fun" and it[2] == "funs":
            # a filtered list of functions
            conds = [self.E(c, inner, "bool") for c in g.ifs]
            self.kinds = saved
            if any(c[0] in RES for c in conds):
                self.refuse(e, "effectful filter over function values")
            test = " && ".join(c[1] for c in conds) or "true"
            return "funs", f"(filter (fun {pat} => {test}) {it[1]})"
        elt = self.as_pv(elt)
        conds = [self.E(c, inner, "bool") for c in g.ifs]
        self.kinds = saved
        if not conds:
            return self.seq_list(it, lambda l: ("res_pv", f"(l_ <- map_res (fun {pat} => {self.to_res(elt)}) {l} ;; Ok (PList l_))"))
        cond = conds[0]
        for c in conds[1:]:
            prev = cond
            cond = self.seq([prev], lambda p, c=c: ("res_bool", f"(if {p[0]} then {self.to_res(c)} else Ok false)"))
        body = self.seq([cond], lambda p: ("res_x", f"(if {p[0]} then (y_ <- {self.to_res(elt)} ;; Ok (Some y_)) else Ok None)"))
        bt = body[1] if body[0] in RES or body[0] == "res_x" else body[1]
        return self.seq_list(it, lambda l: ("res_pv", f"(l_ <- comp_res (fun {pat} => {bt}) {l} ;; Ok (PList l_))"))

    def call(self, e, defined, want):  # noqa: C901
        f = e.func
        if any(isinstance(a, ast.Starred) for a in e.args):
            if not (self.sp.varargs_empty and all(
                    not isinstance(a, ast.Starred) or (isinstance(a.value, ast.Name) and a.value.id == self.info.node.args.vararg.arg)
                    for a in e.args)):
                self.refuse(e, "starred argument")
        args = [a for a in e.args if not isinstance(a, ast.Starred)]
        # ---- calls of a function value held in a local
        if isinstance(f, ast.Name) and f.id in defined and self.kinds.get(f.id) == "fun":
            if len(args) != 1 or e.keywords:
                self.refuse(e, "function values take one argument")
            return self.seq([self.E(args[0], defined)], lambda p: ("res_pv", f"{self.var(f.id)} {p[0]}"))
        # ---- translated functions / externs
        tgt = self.u.resolve_callee(f, self.cls)
        if tgt is not None and not (isinstance(f, ast.Name) and f.id in defined):
            if tgt in self.u.infos:
                return self.call_known(e, self.u.infos[tgt], args, defined)
            ex = self.u.externs[tgt]
            if len(args) != ex.arity or e.keywords:
                self.refuse(e, f"extern {tgt} expects {ex.arity} positional argument(s)")
            return self.seq([self.E(a, defined) for a in args], lambda p: (ex.kind, f"{ex.coq} " + " ".join(p)))
        # ---- builtins and library primitives
        if isinstance(f, ast.Name):
            n = f.id
            if n == "isinstance" and len(args) == 2:
                tl = self.type_list(args[1])
                if tl is None:
                    # dynamic second argument: tuple(valid) or a name holding a list of types
                    dyn = args[1]
                    if isinstance(dyn, ast.Call) and isinstance(dyn.func, ast.Name) and dyn.func.id == "tuple" and len(dyn.args) == 1:
                        dyn = dyn.args[0]
                    if isinstance(dyn, ast.Name) and dyn.id == "type":
                        return self.seq([self.E(args[0], defined)], lambda p: ("bool", f"(is_type {p[0]})"))
                    return self.seq([self.E(args[0], defined), self.E(dyn, defined)], lambda p: ("res_bool", f"isinst_dyn {p[0]} {p[1]}"))
                if not tl:
                    return "bool", "false"
                return self.seq([self.E(args[0], defined)], lambda p: ("bool", f"(isinst {p[0]} [" + "; ".join(tl) + "])"))
            if n == "hasattr" and len(args) == 2 and isinstance(args[1], ast.Constant):
                prim = {"uid": "has_uid", "__iter__": "has_iter"}.get(args[1].value)
                if prim is None:
                    self.refuse(e, f"hasattr(_, {args[1].value!r}) outside the subset")
                return self.seq([self.E(args[0], defined)], lambda p: ("bool", f"({prim} {p[0]})"))
            if n in ("all", "any") and len(args) == 1 and isinstance(args[0], (ast.GeneratorExp, ast.ListComp)):
                g = args[0]
                if len(g.generators) != 1 or g.generators[0].ifs:
                    self.refuse(e, "all/any over a filtered or nested generator")
                it = self.iterable(g.generators[0].iter, defined)
                pat, names = self.bind_target(g.generators[0].target, it[2], defined)
                saved = dict(self.kinds)
                for x in names:
                    self.kinds[x] = "pv"
                c = self.E(g.elt, set(defined) | set(names), "bool")
                self.kinds = saved
                return self.seq_list(it, lambda l: ("res_bool", f"{n}_res (fun {pat} => {self.to_res(c)}) {l}"))
            if n == "cast" and len(args) == 2 and not e.keywords:       # typing.cast is the identity
                return self.E(args[1], defined, want)
            if n == "UUID" and len(args) == 1:
                a = args[0]
                if isinstance(a, ast.Call) and isinstance(a.func, ast.Name) and a.func.id == "str" and len(a.args) == 1:
                    a = a.args[0]
                return self.seq([self.E(a, defined)], lambda p: ("res_pv", f"py_uuid_of {p[0]}"))
            simple = {"str": "py_str", "float": "py_float", "len": "py_len", "type": "py_type"}
            if n in simple and len(args) == 1 and not e.keywords:
                return self.seq([self.E(args[0], defined)], lambda p: ("res_pv", f"{simple[n]} {p[0]}"))
            if n in ("list", "tuple") and len(args) == 1:
                it = self.iterable(args[0], defined)
                if it[2] == "items":
                    self.refuse(e, "list(d.items())")
                con = "PList" if n == "list" else "PTuple"
                return self.seq_list(it, lambda l: ("pv", f"({con} {l})"))
            if n == "iterable" and len(args) == 1 and n not in self.u.infos:
                self.refuse(e, "shared.utils.iterable must be translated first")
        if isinstance(f, ast.Attribute):
            if isinstance(f.value, ast.Name) and f.value.id in ("np", "numpy") and f.attr == "isfinite" and len(args) == 1:
                return self.seq([self.E(args[0], defined)], lambda p: ("res_bool", f"np_isfinite {p[0]}"))
            m = f.attr
            recv = f.value
            if m == "get" and len(args) in (1, 2) and not e.keywords:
                dflt = self.E(args[1], defined) if len(args) == 2 else ("pv", "PNone")
                return self.seq([self.E(recv, defined), self.E(args[0], defined), dflt], lambda p: ("res_pv", f"dict_get {p[0]} {p[1]} {p[2]}"))
            if m == "copy" and not args:
                r = self.E(recv, defined, "any")
                if r[0] == "funs":
                    return r
                return self.seq([self.as_pv(r)], lambda p: ("res_pv", f"py_copy {p[0]}"))
            if m in ("keys", "values") and not args:
                it = self.iterable(e, defined)
                return self.seq_list(it, lambda l: ("pv", f"(PList {l})"))
        self.refuse(e, f"call of {ast.unparse(f)} outside the subset")

    def call_known(self, e, info, args, defined):
        params = list(info.params)
        given = {}
        if len(args) > len(params):
            self.refuse(e, f"too many arguments for {info.spec.qualname}")
        for p, a in zip(params, args):
            given[p] = a
        for kw in e.keywords:
            if kw.arg is None or kw.arg not in params or kw.arg in given:
                self.refuse(e, f"keyword argument {kw.arg} for {info.spec.qualname}")
            given[kw.arg] = kw.value
        terms = []
        for p in params:
            if p in given:
                a = given[p]
                if info.spec.kinds.get(p) == "funs":
                    kt = self.E(a, defined, "any")
                    if kt[0] != "funs":
                        self.refuse(e, f"argument {p} of {info.spec.qualname} must be a list of functions")
                    terms.append(kt)
                else:
                    terms.append(self.E(a, defined))
                    if p in info.mutates and isinstance(a, ast.Name):
                        self.pending_consume.append((a.id, f"{info.spec.qualname}({p})"))
            elif p in info.defaults:
                d = info.defaults[p]
                if not isinstance(d, ast.Constant):
                    self.refuse(e, f"non-constant default for {p}")
                terms.append(self.as_pv(self.const_term(d)))
            else:
                self.refuse(e, f"missing argument {p} for {info.spec.qualname}")
        head = info.spec.coq_name + (" fuel" if info.fuel else "")
        return self.seq(terms, lambda p: ("res_pv", head + "".join(" " + x for x in p)))

    # ---------------------------------------------------------------- statements
    @staticmethod
    def assigned_mut(stmts):
        return FnTranslator.assigned(stmts, only_mutation=True)

    @staticmethod
    def assigned(stmts, only_mutation=False):
        """names (re)bound or mutated anywhere inside the statements"""
        out = []

        def base(t):
            while isinstance(t, ast.Subscript):
                t = t.value
            return t.id if isinstance(t, ast.Name) else None

        for s in stmts:
            for n in ast.walk(s):
                if isinstance(n, ast.AnnAssign) and n.value is not None and isinstance(n.target, ast.Name) and not only_mutation:
                    out.append(n.target.id)
                elif isinstance(n, ast.Assign):
                    for t in n.targets:
                        b = base(t)
                        if b and not (only_mutation and isinstance(t, ast.Name)):
                            out.append(b)
                elif isinstance(n, ast.AugAssign):
                    b = base(n.target)
                    if b:
                        out.append(b)
                elif isinstance(n, ast.Expr) and isinstance(n.value, ast.Call) and isinstance(n.value.func, ast.Attribute) \
                        and n.value.func.attr in ("update", "append") :
                    b = base(n.value.func.value)
                    if b:
                        out.append(b)
        seen = []
        for x in out:
            if x not in seen:
                seen.append(x)
        return seen

    def message_only_names(self):
        """locals read only inside raise / warn arguments"""
        used_outside, used_inside = set(), set()

        def visit(n, inside):
            if isinstance(n, ast.Raise) or (isinstance(n, ast.Expr) and self.is_warn(n.value)):
                for c in ast.iter_child_nodes(n):
                    visit(c, True)
                return
            if isinstance(n, ast.Name) and isinstance(n.ctx, ast.Load):
                (used_inside if inside else used_outside).add(n.id)
            for c in ast.iter_child_nodes(n):
                visit(c, inside)

        for s in self.info.node.body:
            visit(s, False)
        # a message-only name may feed another message-only name
        cand = used_inside - used_outside
        return cand

    @staticmethod
    def is_warn(v):
        if not isinstance(v, ast.Call):
            return False
        f = v.func
        return (isinstance(f, ast.Name) and f.id == "warn") or (isinstance(f, ast.Attribute) and f.attr == "warn")

    def state_pat(self, names):
        if not names:
            return "tt"
        if len(names) == 1:
            return self.var(names[0])
        return "(" + ", ".join(self.var(n) for n in names) + ")"

    def state_lam(self, names):
        if not names:
            return "_"
        if len(names) == 1:
            return self.var(names[0])
        return "'" + self.state_pat(names)

    def rebind(self, name, kt, defined, k):
        """continue with `name` bound to the value of kt"""
        self.consumed.pop(name, None)
        kind, t = kt
        d2 = set(defined) | {name}
        if kind in ("funs", "fun"):
            self.kinds[name] = kind
            return f"let {self.var(name)} := {t} in\n{k(d2)}"
        self.kinds[name] = "pv"
        tc = getattr(self, "try_catch", None)
        if tc is not None:
            # the statement sits in `try: ... except E: <warn only>`: E raised by it resumes after the try with the state before it
            self.try_catch = None
            exn, handler = tc
            if kind in RES:
                hk = handler()
                saved_k, saved_c = dict(self.kinds), dict(self.consumed)
                body = k(d2)
                self.kinds, self.consumed = saved_k, saved_c
                return (f"match {t} with\n| Ok {self.var(name)} =>\n{textwrap.indent(body, '    ')}\n"
                        f"| Raise e_ => if exn_eqb e_ {exn} then\n{textwrap.indent(hk, '    ')}\n  else Raise e_\nend")
            return f"let {self.var(name)} := {t} in\n{k(d2)}"
        if kind in RES:
            return f"{self.var(name)} <- {t} ;;\n{k(d2)}"
        return f"let {self.var(name)} := {t} in\n{k(d2)}"

    def with_consumes(self, fn):
        """run fn() collecting names passed to mutating callees; they become unreadable afterwards"""
        self.pending_consume = []
        r = fn()
        pend = self.pending_consume
        self.pending_consume = []
        return r, pend

    def B(self, stmts, defined, k):  # noqa: C901
        """translate a block; k(defined) gives the term that follows it"""
        if not stmts:
            return k(defined)
        s, rest = stmts[0], stmts[1:]

        def cont(d):
            return self.B(rest, d, k)

        if isinstance(s, ast.Expr) and isinstance(s.value, ast.Constant) and isinstance(s.value.value, str):
            return cont(defined)
        if isinstance(s, ast.Pass):
            return cont(defined)
        if isinstance(s, ast.Expr) and self.is_warn(s.value):
            self.info.dropped.append(f"warn() at line {s.lineno}")
            return cont(defined)
        if isinstance(s, ast.Return):
            if s.value is None:
                return "Ok PNone"
            kt, _ = self.with_consumes(lambda: self.E(s.value, defined))
            return self.to_res(kt)
        if isinstance(s, ast.Raise):
            exc = s.exc
            name = None
            if isinstance(exc, ast.Call) and isinstance(exc.func, ast.Name):
                name = exc.func.id
            elif isinstance(exc, ast.Name):
                name = exc.id
            if name not in EXN:
                self.refuse(s, f"raise of {ast.unparse(exc) if exc else 're-raise'} outside the subset")
            return f"Raise {EXN[name]}"
        if isinstance(s, ast.Continue):
            if self.loop_k is None:
                self.refuse(s, "continue outside a loop")
            return self.loop_k(defined)
        if isinstance(s, ast.AnnAssign):
            if s.value is None or not isinstance(s.target, ast.Name):
                self.refuse(s, "annotated assignment without a value or to a non-name")
            s2 = ast.Assign(targets=[s.target], value=s.value)
            ast.copy_location(s2, s)
            s = s2
        if isinstance(s, ast.Assign):
            if len(s.targets) != 1:
                self.refuse(s, "chained assignment")
            t = s.targets[0]
            if isinstance(t, ast.Name):
                if t.id in self.msg_only:
                    self.info.dropped.append(f"message-only assignment to {t.id} at line {s.lineno}")
                    return cont(defined)
                kt, pend = self.with_consumes(lambda: self.E(s.value, defined, "any"))
                if kt[0] not in ("funs", "fun"):
                    kt = self.as_pv(kt)
                for n, why in pend:
                    if n != t.id:
                        self.consumed[n] = why
                return self.rebind(t.id, kt, defined, cont)
            if isinstance(t, ast.Subscript):
                return self.assign_sub(s, t, s.value, defined, cont)
            self.refuse(s, "assignment target outside the subset")
        if isinstance(s, ast.AugAssign):
            if not isinstance(s.op, ast.Add):
                self.refuse(s, "augmented assignment other than +=")
            if isinstance(s.target, ast.Name):
                n = s.target.id
                kt = self.seq([self.E(s.target, defined), self.E(s.value, defined)], lambda p: ("res_pv", f"iadd {p[0]} {p[1]}"))
                self.note_mutation(n)
                return self.rebind(n, kt, defined, cont)
            if isinstance(s.target, ast.Subscript):
                cur = ast.Subscript(value=s.target.value, slice=s.target.slice, ctx=ast.Load())
                ast.copy_location(cur, s.target)
                new = ("iadd", cur, s.value)
                return self.assign_sub(s, s.target, new, defined, cont)
            self.refuse(s, "augmented assignment target")
        if isinstance(s, ast.Expr) and isinstance(s.value, ast.Call):
            c = s.value
            if isinstance(c.func, ast.Attribute) and c.func.attr in ("update", "append") and len(c.args) == 1 and not c.keywords:
                prim = {"update": "dict_update", "append": "list_append"}[c.func.attr]
                recv = c.func.value
                if isinstance(recv, ast.Name):
                    kt = self.seq([self.E(recv, defined), self.E(c.args[0], defined)], lambda p: ("res_pv", f"{prim} {p[0]} {p[1]}"))
                    self.note_mutation(recv.id)
                    return self.rebind(recv.id, kt, defined, cont)
                if isinstance(recv, ast.Subscript):
                    cur = ast.Subscript(value=recv.value, slice=recv.slice, ctx=ast.Load())
                    ast.copy_location(cur, recv)
                    return self.assign_sub(s, recv, (prim, cur, c.args[0]), defined, cont)
            # a call evaluated for its effect (it may raise)
            kt, pend = self.with_consumes(lambda: self.E(c, defined))
            for n, why in pend:
                self.consumed[n] = why
            if kt[0] not in RES:
                return cont(defined)
            return f"_ <- {kt[1]} ;;\n{cont(defined)}"
        if isinstance(s, ast.If):
            c = self.E(s.test, defined, "bool")
            if c == ("bool", "false"):
                return self.B(list(s.orelse) + rest, defined, k)
            if c == ("bool", "true"):
                return self.B(list(s.body) + rest, defined, k)
            saved_k, saved_c = dict(self.kinds), dict(self.consumed)
            a = self.B(list(s.body) + rest, defined, k)
            self.kinds, self.consumed = dict(saved_k), dict(saved_c)
            b = self.B(list(s.orelse) + rest, defined, k)
            self.kinds, self.consumed = saved_k, saved_c
            body = lambda p: f"if {p} then\n{textwrap.indent(a, '  ')}\nelse\n{textwrap.indent(b, '  ')}"  # noqa: E731
            if c[0] == "bool":
                return body(c[1])
            n = self.fresh()
            return f"{n} <- {c[1]} ;;\n{body(n)}"
        if isinstance(s, ast.For):
            return self.for_loop(s, defined, cont)
        if isinstance(s, ast.Try):
            return self.try_stmt(s, defined, cont)
        self.refuse(s, f"statement {type(s).__name__} outside the subset")

    def note_mutation(self, name):
        if name in self.info.params and name not in self.info.mutates:
            self.info.mutates.append(name)

    def assign_sub(self, s, target, value, defined, cont):
        """x[k] = v  and  x[k][m] = v  (x a local name).  value: ast expr or (prim, current-value expr, operand expr)."""
        path = []
        t = target
        while isinstance(t, ast.Subscript):
            if isinstance(t.slice, ast.Slice):
                self.refuse(s, "slice assignment")
            path.append(t.slice)
            t = t.value
        if not isinstance(t, ast.Name) or len(path) > 2:
            self.refuse(s, "subscript assignment must be on a local name, at most two levels deep")
        name = t.id
        path.reverse()
        if self.iter_guard.get(name) is not None:
            # the container is being iterated: only re-assignment of the current key keeps the key set
            allowed = self.iter_guard[name]
            if not (len(path) >= 1 and isinstance(path[0], ast.Name) and path[0].id == allowed):
                self.refuse(s, f"'{name}' is assigned under a key other than the loop key while it is iterated")
        if isinstance(value, tuple):
            prim, cur, operand = value
            vkt, pend = self.with_consumes(lambda: self.seq([self.E(cur, defined), self.E(operand, defined)],
                                                            lambda p: ("res_pv", f"{prim} {p[0]} {p[1]}")))
        else:
            vkt, pend = self.with_consumes(lambda: self.E(value, defined))
        for n, why in pend:
            self.consumed[n] = why
        keys = [self.E(p, defined) for p in path]
        base = self.E(t, defined)
        if len(path) == 1:
            kt = self.seq([vkt, base, keys[0]], lambda p: ("res_pv", f"setitem {p[1]} {p[2]} {p[0]}"))
        else:
            kt = self.seq([vkt, base, keys[0], keys[1]],
                          lambda p: ("res_pv", f"(in_ <- getitem {p[1]} {p[2]} ;; in2_ <- setitem in_ {p[3]} {p[0]} ;; setitem {p[1]} {p[2]} in2_)"))
        self.note_mutation(name)
        return self.rebind(name, kt, defined, cont)

    def for_loop(self, s, defined, cont):
        if s.orelse:
            self.refuse(s, "for/else")
        for n in ast.walk(s):
            if isinstance(n, (ast.Break, ast.Return)):
                self.refuse(n, "break/return inside a loop")
        it = self.iterable(s.iter, defined)
        pat, names = self.bind_target(s.target, it[2], defined)
        carried = [n for n in self.assigned(s.body) if n in defined and n not in self.msg_only]
        for n in names:
            if n in carried:
                self.refuse(s, f"loop variable {n} shadows a carried name")
        # guard: iterating d.items()/keys()/values() or d itself while assigning d[...]
        guard_name = None
        src = s.iter
        if isinstance(src, ast.Call) and isinstance(src.func, ast.Attribute) and src.func.attr in ("items", "keys", "values"):
            src = src.func.value
        if isinstance(src, ast.Name) and src.id in carried:
            guard_name = src.id
        saved_guard = dict(self.iter_guard)
        if guard_name:
            self.iter_guard[guard_name] = names[0]
        saved_kinds = dict(self.kinds)
        for n in names:
            self.kinds[n] = "fun" if it[2] == "funs" else "pv"
        inner = set(defined) | set(names)
        saved_loop = self.loop_k
        self.loop_k = lambda d: f"Ok {self.state_pat(carried)}"
        body = self.B(list(s.body), inner, self.loop_k)
        self.loop_k = saved_loop
        self.iter_guard = saved_guard
        self.kinds = saved_kinds
        for n in carried:
            self.kinds[n] = "pv"
            self.consumed.pop(n, None)
        lam = f"(fun {self.state_lam(carried)} {pat} =>\n{textwrap.indent(body, '   ')})"
        st = self.state_pat(carried)
        after = cont(defined)

        def build(l):
            if not carried:
                return "res_x", f"_ <- fold_res {lam} {l} tt ;;\n{after}"
            if len(carried) == 1:
                return "res_x", f"{st} <- fold_res {lam} {l} {st} ;;\n{after}"
            return "res_x", f"'{st} <- fold_res {lam} {l} {st} ;;\n{after}"
        k, t, _ = it
        if k == "list":
            return build(t)[1]
        n = self.fresh()
        return f"{n} <- {t} ;;\n{build(n)[1]}"

    def try_stmt(self, s, defined, cont):
        """two recognised idioms:
             try: <call for effect | name = expr>
             except tuple(BaseValidationError.__subclasses__()) | <ExcName> [as e]: raise <KnownExc>(..) [from e]"""
        if (len(s.handlers) == 1 and not s.orelse and not s.finalbody and isinstance(s.handlers[0].type, ast.Name)
                and s.handlers[0].type.id in EXN
                and all(isinstance(x, ast.Pass) or (isinstance(x, ast.Expr) and self.is_warn(x.value)) for x in s.handlers[0].body)
                and all(isinstance(x, ast.Assign) and len(x.targets) == 1 and isinstance(x.targets[0], (ast.Name, ast.Subscript))
                        for x in s.body)):
            # third idiom:  try: <assignments>  except E: warn(...)   -- statement by statement; E resumes after the try
            exn = EXN[s.handlers[0].type.id]
            self.info.dropped.append(f"warn() in except at line {s.handlers[0].lineno}")
            body = list(s.body)

            def go(i, d):
                if i == len(body):
                    return cont(d)
                saved_k, saved_c = dict(self.kinds), dict(self.consumed)

                def handler(d=d, saved_k=saved_k, saved_c=saved_c):
                    cur_k, cur_c = dict(self.kinds), dict(self.consumed)
                    self.kinds, self.consumed = dict(saved_k), dict(saved_c)
                    r = cont(d)
                    self.kinds, self.consumed = cur_k, cur_c
                    return r
                self.try_catch = (exn, handler)
                r = self.B([body[i]], d, lambda d2: go(i + 1, d2))
                self.try_catch = None
                return r
            return go(0, defined)
        ok = (len(s.body) == 1 and len(s.handlers) == 1 and not s.orelse and not s.finalbody
              and len(s.handlers[0].body) == 1 and isinstance(s.handlers[0].body[0], ast.Raise))
        if not ok:
            self.refuse(s, "try statement outside the recognised idioms")
        h = s.handlers[0]
        exc = h.body[0].exc
        if not (isinstance(exc, ast.Call) and isinstance(exc.func, ast.Name) and exc.func.id in EXN):
            self.refuse(s, "handler must raise a known exception class")
        new = EXN[exc.func.id]
        if h.type is not None and ast.unparse(h.type) == "tuple(BaseValidationError.__subclasses__())":
            wrap = lambda t: f"catch_validation ({t}) {new}"  # noqa: E731
        elif isinstance(h.type, ast.Name) and h.type.id in EXN:
            wrap = lambda t: f"catch_exn ({t}) {EXN[h.type.id]} {new}"  # noqa: E731
        else:
            self.refuse(s, "except clause outside the recognised idioms")
        b = s.body[0]
        if isinstance(b, ast.Expr) and isinstance(b.value, ast.Call):
            kt, pend = self.with_consumes(lambda: self.E(b.value, defined))
            for n, why in pend:
                self.consumed[n] = why
            return f"_ <- {wrap(self.to_res(kt))} ;;\n" + cont(defined)
        if isinstance(b, ast.Assign) and len(b.targets) == 1 and isinstance(b.targets[0], ast.Name):
            kt, pend = self.with_consumes(lambda: self.E(b.value, defined))
            for n, why in pend:
                self.consumed[n] = why
            return self.rebind(b.targets[0].id, ("res_pv", wrap(self.to_res(kt))), defined, cont)
        self.refuse(s, "try body outside the recognised idioms")

    # ---------------------------------------------------------------- function
    def translate(self):
        info = self.info
        self.loop_k = None
        self.iter_guard = {}
        self.pending_consume = []
        self.msg_only = {n for n in self.message_only_names() if n not in info.params}
        defined = set(info.params)
        for p in info.params:
            self.kinds[p] = info.spec.kinds.get(p, "pv")
        body = self.B(list(info.node.body), defined, lambda d: "Ok PNone")
        ps = []
        for p in info.params:
            ty = "list (pv -> res pv)" if self.kinds_of_param(p) == "funs" else "pv"
            ps.append(f"({self.var(p)} : {ty})")
        sig = " ".join(ps)
        name = info.spec.coq_name
        if info.recursive:
            return (f"Fixpoint {name} (fuel : nat) {sig} {{struct fuel}} : res pv :=\n  match fuel with\n  | O => Raise OutOfFuel\n"
                    f"  | S fuel =>\n{textwrap.indent(body, '    ')}\n  end.")
        if info.fuel:
            return f"Definition {name} (fuel : nat) {sig} : res pv :=\n{textwrap.indent(body, '  ')}."
        return f"Definition {name} {sig} : res pv :=\n{textwrap.indent(body, '  ')}."

    def kinds_of_param(self, p):
        return self.info.spec.kinds.get(p, "pv")


def write_if_changed(path: Path, text: str) -> bool:
    path.parent.mkdir(parents=True, exist_ok=True)
    if path.exists() and path.read_text() == text:
        return False
    import os
    tmp = path.with_suffix(path.suffix + f".tmp{os.getpid()}")
    tmp.write_text(text)
    tmp.replace(path)
    return True
