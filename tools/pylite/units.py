"""What PyLite translates for C14/C15 and into which generated files (the list is the contract: a function that leaves the
subset raises Refuse and the check stops)."""
from __future__ import annotations

from pathlib import Path

from .translate import Extern, FnSpec, Refuse, Unit, write_if_changed  # noqa: F401

SU = "geoh5py/shared/utils.py"
UU = "geoh5py/ui_json/utils.py"
IF = "geoh5py/ui_json/input_file.py"
SV = "geoh5py/shared/validators.py"

EXTERNS = {
    # hand-modelled in Model/PyVal.v, tied by the correspondence check (pseudo-module "prim")
    "is_uuid": Extern("py_is_uuid", "bool", 1),
    "path2workspace": Extern("path2workspace", "res_pv", 1),
    "workspace2path": Extern("workspace2path", "res_pv", 1),
    "container_group2name": Extern("container_group2name", "res_pv", 1),
    # hand-modelled in Model/UiCodec.v (InputValidation over the fixed ui_validations table)
    "InputFile.ui_validation": Extern("(ui_validation_with ui_validations_table)", "res_pv", 1),
}

SHARED_UTILS = [
    FnSpec(SU, "iterable", specialise={"checklen": "False"}),
    FnSpec(SU, "entity2uuid"),
    FnSpec(SU, "str2uuid"),
    FnSpec(SU, "as_str_if_uuid"),
    FnSpec(SU, "dict_mapper", specialise={"omit": "None"}, varargs_empty=True, kinds={"string_funcs": "funs"}),
    FnSpec(SU, "inf2str"),
    FnSpec(SU, "none2str"),
    FnSpec(SU, "nan2str"),
    FnSpec(SU, "str2none"),
    FnSpec(SU, "stringify"),
]
UI_UTILS = [
    FnSpec(UU, "truth"),
    FnSpec(UU, "is_uijson"),
    FnSpec(UU, "is_form"),
    FnSpec(UU, "flatten"),
    FnSpec(UU, "collect"),
    FnSpec(UU, "find_all"),
    FnSpec(UU, "group_optional"),
    FnSpec(UU, "group_enabled"),
    FnSpec(UU, "optional_requires_value"),
    FnSpec(UU, "dependency_requires_value"),
    FnSpec(UU, "group_requires_value"),
    FnSpec(UU, "requires_value"),
    FnSpec(UU, "str2inf"),
]
VALIDATORS = [
    FnSpec(SV, "OptionalValidator.validate", drop_first=True),
    FnSpec(SV, "RequiredValidator.validate", drop_first=True),
    FnSpec(SV, "AtLeastOneValidator.validate", drop_first=True),
    FnSpec(SV, "TypeValidator.validate", drop_first=True),
    FnSpec(SV, "UUIDValidator.validate", drop_first=True),
    FnSpec(SV, "ValueValidator.validate", drop_first=True),
]
IV = "geoh5py/ui_json/validation.py"
VALIDATION = [
    FnSpec(IV, "InputValidation._validations_from_uijson"),
]
INPUT_FILE = [
    FnSpec(IF, "InputFile.demote", drop_first=True),
    FnSpec(IF, "InputFile.stringify"),
    FnSpec(IF, "InputFile.numify", drop_first=True),
]

FILES = [
    # (file name, header, specs, imports)
    ("PyLite_SharedUtils.v", "geoh5py/shared/utils.py: mappers, dict_mapper, stringify", SHARED_UTILS, []),
    ("PyLite_UiUtils.v", "geoh5py/ui_json/utils.py: truth .. requires_value, flatten, str2inf", UI_UTILS,
     ["From GVgen Require Import PyLite_SharedUtils."]),
    ("PyLite_Validators.v", "geoh5py/shared/validators.py: validate bodies", VALIDATORS,
     ["From GVgen Require Import PyLite_SharedUtils."]),
    ("PyLite_Validation.v", "geoh5py/ui_json/validation.py: _validations_from_uijson", VALIDATION,
     ["From GVgen Require Import PyLite_SharedUtils PyLite_UiUtils."]),
    ("PyLite_InputFile.v", "geoh5py/ui_json/input_file.py: demote, stringify, numify", INPUT_FILE,
     ["From GV Require Import Model.Enforcers Model.UiForms.", "From GVgen Require Import PyLite_SharedUtils PyLite_UiUtils Table_UiValidations."]),
]


TYPE_COQ = {"str": "TStr", "float": "TFloat", "int": "TInt", "bool": "TBool", "Entity": "TEntity", "UUID": "TUuid",
            "PropertyGroup": "TPropertyGroup", "Path": "TPath", "Workspace": "TWorkspace", "list": "TList", "dict": "TDict"}


def _table_term(node):
    """a literal rule table (dict of dicts of bools / strings / lists of strings / lists of types) -> Coq pv term"""
    import ast
    if isinstance(node, ast.Dict):
        items = []
        for k, v in zip(node.keys, node.values):
            if not (isinstance(k, ast.Constant) and isinstance(k.value, str)):
                raise Refuse("rule table: non-string key")
            items.append(f'(PStr "{k.value}", {_table_term(v)})')
        return "PDict [" + "; ".join(items) + "]"
    if isinstance(node, ast.List):
        return "PList [" + "; ".join(_table_term(x) for x in node.elts) + "]"
    if isinstance(node, ast.Constant) and isinstance(node.value, bool):
        return "PBool " + ("true" if node.value else "false")
    if isinstance(node, ast.Constant) and isinstance(node.value, str):
        if '"' in node.value or not all(32 <= ord(c) < 127 for c in node.value):
            raise Refuse("rule table: string constant")
        return f'PStr "{node.value}"'
    if isinstance(node, ast.Name) and node.id in TYPE_COQ:
        return "PType " + TYPE_COQ[node.id]
    if isinstance(node, ast.Call) and ast.unparse(node) == "type(None)":
        return "PType TNoneType"
    raise Refuse("rule table: unsupported literal " + ast.unparse(node))


def extract_tables(repo, verif):
    """constants.py::ui_validations and base_validations -> coq/generated/Table_UiValidations.v"""
    import ast
    src = (Path(repo) / "geoh5py/ui_json/constants.py").read_text()
    tree = ast.parse(src)
    found = {}
    for n in tree.body:
        if isinstance(n, ast.Assign) and len(n.targets) == 1 and isinstance(n.targets[0], ast.Name) \
                and n.targets[0].id in ("ui_validations", "base_validations"):
            found[n.targets[0].id] = _table_term(n.value)
    if set(found) != {"ui_validations", "base_validations"}:
        raise Refuse("constants.py: ui_validations / base_validations literal not found")
    # forms.py :: MemberKeys.camel_to_snake (dict literal of strings)
    ftree = ast.parse((Path(repo) / "geoh5py/ui_json/forms.py").read_text())
    pairs = None
    for n in ast.walk(ftree):
        if isinstance(n, ast.ClassDef) and n.name == "MemberKeys":
            for b in n.body:
                tgt = b.target if isinstance(b, ast.AnnAssign) else (b.targets[0] if isinstance(b, ast.Assign) else None)
                if isinstance(tgt, ast.Name) and tgt.id == "camel_to_snake" and isinstance(b.value, ast.Dict):
                    pairs = []
                    for k, v in zip(b.value.keys, b.value.values):
                        if not (isinstance(k, ast.Constant) and isinstance(k.value, str) and isinstance(v, ast.Constant) and isinstance(v.value, str)):
                            raise Refuse("MemberKeys.camel_to_snake: non-string entry")
                        pairs.append((k.value, v.value))
    if pairs is None:
        raise Refuse("forms.py: MemberKeys.camel_to_snake literal not found")
    camel = "[" + "; ".join(f'("{a}", "{b}")' for a, b in pairs) + "]"
    text = ("(* GENERATED by tools/pylite/units.py from geoh5py/ui_json/constants.py - do not edit. *)\n"
            "From Coq Require Import String.\nFrom GV Require Import Prelude.Base Model.PyVal.\nLocal Open Scope string_scope.\n\n"
            f"Definition ui_validations_table : pv :=\n  {found['ui_validations']}.\n\n"
            f"Definition base_validations_table : pv :=\n  {found['base_validations']}.\n\n"
            "(* geoh5py/ui_json/forms.py :: MemberKeys.camel_to_snake *)\n"
            f"Definition camel_to_snake_table : list (string * string) :=\n  {camel}.\n")
    write_if_changed(Path(verif) / "coq" / "generated" / "Table_UiValidations.v", text)
    return {"Table_UiValidations.v": 3}


def regenerate_all(repo, verif, only=None):
    """Translate everything (one Unit: later files may call earlier ones) and write coq/generated/*.v.
    Returns {"tables": {file: number of definitions}}.  Raises Refuse on anything outside the subset."""
    specs = []
    wanted = [f for f in FILES if only is None or f[0] in only]
    for _, _, sp, _ in wanted:
        specs += sp
    unit = Unit(repo, specs, EXTERNS)
    out = {}
    gen = Path(verif) / "coq" / "generated"
    for fname, header, sp, imports in wanted:
        text = unit.emit(header, imports, members={s.qualname for s in sp})
        write_if_changed(gen / fname, text + "\n")
        out[fname] = len(sp)
    if only is None or "Table_UiValidations.v" in only:
        out.update(extract_tables(repo, verif))
    return {"tables": out}
