"""PyLite: a fail-closed translator from a small pure subset of Python (ast) to Gallina over GV.Model.PyVal."""
