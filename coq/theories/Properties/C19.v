(* C19 — The reader tolerates missing optional content.
   Model: Model/H5Read.v (HDF5 link graph, single deletions, layout of library-produced files, the loader path with its
   guards taken from GVgen.Tables_Reader).  Proofs: Proofs/H5ReadProofs.v.  Only statements here.

   Reading guide.  [layout s] is the file the library writes for the entity tree [s] (any depth and width, unique
   identifiers: [wf s]); [delete_item f x] removes one attribute or one link; [load fuel G f] is the transcription of
   Workspace.open with the guards [G] of the current source; [abs s] is the intact content decoded from [s] without the
   reader; [described s x] are the entities item [x] describes (with the descendants hanging on it); [optional s x] is the
   classification by the format document; [agree_outside b A t t0]: every entity outside [A] is returned by [t] exactly as
   in [t0] (identifier, kind, parent, attributes, type, property groups, datasets), and the project attributes too if [b]. *)
From GV Require Import Prelude.Base Model.H5Read Proofs.H5ReadProofs.
From Coq Require Import String.
Local Open Scope string_scope.
Local Open Scope list_scope.

(* ---- the guard table (T_reader): every lookup site the model consumes carries, in the source of this run, the guard the
   proofs need.  20 consumed rows, enumerated completely and checked by vm_compute. *)
Theorem C19_reader_guards : guards_okb G = true.
Proof. vm_compute. reflexivity. Qed.
Print Assumptions C19_reader_guards.

Theorem C19_reader_table : List.length consumed_sites = 20 /\ forall c, In c consumed_sites -> site_okb c = true.
Proof. split; [reflexivity|]. apply forallb_forall. vm_compute. reflexivity. Qed.
Print Assumptions C19_reader_table.

(* hence the extracted guards are the ones the proofs were written against *)
Theorem C19_guards_as_proved : G = G0.
Proof. apply guards_ok_eq. exact C19_reader_guards. Qed.
Print Assumptions C19_guards_as_proved.

(* ---- the intact file reads back as its content *)
Theorem C19_intact_reads_back : forall s fuel, wf s -> depth (fs_root s) <= fuel ->
  exists t, load fuel G (layout s) = Ok t /\ t_proj t = fs_proj s /\ t_root t = U (et_uid (fs_root s))
            /\ forall v, find_rec (U v) (t_ents t) = find_rec (U v) (t_ents (abs s)).
Proof. intros s fuel Hwf Hf. rewrite C19_guards_as_proved. exact (intact_reads_back s Hwf fuel Hf). Qed.
Print Assumptions C19_intact_reads_back.

(* ---- the full statements of the property *)
Definition C19_optional_full : Prop :=
  forall s x fuel, wf s -> item_in (layout s) x -> optional s x = true -> depth (fs_root s) <= fuel ->
  exists t, load fuel G (delete_item (layout s) x) = Ok t
            /\ agree_outside (negb (is_proj_attr x)) (described s x) t (abs s).

Definition C19_mandatory_full : Prop :=
  forall s x fuel, wf s -> item_in (layout s) x -> optional s x = false -> depth (fs_root s) <= fuel ->
  (exists e, load fuel G (delete_item (layout s) x) = Err e)
  \/ (exists t, load fuel G (delete_item (layout s) x) = Ok t /\ tree_eqb t (prune (described s x) (abs s)) = true).

(* PARTIAL (optional items): every optional item except the Root link.  Missing for the full statement: the Root link
   (refuted below). *)
Theorem C19_optional_deletion_tolerated_partial :
  forall s x fuel, wf s -> item_in (layout s) x -> optional s x = true -> is_root_link x = false -> depth (fs_root s) <= fuel ->
  exists t, load fuel G (delete_item (layout s) x) = Ok t
            /\ agree_outside (negb (is_proj_attr x)) (described s x) t (abs s).
Proof.
  intros s x fuel Hwf _ Hopt Hnr Hf. rewrite C19_guards_as_proved. unfold described. rewrite Hnr.
  exact (optional_outcome s Hwf x Hnr Hopt fuel Hf).
Qed.
Print Assumptions C19_optional_deletion_tolerated_partial.

(* PARTIAL (mandatory items): the reader raises, or returns every entity outside the described ones (and their
   descendants) unchanged.  Missing for the full statement: that the described entities are left out — the reader often
   keeps them with class defaults or a fresh identifier (refuted below). *)
Theorem C19_mandatory_deletion_local_partial :
  forall s x fuel, wf s -> item_in (layout s) x -> optional s x = false -> depth (fs_root s) <= fuel ->
  (exists e, load fuel G (delete_item (layout s) x) = Err e /\ e <> OutOfFuel)
  \/ (exists t, load fuel G (delete_item (layout s) x) = Ok t
                /\ agree_outside (negb (is_proj_attr x)) (described s x) t (abs s)).
Proof.
  intros s x fuel Hwf _ Hopt Hf. rewrite C19_guards_as_proved.
  assert (Hnr : is_root_link x = false).
  { destruct x as [a k|a k]; [reflexivity|]. destruct a; [|reflexivity]. destruct k; try reflexivity. discriminate Hopt. }
  unfold described. rewrite Hnr. exact (deletion_outcome s Hwf x Hnr fuel Hf).
Qed.
Print Assumptions C19_mandatory_deletion_local_partial.

(* ---- witnesses *)
Definition gtype : tspec := {| ts_attrs := [(KID, VStr "{gt}"); (KName, VTok 1)]; ts_cmap := None; ts_vmap := None |}.
Definition gattrs (u : N) : amap := [(KN "Allow move", VTok 1); (KID, VUid u); (KName, VTok (u + 10))].
Definition grp (u : N) (kids : list etree) : etree := ET u KGroup (gattrs u) 0 [] None [KData; KGroup; KObject] kids.
(* root 5 > group 4 > group 0: the child's identifier sorts before its parent's *)
Definition s_nested : fspec :=
  {| fs_proj := [(KN "Version", VTok 2); (KN "Contributors", VTok 3)];
     fs_types := fun k => match k with KGroup => [(0%N, gtype)] | _ => [] end;
     fs_root := grp 5 [grp 4 [grp 0 []]] |}.

Example C19_nonvacuous :
  wf s_nested
  /\ (item_in (layout s_nested) (IAttr [KGroups; KU 4] (KN "Allow move")) /\ optional s_nested (IAttr [KGroups; KU 4] (KN "Allow move")) = true)
  /\ (item_in (layout s_nested) (ILink [KGroups; KU 5; KGroups] (KU 4)) /\ optional s_nested (ILink [KGroups; KU 5; KGroups] (KU 4)) = false)
  /\ (item_in (layout s_nested) (ILink [] KRoot) /\ optional s_nested (ILink [] KRoot) = true)
  /\ depth (fs_root s_nested) <= 5.
Proof. repeat split; try (vm_compute; reflexivity). cbv. repeat constructor. Qed.

(* REFUTED (for the source as pinned: no scan of the child containers when the root is rebuilt): without the Root link the
   reader rebuilds the tree from the flat containers in identifier order; group 0 is met before its parent 4 and is hung on
   the new root: altered content for an entity the Root link does not describe.  (witness replayed on the implementation:
   corpus/C19/0001-root-link-nested.json, known finding; with fixes/C19-root-rebuild-keeps-hierarchy.patch applied
   [nested_scan] is true, the hypothesis is false and the witness reads back with its hierarchy) *)
Theorem C19_optional_refuted : nested_scan = false -> ~ C19_optional_full.
Proof.
  intros Hn H. vm_compute in Hn.
  first [ discriminate Hn
        | specialize (H s_nested (ILink [] KRoot) 5);
          destruct H as [t [E [_ Hag]]]; try (vm_compute; reflexivity);
          [ cbv; repeat constructor
          | vm_compute in E; inversion E; subst t; clear E;
            specialize (Hag 0%N); vm_compute in Hag;
            assert (Hn0 : ~ (5%N = 0%N \/ False)) by (intros [X|[]]; discriminate); specialize (Hag Hn0); discriminate ] ].
Qed.
Print Assumptions C19_optional_refuted.

(* REFUTED: a missing Name (mandatory) neither raises nor leaves the group out: it is returned with the class default. *)
Theorem C19_mandatory_refuted : ~ C19_mandatory_full.
Proof.
  intros H. specialize (H s_nested (IAttr [KGroups; KU 4] KName) 5).
  destruct H as [[e E]|[t [E Heq]]]; try (vm_compute; reflexivity).
  - cbv. repeat constructor.
  - vm_compute in E. discriminate.
  - vm_compute in E. inversion E; subst t. vm_compute in Heq. discriminate.
Qed.
Print Assumptions C19_mandatory_refuted.
