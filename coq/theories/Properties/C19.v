(* C19 — The reader tolerates missing optional content.
   Model: Model/H5Read.v (HDF5 link graph, single deletions, layout of library-produced files, the loader path with its
   guards taken from GVgen.Tables_Reader).  Proofs: Proofs/H5ReadProofs.v.  Only statements here.

   Reading guide.  [layout s] is the file the library writes for the entity tree [s] (any depth and width, unique
   identifiers: [wf s]); [delete_item f x] removes one attribute or one link; [load fuel G f] is the transcription of
   Workspace.open with the guards [G] of the current source; [abs s] is the intact content decoded from [s] without the
   reader; [described s x] are the entities item [x] describes (with the descendants hanging on it); [optional s x] is the
   classification by the format document; [agree_outside b A t t0]: every entity outside [A] is returned by [t] exactly as
   in [t0] (identifier, kind, parent, attributes, type, property groups, datasets), and the project attributes too if [b]. *)
From GV Require Import Prelude.Base Model.H5Read Proofs.H5ReadProofs.
From Coq Require Import String.
Local Open Scope string_scope.
Local Open Scope list_scope.

(* ---- the guard table (T_reader): every lookup site the model consumes carries, in the source of this run, the guard the
   proofs need.  20 guard rows + 2 enumeration rows, enumerated completely and checked by vm_compute. *)
Theorem C19_reader_guards : guards_okb G = true.
Proof. vm_compute. reflexivity. Qed.
Print Assumptions C19_reader_guards.

Theorem C19_reader_table : List.length consumed_sites = 22 /\ forall c, In c consumed_sites -> site_okb c = true.
Proof. split; [reflexivity|]. apply forallb_forall. vm_compute. reflexivity. Qed.
Print Assumptions C19_reader_table.

(* every `try ... except KeyError` of the reader functions the model transcribes swallows exactly the lookups the model absorbs
   there (6 scopes; a lookup added inside one - e.g. keying property groups by a stored attribute - changes the row) *)
Theorem C19_swallowing_scopes : List.length swallow_scopes = 6 /\ forall c, In c swallow_scopes -> scope_okb c = true.
Proof. split; [reflexivity|]. apply forallb_forall. vm_compute. reflexivity. Qed.
Print Assumptions C19_swallowing_scopes.

(* the reader starts every session from scratch: open() resets the five registries and each branch of fetch_or_create_root
   assigns the root, unconditionally (7 rows) - what makes [load] a function of the file alone also for a re-used Workspace *)
Theorem C19_session_state_reset : List.length session_sites = 7 /\ forall c, In c session_sites -> scope_okb c = true.
Proof. split; [reflexivity|]. apply forallb_forall. vm_compute. reflexivity. Qed.
Print Assumptions C19_session_state_reset.

(* hence the extracted guards are the ones the proofs were written against *)
Theorem C19_guards_as_proved : G = G0.
Proof. apply guards_ok_eq. exact C19_reader_guards. Qed.
Print Assumptions C19_guards_as_proved.

(* ---- which rebuild the source of this run has: fetch_or_create_root scans the child containers first (the repaired code,
   commit "Root rebuild keeps hierarchy").  [load] takes the variant as a parameter; the theorems about the current source
   are stated for [true], the refutation of the old behaviour for the explicit [false] variant. *)
Theorem C19_source_rebuild_scans_children : nested_scan = true.
Proof. vm_compute. reflexivity. Qed.
Print Assumptions C19_source_rebuild_scans_children.

(* ---- the intact file reads back as its content *)
Theorem C19_intact_reads_back : forall s fuel, wf s -> depth (fs_root s) <= fuel ->
  exists t, load fuel G nested_scan (layout s) = Ok t /\ t_proj t = fs_proj s /\ t_root t = U (et_uid (fs_root s))
            /\ forall v, find_rec (U v) (t_ents t) = find_rec (U v) (t_ents (abs s)).
Proof. intros s fuel Hwf Hf. rewrite C19_guards_as_proved. exact (intact_reads_back s nested_scan Hwf fuel Hf). Qed.
Print Assumptions C19_intact_reads_back.

(* ---- the full statements of the property, for a given variant of the rebuild *)
Definition C19_optional_full (nested : bool) : Prop :=
  forall s x fuel, wf s -> item_in (layout s) x -> optional s x = true -> depth (fs_root s) <= fuel ->
  exists t, load fuel G nested (delete_item (layout s) x) = Ok t
            /\ agree_outside (negb (is_proj_attr x)) (described s x) t (abs s).

Definition C19_mandatory_full (nested : bool) : Prop :=
  forall s x fuel, wf s -> item_in (layout s) x -> optional s x = false -> depth (fs_root s) <= fuel ->
  (exists e, load fuel G nested (delete_item (layout s) x) = Err e)
  \/ (exists t, load fuel G nested (delete_item (layout s) x) = Ok t /\ tree_eqb t (prune (described s x) (abs s)) = true).

(* FULL (optional items, the source of this run): every optional item, the Root link included, can be deleted: the file
   opens and every entity the item does not describe is returned unchanged.  For the Root link the described entity is
   the root group: the reader builds a new root and returns the old root group as its only child (kind and parent of that
   one entity change); every other entity keeps its content and its parent. *)
Theorem C19_optional_deletion_tolerated : C19_optional_full true.
Proof.
  intros s x fuel Hwf _ Hopt Hf. rewrite C19_guards_as_proved. unfold described.
  destruct (is_root_link x) eqn:Hr.
  - assert (Ex : x = ILink [] KRoot).
    { destruct x as [a k|a k]; [discriminate|]. destruct a; [|discriminate]. destruct k; try discriminate. reflexivity. }
    subst x. exact (root_link_outcome s Hwf fuel Hf).
  - exact (optional_outcome s true Hwf x Hr Hopt fuel Hf).
Qed.
Print Assumptions C19_optional_deletion_tolerated.

(* the same, phrased with the constant extracted from the source *)
Theorem C19_optional_deletion_tolerated_current : C19_optional_full nested_scan.
Proof. rewrite C19_source_rebuild_scans_children. exact C19_optional_deletion_tolerated. Qed.
Print Assumptions C19_optional_deletion_tolerated_current.

(* PARTIAL (mandatory items, either rebuild): the reader raises, or returns every entity outside the described ones (and
   their descendants) unchanged.  Missing for the full statement: that the described entities are left out — the reader
   often keeps them with class defaults or a fresh identifier (refuted below). *)
Theorem C19_mandatory_deletion_local_partial :
  forall nested s x fuel, wf s -> item_in (layout s) x -> optional s x = false -> depth (fs_root s) <= fuel ->
  (exists e, load fuel G nested (delete_item (layout s) x) = Err e /\ e <> OutOfFuel)
  \/ (exists t, load fuel G nested (delete_item (layout s) x) = Ok t
                /\ agree_outside (negb (is_proj_attr x)) (described s x) t (abs s)).
Proof.
  intros nested s x fuel Hwf _ Hopt Hf. rewrite C19_guards_as_proved.
  assert (Hnr : is_root_link x = false).
  { destruct x as [a k|a k]; [reflexivity|]. destruct a; [|reflexivity]. destruct k; try reflexivity. discriminate Hopt. }
  unfold described. rewrite Hnr. exact (deletion_outcome s nested Hwf x Hnr fuel Hf).
Qed.
Print Assumptions C19_mandatory_deletion_local_partial.

(* ---- property groups one by one (what Workspace.load_entity returns for the object): deleting an attribute of one
   property group, or its entry in the PropertyGroups block, leaves the object's other property groups and every other
   field of the object exactly as in the intact file; only the addressed group loses the attribute / is left out. *)
Theorem C19_property_group_item_local :
  forall s t pgs p, wf s -> In t (subtrees (fs_root s)) -> et_pgs t = Some pgs ->
  let ea := ent_addr (et_kind t) (et_uid t) in
  (forall pk k0, exists P,
      load_entity G (delete_item (layout s) (IAttr (ea ++ [KPGs; pk]) k0)) (U (et_uid t)) (Some (et_kind t)) p
      = Ok (Some (rec_with_pgs s t P p))
      /\ forall pk', pk' <> pk -> lookup pk' P = lookup pk' pgs)
  /\ (forall pk, exists P,
      load_entity G (delete_item (layout s) (ILink (ea ++ [KPGs]) pk)) (U (et_uid t)) (Some (et_kind t)) p
      = Ok (Some (rec_with_pgs s t P p))
      /\ lookup pk P = None /\ forall pk', pk' <> pk -> lookup pk' P = lookup pk' pgs).
Proof.
  intros s t pgs p Hwf Hin Hp ea. rewrite C19_guards_as_proved. split.
  - intros pk k0. eexists. split; [exact (pg_attr_deleted s Hwf t Hin pgs Hp pk k0 p)|].
    intros pk' Hne. apply lookup_map_other. exact Hne.
  - intros pk. eexists. split; [exact (pg_entry_deleted s Hwf t Hin pgs Hp pk p)|]. split.
    + apply lookup_remove_same.
    + intros pk' Hne. apply lookup_remove_other. congruence.
Qed.
Print Assumptions C19_property_group_item_local.

(* ---- witnesses *)
Definition gtype : tspec := {| ts_attrs := [(KID, VStr "{gt}"); (KName, VTok 1)]; ts_cmap := None; ts_vmap := None |}.
Definition gattrs (u : N) : amap := [(KN "Allow move", VTok 1); (KID, VUid u); (KName, VTok (u + 10))].
Definition grp (u : N) (kids : list etree) : etree := ET u KGroup (gattrs u) 0 [] None [KData; KGroup; KObject] kids.
(* root 5 > group 4 > group 0: the child's identifier sorts before its parent's *)
Definition s_nested : fspec :=
  {| fs_proj := [(KN "Version", VTok 2); (KN "Contributors", VTok 3)];
     fs_types := fun k => match k with KGroup => [(0%N, gtype)] | _ => [] end;
     fs_root := grp 5 [grp 4 [grp 0 []]] |}.

(* the hypotheses of every theorem above are met: a well-formed tree, an optional attribute, a mandatory link, and the
   Root link itself (existing, optional); and the Root-link instance evaluates as the theorem says *)
Example C19_nonvacuous :
  wf s_nested
  /\ (item_in (layout s_nested) (IAttr [KGroups; KU 4] (KN "Allow move")) /\ optional s_nested (IAttr [KGroups; KU 4] (KN "Allow move")) = true)
  /\ (item_in (layout s_nested) (ILink [KGroups; KU 5; KGroups] (KU 4)) /\ optional s_nested (ILink [KGroups; KU 5; KGroups] (KU 4)) = false)
  /\ (item_in (layout s_nested) (ILink [] KRoot) /\ optional s_nested (ILink [] KRoot) = true)
  /\ depth (fs_root s_nested) <= 5.
Proof. repeat split; try (vm_compute; reflexivity). cbv. repeat constructor. Qed.

Example C19_root_link_instance :
  match load 5 G true (delete_item (layout s_nested) (ILink [] KRoot)) with
  | Ok t => agree_outsideb s_nested true (described s_nested (ILink [] KRoot)) t (abs s_nested) = true
            /\ List.length (t_ents t) = 4 /\ t_root t = Fresh [KRoot]
            /\ option_map r_parent (find_rec (U 0) (t_ents t)) = Some (Some (U 4))
            /\ option_map r_parent (find_rec (U 5) (t_ents t)) = Some (Some (Fresh [KRoot]))
  | Err _ => False
  end.
Proof. vm_compute. repeat split; reflexivity. Qed.

(* an object with three property groups: the hypotheses of C19_property_group_item_local are met, and deleting the ID of the
   first group leaves the two others (evaluated) *)
Definition otype : tspec := {| ts_attrs := [(KID, VStr "{202c5db1-a56d-4004-9cad-baafd8899406}"); (KName, VTok 1)]; ts_cmap := None; ts_vmap := None |}.
Definition pg3 : list (key * amap) :=
  [(KN "{a}", [(KID, VTok 1); (KN "Group Name", VTok 11)]); (KN "{b}", [(KID, VTok 2); (KN "Group Name", VTok 12)]);
   (KN "{c}", [(KID, VTok 3); (KN "Group Name", VTok 13)])].
Definition pts3 : etree := ET 3 KObject (gattrs 3) 0 [(KN "Vertices", 7%N)] (Some pg3) [KData] [].
Definition s_pgs : fspec :=
  {| fs_proj := [(KN "Version", VTok 2)];
     fs_types := fun k => match k with KGroup => [(0%N, gtype)] | KObject => [(0%N, otype)] | KData => [] end;
     fs_root := grp 9 [pts3] |}.
Example C19_property_groups_nonvacuous :
  wf s_pgs /\ In pts3 (subtrees (fs_root s_pgs)) /\ et_pgs pts3 = Some pg3
  /\ item_in (layout s_pgs) (IAttr [KObjects; KU 3; KPGs; KN "{a}"] KID)
  /\ match load 5 G true (delete_item (layout s_pgs) (IAttr [KObjects; KU 3; KPGs; KN "{a}"] KID)) with
     | Ok t => option_map (fun r => map fst (r_pgs r)) (find_rec (U 3) (t_ents t)) = Some [KN "{a}"; KN "{b}"; KN "{c}"]
               /\ fst (pg_diff s_pgs (abs s_pgs) t) = [(3%N, KN "{a}")] /\ snd (pg_diff s_pgs (abs s_pgs) t) = []
     | Err _ => False
     end.
Proof. split; [vm_compute; reflexivity|]. split; [simpl; right; left; reflexivity|]. split; [reflexivity|]. split; vm_compute; repeat split; reflexivity. Qed.

(* REFUTED for the old rebuild (the explicit [false] variant of the model: every flat entry is attached to the new root in
   identifier order): group 0 is met before its parent 4 and is hung on the new root — altered content for an entity the
   Root link does not describe.  This was the behaviour of the pinned source before
   fixes/C19-root-rebuild-keeps-hierarchy.patch (witness corpus/C19/0001-root-link-nested.json). *)
Theorem C19_optional_refuted_old_rebuild : ~ C19_optional_full false.
Proof.
  intros H. specialize (H s_nested (ILink [] KRoot) 5).
  destruct H as [t [E [_ Hag]]]; try (vm_compute; reflexivity).
  - cbv. repeat constructor.
  - vm_compute in E. inversion E; subst t. clear E.
    specialize (Hag 0%N). vm_compute in Hag.
    assert (Hn : ~ (5%N = 0%N \/ False)) by (intros [X|[]]; discriminate). specialize (Hag Hn). discriminate.
Qed.
Print Assumptions C19_optional_refuted_old_rebuild.

(* REFUTED (either rebuild): a missing Name (mandatory) neither raises nor leaves the group out: it is returned with the
   class default. *)
Theorem C19_mandatory_refuted : forall nested, ~ C19_mandatory_full nested.
Proof.
  intros nested H. specialize (H s_nested (IAttr [KGroups; KU 4] KName) 5).
  destruct H as [[e E]|[t [E Heq]]]; try (vm_compute; reflexivity).
  - cbv. repeat constructor.
  - destruct nested; vm_compute in E; discriminate.
  - destruct nested; vm_compute in E; inversion E; subst t; vm_compute in Heq; discriminate.
Qed.
Print Assumptions C19_mandatory_refuted.
