(* C19 — The reader tolerates missing optional content.  (work in progress: table theorem first) *)
From GV Require Import Prelude.Base Model.H5Read.

Theorem C19_reader_guards : guards_okb G = true.
Proof. vm_compute. reflexivity. Qed.
Print Assumptions C19_reader_guards.
