(* C11 -- Closing always leaves a complete file and a released handle.
   Only statements, each closed by [exact] (short glue allowed) and followed by Print Assumptions.

   PARTIAL BY NATURE: "no HDF5 handle stays open" and "the file is valid and can be opened again" are facts about h5py/HDF5;
   they are observed on the implementation by tools/props/c11.py (h5py.h5f.get_obj_count, re-open from a second Workspace),
   not proved.  What is proved here is the handle/exception discipline of Workspace.{close, __exit__, open, _io_call, save_as}
   and fetch_active_workspace as transcribed in Model/Mode.v, over ALL operation lists and ALL exception positions.
   The model's file is the append-only log of the H5Writer routines that ran; "every completed operation is in the file" is
   carried as far as that log goes (no routine that ran is rolled back or reordered by the close). *)
From GV Require Import Prelude.Base Model.Mode Proofs.ModeProofs.
From GVgen Require Import Tables_IO.
Require Import String.
Open Scope string_scope. Open Scope list_scope.

(* the table facts the model of close / open relies on are the ones C10 checks; restated here so that a change of the
   call sites inside close/__exit__/open breaks this property's check as well *)
Theorem C11_table : ungated T_iocalls = [] /\ ungated T_fetch = []
  /\ existsb (fun r => site_eqb (r_site r) SHandleMethod && String.eqb (r_encl r) "Workspace.close"
                       && String.eqb (r_callee r) "close") T_iocalls = true
  /\ existsb (fun r => site_eqb (r_site r) SIoCall && String.eqb (r_encl r) "Workspace.close"
                       && String.eqb (r_callee r) "H5Writer.save_entity") T_iocalls = true.
Proof. vm_compute. split; [reflexivity|]. split; [reflexivity|]. split; reflexivity. Qed.
Print Assumptions C11_table.

(* for ALL with-blocks (any operations, including close/open/helpers inside the block), and an exception raised by the caller's
   code at EVERY position k (k >= length: normal exit), or raised by an operation itself: after __exit__ the handle is closed
   (provided the final save inside close does not itself raise, see C11_close_not_exception_safe) *)
Theorem C11_exit_always_closes : forall ops k w,
  close_fault w = false -> handle_of (fst (with_block ops k w)) = Closed.
Proof. exact exit_always_closes_proof. Qed.
Print Assumptions C11_exit_always_closes.

(* ... and the exception is not swallowed *)
Theorem C11_exit_propagates : forall ops k w,
  close_fault w = false -> k < List.length ops -> snd (with_block ops k w) <> None.
Proof. exact exit_propagates_proof. Qed.
Print Assumptions C11_exit_propagates.

(* after closing, every operation that needs the file (issues at least one _io_call; listing getters with a dead referent)
   raises the closed-file error and changes nothing *)
Theorem C11_closed_raises : forall w o,
  handle_of w = Closed -> needs_file o = true -> step w o = (w, Some EClosed).
Proof. exact closed_raises_proof. Qed.
Print Assumptions C11_closed_raises.

(* close; open(): the handle is back in the constructor's mode (or "r" when the file cannot be opened writable), the log is the
   one left by the close, which extends the one before it, and every non-failing call list runs again without refusal
   (all of them when the mode is writable, the reader requests otherwise) *)
Theorem C11_reopen_restores : forall w,
  close_fault w = false ->
  let w1 := fst (close w) in
  let w2 := fst (open_ None w1) in
  handle_of w1 = Closed
  /\ file w2 = file w1 /\ extends w w1
  /\ (locked w = false -> handle_of w2 = Open (norm (defmode w)))
  /\ (locked w = true -> handle_of w2 = Open R)
  /\ forall cs, forallb (fun c => negb (c_fails c)) cs = true ->
       (locked w = false /\ writable (defmode w) = true) \/ forallb (fun c => negb (writable (c_req c))) cs = true ->
       snd (io_calls w2 cs) = None.
Proof. exact reopen_restores_proof. Qed.
Print Assumptions C11_reopen_restores.

(* The operation that closes may itself fail: save_as (also reached by Workspace.create and by the constructor on a new path)
   closes the workspace and then raises when the target cannot be written.

   Where save_as can fail relative to the re-pointing of `_h5file` is modelled in [save_as_detail] (Model/Mode.v): with the code's
   order (copy, then re-point) a failure of the checks or of the copy leaves a closed workspace whose `_h5file` still names the
   file/buffer with the content, and open() succeeds ... *)
Theorem C11_save_as_failure_keeps_pointer : forall f s,
  sa_ptr s = true ->
  let s1 := fst (save_as_detail CodeOrder (Some f) s) in
  snd (save_as_detail CodeOrder (Some f) s) = Some EFail
  /\ sa_handle s1 = Closed /\ sa_ptr s1 = true
  /\ snd (sa_open s1) = None /\ sa_handle (fst (sa_open s1)) = Open RW.
Proof. intros [|] [h p] P; simpl in *; subst p; repeat split. Qed.
Print Assumptions C11_save_as_failure_keeps_pointer.

(* ... whereas the variant that re-points before the copy does not have this property: REFUTED for that variant (witness: the
   copy fails).  The driver's save_fault cases observe the pointer and the re-open on the implementation ([agree_sa]). *)
Theorem C11_repoint_first_variant_refuted :
  ~ (forall f s, sa_ptr s = true -> snd (sa_open (fst (save_as_detail RepointFirst (Some f) s))) = None).
Proof. intros H. specialize (H FailCopy {| sa_handle := Open RW; sa_ptr := true |} eq_refl). discriminate H. Qed.
Print Assumptions C11_repoint_first_variant_refuted.

(* DEFINITIONAL on the op [SaveAsFail] of the main model (= the CodeOrder case above: close, then the error, pointer intact,
   which is why [open_] can stay total there): it restates C11_reopen_restores for the world left by a failed save_as.  Its tie
   to the code is the save_fault stream (correspondence + oracle), not this statement. *)
Theorem C11_failed_save_as_recoverable : forall w,
  close_fault w = false ->
  let w1 := fst (step w SaveAsFail) in
  let w2 := fst (open_ None w1) in
  snd (step w SaveAsFail) = Some EFail /\ handle_of w1 = Closed /\ extends w w1 /\ file w2 = file w1
  /\ (locked w = false -> handle_of w2 = Open (norm (defmode w)))
  /\ forall cs, forallb (fun c => negb (c_fails c)) cs = true ->
       (locked w = false /\ writable (defmode w) = true) \/ forallb (fun c => negb (writable (c_req c))) cs = true ->
       snd (io_calls w2 cs) = None.
Proof.
  intros w CF. destruct (failed_save_as_proof w CF) as (E & N & H).
  destruct (reopen_restores_proof w CF) as (_ & F & X & L & _ & A).
  cbv zeta. rewrite E. repeat split; try assumption. rewrite <- E. exact H.
Qed.
Print Assumptions C11_failed_save_as_recoverable.

Example C11_failed_save_as_nonvacuous :
  let wr f b := {| c_fn := f; c_writer := true; c_req := RW; c_fails := false; c_repack := b |} in
  let w := {| handle_of := Open RW; defmode := RW; file := ["H5Writer.save_entity"; "H5Writer.write_data_values"]; locked := false;
              close_fault := false; repack := true; ncat := 1; in_mem := true |} in
  close_fault w = false
  /\ step w SaveAsFail =
       ({| handle_of := Closed; defmode := RW;
           file := ["H5Writer.save_entity"; "H5Writer.write_data_values"; "H5Writer.update_field"; "H5Writer.clear_stats_cache";
                    "H5Writer.save_entity"];
           locked := false; close_fault := false; repack := true; ncat := 1; in_mem := true |}, Some EFail)
  /\ handle_of (fst (open_ None (fst (step w SaveAsFail)))) = Open RW
  /\ snd (io_calls (fst (open_ None (fst (step w SaveAsFail)))) [wr "H5Writer.update_field" false]) = None.
Proof. cbv zeta. split; [reflexivity|]. split; [vm_compute; reflexivity|]. split; vm_compute; reflexivity. Qed.

(* PARTIAL (as far as the model carries it): in a block of plain operations on a writable workspace, the writer routines of
   every operation that completed before the exit are in the file, in order, followed by the concatenator refresh that close
   performs under `repack` and the closing save -- for every
   exception position k; and for arbitrary blocks nothing that was written is ever removed by the exit.
   Missing for the full property: that the HDF5 content written by those routines is the state the API showed (C01's subject)
   and that the file is structurally valid (C02's subject). *)
Theorem C11_completed_ops_persist_partial : forall ops k w m,
  handle_of w = Open m -> writable m = true -> close_fault w = false ->
  forallb is_calls ops = true -> forallb op_total ops = true ->
  (exists refresh, Forall is_refresh refresh /\
     file (fst (with_block ops k w))
       = file w ++ List.concat (map (fun o => writer_log (calls_of o)) (firstn k ops)) ++ refresh ++ ["H5Writer.save_entity"])
  /\ snd (with_block ops k w) = (if Nat.ltb k (List.length ops) then Some EInjected else None).
Proof. exact completed_ops_persist_proof. Qed.
Print Assumptions C11_completed_ops_persist_partial.

Theorem C11_append_only : forall ops k w, exists t, file (fst (with_block ops k w)) = file w ++ t.
Proof. exact append_only_proof. Qed.
Print Assumptions C11_append_only.

(* On record (outside the property's quantifier, which places exceptions between operations): Workspace.close has no
   try/finally, so when the final save raises, File.close is not reached -- the handle stays open and that error replaces
   the block's.  The driver reproduces this on the implementation by injecting an OSError into the final save. *)
Theorem C11_close_not_exception_safe : forall w m,
  handle_of w = Open m -> writable m = true -> close_fault w = true -> repack w = false ->
  handle_of (fst (with_block [] 0 w)) = Open m /\ snd (with_block [] 0 w) = Some EFail.
Proof. exact close_fault_leaks. Qed.
Print Assumptions C11_close_not_exception_safe.

(* non-vacuity: a writable block with three operations, exception after the second *)
Example C11_nonvacuous :
  let rd := {| c_fn := "H5Reader.fetch_values"; c_writer := false; c_req := R; c_fails := false; c_repack := false |} in
  let wr f b := {| c_fn := f; c_writer := true; c_req := RW; c_fails := false; c_repack := b |} in
  let ops := [Calls [wr "H5Writer.save_entity" false]; Calls [rd; wr "H5Writer.update_field" true; wr "H5Writer.clear_stats_cache" false];
              Calls [wr "H5Writer.remove_entity" false]] in
  let w := {| handle_of := Open RW; defmode := RW; file := []; locked := false; close_fault := false; repack := false; ncat := 1; in_mem := false |} in
  forallb is_calls ops = true /\ forallb op_total ops = true
  /\ with_block ops 2 w =
       ({| handle_of := Closed; defmode := RW;
           file := ["H5Writer.save_entity"; "H5Writer.update_field"; "H5Writer.clear_stats_cache";
                    "H5Writer.update_field"; "H5Writer.clear_stats_cache"; "H5Writer.save_entity"];
           locked := false; close_fault := false; repack := false; ncat := 1; in_mem := false |}, Some EInjected)
  /\ step (fst (with_block ops 2 w)) (Calls [rd]) = (fst (with_block ops 2 w), Some EClosed).
Proof.
  cbv zeta. split; [vm_compute; reflexivity|]. split; [vm_compute; reflexivity|]. split; vm_compute; reflexivity.
Qed.
