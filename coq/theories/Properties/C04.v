(* C04 - Concatenated drillhole storage keeps each hole's data intact and separate.
   Only statements, each closed by [exact] (short glue allowed) and followed by Print Assumptions.
   Index layer: Model/Concat.v (Concatenator._index/_data);  attribute layer: Model/ConcatAttrs.v. *)
From GV Require Import Prelude.Base Model.Concat Proofs.ConcatProofs.

(* ---- the concatenated arrays are exactly tiled, after ANY sequence of update_array_attribute calls
        (values / remove=True / attribute None, any labels, any holes, any lengths including 0),
        and no call ever fails (np.delete in bounds, no <u4 wrap-around)                                   *)
Theorem C04_tiled_invariant : forall ops : list lop, exists s, lrun ops [] = Ok s /\ AllTiled s.
Proof. exact tiled_invariant. Qed.
Print Assumptions C04_tiled_invariant.

(* the same from any tiled state (e.g. the state read back from a file) *)
Theorem C04_tiled_preserved : forall ops s, AllTiled s -> exists s', lrun ops s = Ok s' /\ AllTiled s'.
Proof. exact lrun_tiled. Qed.
Print Assumptions C04_tiled_preserved.

(* the arithmetic of delete_index_data is exact on a tiled table: the deleted slice lies inside the array and every
   row that `Start index > start` selects starts at or after the end of the deleted slice, so the unsigned
   subtraction `-= size` cannot underflow (truncated subtraction on nat is never what makes the theorems true);
   the result is again tiled *)
Theorem C04_delete_safe : forall lab t i r,
  Tiled lab t -> nth_error (rows t) i = Some r ->
  start r + size r <= length (data t)
  /\ (forall r', In r' (rows t) -> start r < start r' -> start r + size r <= start r')
  /\ exists t', delete_index_data t i = Ok t' /\ Tiled lab t'.
Proof.
  intros lab t i r HT Hi. destruct (delete_arith lab t i r HT Hi) as [H1 H2].
  repeat split; [exact H1 | exact H2 | exact (delete_tiled lab t i r HT Hi)].
Qed.
Print Assumptions C04_delete_safe.

(* rows appear in Start-index order and never overlap *)
Theorem C04_rows_ordered : forall lab t i j ri rj,
  Tiled lab t -> i < j -> nth_error (rows t) i = Some ri -> nth_error (rows t) j = Some rj ->
  start ri + size ri <= start rj.
Proof. intros lab t i j ri rj (Ht & _ & _). exact (tiled_ordered (rows t) 0 i j ri rj Ht). Qed.
Print Assumptions C04_rows_ordered.

(* read-your-write: after writing vs for (label, hole o, data d) that key reads back exactly vs *)
Theorem C04_read_your_write : forall s lab o d vs,
  AllTiled s -> exists s', lstep s (Put lab o d vs) = Ok s' /\ sfetch s' lab o d = Some vs.
Proof. exact read_your_write. Qed.
Print Assumptions C04_read_your_write.

(* isolation: writing or removing one key leaves every other key's values unchanged
   (another label, or the same label and another Data ID / Object ID) *)
Theorem C04_isolation : forall s lab o d vs lab' o' d',
  AllTiled s -> (lab' <> lab \/ kval lab o' d' <> kval lab o d) ->
  (exists s', lstep s (Put lab o d vs) = Ok s' /\ sfetch s' lab' o' d' = sfetch s lab' o' d')
  /\ (exists s', lstep s (Del lab o d) = Ok s' /\ sfetch s' lab' o' d' = sfetch s lab' o' d').
Proof.
  intros s lab o d vs lab' o' d' HA Hne. split.
  - exact (isolation_put s lab o d vs lab' o' d' HA Hne).
  - exact (isolation_del s lab o d lab' o' d' HA Hne).
Qed.
Print Assumptions C04_isolation.

(* removal removes: the key no longer reads *)
Theorem C04_remove_removes : forall s lab o d,
  AllTiled s -> exists s', lstep s (Del lab o d) = Ok s' /\ sfetch s' lab o d = None.
Proof. exact del_removes. Qed.
Print Assumptions C04_remove_removes.

(* group-wide table view: the rows in Start-index order list exactly the per-key values (what fetch_values returns
   for that row's key), and their concatenation is the whole array *)
Theorem C04_table_view : forall lab t,
  Tiled lab t ->
  concat (map (fun p : nat * list val => snd p) (table_view t)) = data t
  /\ forall r, In r (rows t) ->
       fetch_values t (key_of lab (oid r) (did r)) = Some (slice (data t) (start r) (size r)).
Proof.
  intros lab t HT. split; [exact (table_view_concat lab t HT) | intros r Hin; exact (table_view_rows lab t r HT Hin)].
Qed.
Print Assumptions C04_table_view.

(* non-vacuity: a three-hole table with a zero-length entry, after deleting the middle row and re-adding a longer one *)
Example C04_index_nonvacuous :
  let ops := [Put 100 1 11 [Some 1; Some 2]%Z; Put 100 2 12 []; Put 100 3 13 [Some 5]%Z;
              Put 100 2 12 [Some 7; Some 8; Some 9]%Z; Del 100 1 11; Put 2 1 0 [Some 41]%Z] in
  exists s, lrun ops [] = Ok s /\ AllTiled s
    /\ sget 100 s = Some (mktab [mkrow 0 1 3 13; mkrow 1 3 2 12] [Some 5; Some 7; Some 8; Some 9]%Z)
    /\ sfetch s 100 2 12 = Some [Some 7; Some 8; Some 9]%Z.
Proof.
  intros ops. destruct (tiled_invariant ops) as (s & Hs & HA).
  exists s. split; [exact Hs|]. split; [exact HA|].
  vm_compute in Hs. inversion Hs; subst. split; reflexivity.
Qed.
