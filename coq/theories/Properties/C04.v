(* C04 - Concatenated drillhole storage keeps each hole's data intact and separate.
   Only statements, each closed by [exact] (short glue allowed) and followed by Print Assumptions.
   Index layer: Model/Concat.v (Concatenator._index/_data);  attribute layer: Model/ConcatAttrs.v. *)
From GV Require Import Prelude.Base Model.Concat Proofs.ConcatProofs.

(* ---- the concatenated arrays are exactly tiled, after ANY sequence of update_array_attribute calls
        (values / remove=True / attribute None, any labels, any holes, any lengths including 0),
        and no call ever fails (np.delete in bounds, no <u4 wrap-around)                                   *)
Theorem C04_tiled_invariant : forall ops : list lop, exists s, lrun ops [] = Ok s /\ AllTiled s.
Proof. exact tiled_invariant. Qed.
Print Assumptions C04_tiled_invariant.

(* the same from any tiled state (e.g. the state read back from a file) *)
Theorem C04_tiled_preserved : forall ops s, AllTiled s -> exists s', lrun ops s = Ok s' /\ AllTiled s'.
Proof. exact lrun_tiled. Qed.
Print Assumptions C04_tiled_preserved.

(* the arithmetic of delete_index_data is exact on a tiled table: the deleted slice lies inside the array and every
   row that `Start index > start` selects starts at or after the end of the deleted slice, so the unsigned
   subtraction `-= size` cannot underflow (truncated subtraction on nat is never what makes the theorems true);
   the result is again tiled *)
Theorem C04_delete_safe : forall lab t i r,
  Tiled lab t -> nth_error (rows t) i = Some r ->
  start r + size r <= length (data t)
  /\ (forall r', In r' (rows t) -> start r < start r' -> start r + size r <= start r')
  /\ exists t', delete_index_data t i = Ok t' /\ Tiled lab t'.
Proof.
  intros lab t i r HT Hi. destruct (delete_arith lab t i r HT Hi) as [H1 H2].
  repeat split; [exact H1 | exact H2 | exact (delete_tiled lab t i r HT Hi)].
Qed.
Print Assumptions C04_delete_safe.

(* rows appear in Start-index order and never overlap *)
Theorem C04_rows_ordered : forall lab t i j ri rj,
  Tiled lab t -> i < j -> nth_error (rows t) i = Some ri -> nth_error (rows t) j = Some rj ->
  start ri + size ri <= start rj.
Proof. intros lab t i j ri rj (Ht & _ & _). exact (tiled_ordered (rows t) 0 i j ri rj Ht). Qed.
Print Assumptions C04_rows_ordered.

(* read-your-write: after writing vs for (label, hole o, data d) that key reads back exactly vs *)
Theorem C04_read_your_write : forall s lab o d vs,
  AllTiled s -> exists s', lstep s (Put lab o d vs) = Ok s' /\ sfetch s' lab o d = Some vs.
Proof. exact read_your_write. Qed.
Print Assumptions C04_read_your_write.

(* isolation: writing or removing one key leaves every other key's values unchanged
   (another label, or the same label and another Data ID / Object ID) *)
Theorem C04_isolation : forall s lab o d vs lab' o' d',
  AllTiled s -> (lab' <> lab \/ kval lab o' d' <> kval lab o d) ->
  (exists s', lstep s (Put lab o d vs) = Ok s' /\ sfetch s' lab' o' d' = sfetch s lab' o' d')
  /\ (exists s', lstep s (Del lab o d) = Ok s' /\ sfetch s' lab' o' d' = sfetch s lab' o' d').
Proof.
  intros s lab o d vs lab' o' d' HA Hne. split.
  - exact (isolation_put s lab o d vs lab' o' d' HA Hne).
  - exact (isolation_del s lab o d lab' o' d' HA Hne).
Qed.
Print Assumptions C04_isolation.

(* removal removes: the key no longer reads *)
Theorem C04_remove_removes : forall s lab o d,
  AllTiled s -> exists s', lstep s (Del lab o d) = Ok s' /\ sfetch s' lab o d = None.
Proof. exact del_removes. Qed.
Print Assumptions C04_remove_removes.

(* group-wide table view: the rows in Start-index order list exactly the per-key values (what fetch_values returns
   for that row's key), and their concatenation is the whole array *)
Theorem C04_table_view : forall lab t,
  Tiled lab t ->
  concat (map (fun p : nat * list val => snd p) (table_view t)) = data t
  /\ forall r, In r (rows t) ->
       fetch_values t (key_of lab (oid r) (did r)) = Some (slice (data t) (start r) (size r)).
Proof.
  intros lab t HT. split; [exact (table_view_concat lab t HT) | intros r Hin; exact (table_view_rows lab t r HT Hin)].
Qed.
Print Assumptions C04_table_view.

(* non-vacuity: a three-hole table with a zero-length entry, after deleting the middle row and re-adding a longer one *)
Example C04_index_nonvacuous :
  let ops := [Put 100 1 11 [Some 1; Some 2]%Z; Put 100 2 12 []; Put 100 3 13 [Some 5]%Z;
              Put 100 2 12 [Some 7; Some 8; Some 9]%Z; Del 100 1 11; Put 2 1 0 [Some 41]%Z] in
  exists s, lrun ops [] = Ok s /\ AllTiled s
    /\ sget 100 s = Some (mktab [mkrow 0 1 3 13; mkrow 1 3 2 12] [Some 5; Some 7; Some 8; Some 9]%Z)
    /\ sfetch s 100 2 12 = Some [Some 7; Some 8; Some 9]%Z.
Proof.
  intros ops. destruct (tiled_invariant ops) as (s & Hs & HA).
  exists s. split; [exact Hs|]. split; [exact HA|].
  vm_compute in Hs. inversion Hs; subst. split; reflexivity.
Qed.

(* ======================================================================================================
   Attribute / API layer (Model/ConcatAttrs.v): add hole, add data, set values / surveys, rename, remove data /
   group / hole (through the workspace or the parent), explicit group, re-open.                              *)
From GV Require Import Model.ConcatAttrs Proofs.ConcatAttrsProofs Proofs.ConcatWF.

(* after ANY sequence of API operations every state that is reached has exactly tiled tables
   (each operation acts on the tables only through update_array_attribute, so C04_tiled_preserved applies) *)
Theorem C04_api_tiled : forall ops : list aop, Forall out_tiled (arun init ops).
Proof. exact api_tiled. Qed.
Print Assumptions C04_api_tiled.

(* removing a hole removes the rows of its own arrays (Surveys, Trace, Property Group IDs): no row of those labels
   carries its Object ID afterwards  [the repaired behaviour: /repo commit 8a1b56f] *)
Theorem C04_hole_removal_clears_own_rows : forall s h v s',
  AllTiled (st s) -> outcome (api_step s (RemoveHole h v)) = Some s' ->
  forall lab, lab < 3 -> forall t r, sget lab (st s') = Some t -> In r (rows t) -> oid r <> h.
Proof. exact remove_hole_clears. Qed.
Print Assumptions C04_hole_removal_clears_own_rows.

(* "no stale entry": every index row belongs to a live hole (its Object ID is in `Concatenated object IDs`) *)
Definition C04_no_stale_entry_full : Prop := forall ops s, reaches ops s -> rows_live s.

Definition stale_witness : list aop :=
  [AddHole 1 None; AddData 1 0 100 2 3 4 (Some [Some 1000%Z]) [Some 5%Z]; Rename 1 4 104; Reopen; RemoveHole 1 false].

(* REFUTED: a renamed data set keeps its row under the old label; removing the hole (after a re-open) looks for the new
   label only, so the row stays behind with the Object ID of a hole that no longer exists *)
Theorem C04_no_stale_entry_refuted : ~ C04_no_stale_entry_full.
Proof.
  intros H.
  assert (R : reaches stale_witness
                (mkst [(2, mktab [] []); (10, mktab [] []); (100, mktab [mkrow 0 1 1 4] [Some 5%Z])] [] [])).
  { split; vm_compute; reflexivity. }
  specialize (H _ _ R 100 (mktab [mkrow 0 1 1 4] [Some 5%Z]) (mkrow 0 1 1 4) eq_refl (or_introl eq_refl)).
  simpl in H. exact H.
Qed.
Print Assumptions C04_no_stale_entry_refuted.

(* PARTIAL, SUFFICIENT side condition: in histories WITHOUT RENAME every index row belongs to a live hole (hole removal included,
   now that it clears the hole's rows).  The witness above shows that a rename can break it; "no rename" is not necessary (many
   histories with a rename still satisfy the conclusion), only sufficient. *)
Theorem C04_rows_live_partial : forall ops s,
  forallb (fun op => negb (is_rename op)) ops = true -> reaches ops s -> rows_live s.
Proof. intros ops s Hq R. exact (wf_rows_live s (reaches_WF ops s Hq R)). Qed.
Print Assumptions C04_rows_live_partial.

(* at most one attribute record per identifier, in every state reached by any history (attributes_keys has no duplicate) *)
Theorem C04_records_unique : forall ops s, reaches ops s -> NoDup (map a_id (recs s)).
Proof. intros ops s [_ Hlast]. exact (run_uniq ops init s (NoDup_nil nat) Hlast). Qed.
Print Assumptions C04_records_unique.

(* every "Property:<name>" key of a hole record names a data record of that name *)
Definition keys_named (s : astate) : Prop :=
  forall rh lab d, In rh (recs s) -> a_kind rh = KHole -> In (lab, d) (a_props rh) ->
  exists rd, find_rec d (recs s) = Some rd /\ a_name rd = lab.
Definition C04_keys_match_names_full : Prop := forall ops s, reaches ops s -> keys_named s.

(* REFUTED: Rename rewrites the data record's Name only; the hole keeps "Property:<old name>" *)
Theorem C04_keys_match_names_refuted : ~ C04_keys_match_names_full.
Proof.
  intros H.
  pose (ops := [AddHole 1 None; AddData 1 0 100 2 3 4 (Some [Some 1000%Z]) [Some 5%Z]; Rename 1 4 104]).
  destruct (last_state init (arun init ops)) as [s|] eqn:E; [|vm_compute in E; discriminate].
  assert (R : reaches ops s) by (split; [vm_compute; reflexivity | exact E]).
  specialize (H _ _ R). vm_compute in E. inversion E; subst; clear E.
  destruct (H (mkrec 1 KHole 1 [(10, 3); (100, 4)] []) 100 4) as (rd & Hf & Hn).
  - left. reflexivity.
  - reflexivity.
  - right. left. reflexivity.
  - vm_compute in Hf. inversion Hf; subst. discriminate Hn.
Qed.
Print Assumptions C04_keys_match_names_refuted.

(* REFUTED: "removing a live data set never fails": after a rename the removal raises KeyError('Property:<new name>') *)
Definition C04_remove_never_fails_full : Prop :=
  forall ops, ~ In (AHard KeyError) (arun init ops).
Theorem C04_remove_never_fails_refuted : ~ C04_remove_never_fails_full.
Proof.
  intros H.
  apply (H [AddHole 1 None; AddData 1 0 100 2 3 4 (Some [Some 1000%Z]) [Some 5%Z]; Rename 1 4 104; RemoveData 1 4 false]).
  vm_compute. right. right. right. left. reflexivity.
Qed.
Print Assumptions C04_remove_never_fails_refuted.

(* non-vacuity of the partial theorem and of C04_hole_removal_clears_own_rows: a run with two holes, shared data names,
   a zero-length array, an update, a removal that shifts a row, and a hole removal *)
Example C04_api_nonvacuous :
  let ops := [AddHole 1 (Some [Some 0; Some 1]%Z); AddHole 2 (Some [Some 0]%Z);
              AddData 1 0 100 3 4 5 (Some [Some 1000; Some 1001]%Z) [Some 7]%Z;
              AddData 2 0 100 6 7 8 (Some []) [];
              SetValues 1 5 [Some 9; Some 8]%Z; RemoveData 1 5 true] in
  exists s, reaches ops s /\ rows_live s /\ objids s = [1; 2]
    /\ sget 100 (st s) = Some (mktab [mkrow 0 0 2 8] [])
  /\ exists s', outcome (api_step s (RemoveHole 2 true)) = Some s' /\ objids s' = [1] /\ sget 100 (st s') = Some (mktab [] []).
Proof.
  intros ops.
  destruct (last_state init (arun init ops)) as [s|] eqn:E; [|vm_compute in E; discriminate].
  assert (R : reaches ops s) by (split; [vm_compute; reflexivity | exact E]).
  exists s. split; [exact R|]. split; [apply (C04_rows_live_partial ops s); [reflexivity | exact R]|].
  vm_compute in E. inversion E; subst; clear E R. split; [reflexivity|]. split; [reflexivity|].
  eexists. split; [vm_compute; reflexivity|]. split; reflexivity.
Qed.


(* ======================================================================================================
   API-level read-your-write, isolation, table view and "exactly one record" (Proofs/ConcatWF.v).
   api_read s h d  = Workspace.fetch_values(data d of hole h)  (looked up under the data set's current name)
   api_surveys s h = the hole's survey depths
   keyedR (recs s) h lab d = hole h's record holds "Property:<lab>" -> d  (d is a data set of hole h)           *)

(* read-your-write, update: in EVERY reachable state (renames included) a successful `data.values = vals` reads back the values
   written, padded with no-data to the depth length *)
Theorem C04_api_read_your_write_set : forall ops s h d vals s',
  reaches ops s -> api_step s (SetValues h d vals) = AOk s' ->
  exists k, api_read s' h d = Some (pad vals k) /\ pad vals k = vals ++ repeat None (k - length vals).
Proof.
  intros ops s h d vals s' R H. destruct (ryw_set_values s h d vals s' (reaches_tiled ops s R) H) as (k & Hk).
  exists k. split; [exact Hk | apply pad_spec].
Qed.
Print Assumptions C04_api_read_your_write_set.

(* read-your-write, add: PARTIAL (no rename in the history): a successful add_data reads back the values written (padded) *)
Theorem C04_api_read_your_write_add_partial : forall ops s h pgname name pgid depid did depth vals s',
  forallb (fun op => negb (is_rename op)) ops = true -> reaches ops s ->
  api_step s (AddData h pgname name pgid depid did depth vals) = AOk s' ->
  exists k, api_read s' h did = Some (pad vals k) /\ pad vals k = vals ++ repeat None (k - length vals).
Proof.
  intros ops s h pgname name pgid depid did depth vals s' Hq R H.
  destruct (ryw_add_data s h pgname name pgid depid did depth vals s' (reaches_WF ops s Hq R) H) as (k & Hk).
  exists k. split; [exact Hk | apply pad_spec].
Qed.
Print Assumptions C04_api_read_your_write_add_partial.

(* isolation between holes: PARTIAL (no rename in the history, the operation is not a rename): ANY operation on hole h - add hole,
   add / update / remove data, groups, surveys, removing the hole itself with all its cascades - leaves what every data set of every
   other hole reads, and the other holes' surveys, unchanged *)
Theorem C04_api_isolation_partial : forall ops s op h s' h' lab d,
  forallb (fun op => negb (is_rename op)) ops = true -> reaches ops s ->
  is_rename op = false -> op_hole op = Some h -> outcome (api_step s op) = Some s' ->
  h' <> h -> keyedR (recs s) h' lab d ->
  api_read s' h' d = api_read s h' d /\ api_surveys s' h' = api_surveys s h'.
Proof.
  intros ops s op h s' h' lab d Hq R Hr Hh Ho Hne Hk. pose proof (reaches_WF ops s Hq R) as W.
  exact (touch_isolation s h s' h' lab d W (step_touch s op h s' W Hr Hh Ho) Hne Hk).
Qed.
Print Assumptions C04_api_isolation_partial.

(* isolation inside a hole: updating one data set leaves the hole's other data sets unchanged *)
Theorem C04_api_isolation_same_hole_partial : forall ops s h d vals s' lab' d',
  forallb (fun op => negb (is_rename op)) ops = true -> reaches ops s ->
  api_step s (SetValues h d vals) = AOk s' -> d' <> d -> keyedR (recs s) h lab' d' ->
  api_read s' h d' = api_read s h d'.
Proof.
  intros ops s h d vals s' lab' d' Hq R H Hne Hk. exact (set_values_same_hole s h d vals s' lab' d' (reaches_WF ops s Hq R) H Hne Hk).
Qed.
Print Assumptions C04_api_isolation_same_hole_partial.

(* group-wide table view: PARTIAL (no rename): the table of a data name lists, in Start-index order, rows of LIVE holes only,
   each with exactly the values the API reads for that hole's data set, and their concatenation is the whole array *)
Theorem C04_api_table_view_partial : forall ops s lab t,
  forallb (fun op => negb (is_rename op)) ops = true -> reaches ops s ->
  10 <= lab -> sget lab (st s) = Some t ->
  concat (map (fun p : nat * list val => snd p) (table_view t)) = data t
  /\ forall r, In r (rows t) ->
       In (oid r) (objids s) /\ api_read s (oid r) (did r) = Some (slice (data t) (start r) (size r)).
Proof. intros ops s lab t Hq R Hl Hg. exact (wf_table_view s lab t (reaches_WF ops s Hq R) Hl Hg). Qed.
Print Assumptions C04_api_table_view_partial.

(* exactly one attribute record per live hole, data set and property group, and none for anything else: PARTIAL (no rename).
   live hole = listed in `Concatenated object IDs`; live data set = named by a Property key of a live hole; live group = listed in
   the Property Group IDs row of a live hole *)
Theorem C04_records_exact_partial : forall ops s,
  forallb (fun op => negb (is_rename op)) ops = true -> reaches ops s ->
  NoDup (map a_id (recs s))
  /\ forall id, In id (map a_id (recs s)) <->
       In id (objids s)
       \/ (exists h lab, In h (objids s) /\ keyedR (recs s) h lab id)
       \/ (exists h, In h (objids s) /\ In id (pgs_of s h)).
Proof. intros ops s Hq R. exact (wf_records_exact s (reaches_WF ops s Hq R)). Qed.
Print Assumptions C04_records_exact_partial.

(* non-vacuity of the API-level theorems: three holes sharing data names, padding, an update, removals with cascade and a hole removal;
   every hypothesis is met and the conclusions are about non-trivial values *)
Definition nv_ops : list aop :=
  [AddHole 1 (Some [Some 0; Some 1]%Z); AddHole 2 (Some [Some 0]%Z); AddHole 3 None;
   AddData 1 0 100 4 5 6 (Some [Some 1000; Some 1001; Some 1002]%Z) [Some 7; None]%Z;
   AddData 2 0 100 7 8 9 (Some [Some 1000]%Z) [Some 3]%Z;
   AddData 1 0 101 10 11 12 None [Some 4]%Z;
   AddData 3 1 100 13 14 15 (Some [Some 2000; Some 2001]%Z) [Some 5; Some 6]%Z;
   RemoveData 2 9 true; Reopen; RemoveHole 3 false].

Example C04_api_level_nonvacuous :
  forallb (fun op => negb (is_rename op)) nv_ops = true
  /\ exists s, reaches nv_ops s /\ objids s = [1; 2]
     /\ keyedR (recs s) 1 100 6 /\ keyedR (recs s) 1 101 12
     /\ api_read s 1 6 = Some [Some 7; None; None]%Z /\ api_read s 1 12 = Some [Some 4; None; None]%Z
     /\ sget 100 (st s) = Some (mktab [mkrow 0 3 1 6] [Some 7; None; None]%Z)
     /\ map a_id (recs s) = [1; 2; 4; 5; 6; 12]
     /\ (exists s', api_step s (SetValues 1 6 [Some 9]%Z) = AOk s' /\ api_read s' 1 6 = Some [Some 9; None; None]%Z
                    /\ api_read s' 1 12 = api_read s 1 12)
     /\ (exists s', api_step s (AddData 2 0 100 20 21 22 (Some [Some 1000; Some 1001]%Z) [Some 8]%Z) = AOk s'
                    /\ api_read s' 2 22 = Some [Some 8; None]%Z /\ api_read s' 1 6 = api_read s 1 6
                    /\ sget 100 (st s') = Some (mktab [mkrow 0 3 1 6; mkrow 3 2 2 22] [Some 7; None; None; Some 8; None]%Z)).
Proof.
  split; [reflexivity|].
  destruct (last_state init (arun init nv_ops)) as [s|] eqn:E; [|vm_compute in E; discriminate].
  assert (R : reaches nv_ops s) by (split; [vm_compute; reflexivity | exact E]).
  exists s. split; [exact R|]. vm_compute in E. inversion E; subst; clear E R.
  split; [reflexivity|].
  split; [eexists; split; [reflexivity | split; [reflexivity | right; left; reflexivity]]|].
  split; [eexists; split; [reflexivity | split; [reflexivity | right; right; left; reflexivity]]|].
  split; [reflexivity|]. split; [reflexivity|]. split; [reflexivity|]. split; [reflexivity|].
  split; eexists; (split; [vm_compute; reflexivity|]); repeat split; reflexivity.
Qed.

(* ======================================================================================================
   Round 2: data without a depth table, text values, re-saving a hole, copies.                              *)
From GV Require Import Model.ConcatDtype Proofs.ConcatDtypeProofs.

(* read-your-write for object-associated data (hole.add_data({name: {values, association: OBJECT}})): PARTIAL (no rename) *)
Theorem C04_api_read_your_write_obj_partial : forall ops s h name did vals s',
  forallb (fun op => negb (is_rename op)) ops = true -> reaches ops s ->
  api_step s (AddObjData h name did vals) = AOk s' -> api_read s' h did = Some vals.
Proof.
  intros ops s h name did vals s' Hq R H. pose proof (reaches_WF ops s Hq R) as W.
  assert (Ho : outcome (api_step s (AddObjData h name did vals)) = Some s') by (rewrite H; reflexivity).
  exact (proj2 (proj2 (proj2 (touch_add_obj s h name did vals s' W Ho))) H).
Qed.
Print Assumptions C04_api_read_your_write_obj_partial.

(* read-your-write for text values (no padding): PARTIAL (no rename) *)
Theorem C04_api_read_your_write_text_partial : forall ops s h d vals s',
  forallb (fun op => negb (is_rename op)) ops = true -> reaches ops s ->
  api_step s (SetText h d vals) = AOk s' -> api_read s' h d = Some vals.
Proof.
  intros ops s h d vals s' Hq R H. pose proof (reaches_WF ops s Hq R) as W.
  assert (Ho : outcome (api_step s (SetText h d vals)) = Some s') by (rewrite H; reflexivity).
  exact (proj2 (proj2 (proj2 (touch_set_text s h d vals s' W Ho))) H).
Qed.
Print Assumptions C04_api_read_your_write_text_partial.

(* re-saving a stored hole keeps the object id list and the records *)
Theorem C04_resave_keeps_object_ids : forall ops s h s',
  forallb (fun op => negb (is_rename op)) ops = true -> reaches ops s ->
  outcome (api_step s (SaveHole h)) = Some s' -> objids s' = objids s /\ recs s' = recs s.
Proof.
  intros ops s h s' Hq R Ho. split.
  - exact (proj2 (proj2 (touch_save_hole s h s' (reaches_WF ops s Hq R) Ho))).
  - simpl in Ho. destruct (live_hole s h); simpl in Ho; [|discriminate]. apply soft_or_hard_out in Ho.
    match type of Ho with match lput s ?b with _ => _ end = _ => destruct (lput s b) as [s2|e] eqn:E; [|discriminate] end.
    rewrite (lput_recs _ _ _ Ho), (lput_recs _ _ _ E). reflexivity.
Qed.
Print Assumptions C04_resave_keeps_object_ids.

(* DEFINITIONAL: api_step (RemoveViaGroup h d) is AOk s by definition of the model; what ties this clause to the code is the
   correspondence (the driver calls group.remove_children(data) and every raw dataset / record must be unchanged) *)
Theorem C04_non_child_removal_ignored : forall s h d s', outcome (api_step s (RemoveViaGroup h d)) = Some s' -> s' = s.
Proof.
  intros s h d s' Ho. simpl in Ho. destruct (live_hole s h); simpl in Ho; [|discriminate].
  destruct (negb (owns s h d)); [discriminate|]. inversion Ho. reflexivity.
Qed.
Print Assumptions C04_non_child_removal_ignored.

(* appending to a concatenated array never changes a stored value: np.hstack promotes to the join of the two element types
   (int32 / float / <Uw text); every element of either array denotes the same value afterwards and fits the new type ... *)
Theorem C04_append_widens : forall x y,
  same_family (fst x) (fst y) = true -> forallb (fits (fst x)) (snd x) = true -> forallb (fits (fst y)) (snd y) = true ->
  ConcatDtype.decode (hstack x y) = ConcatDtype.decode x ++ ConcatDtype.decode y
  /\ forallb (fits (fst (hstack x y))) (snd (hstack x y)) = true.
Proof. exact hstack_decodes. Qed.
Print Assumptions C04_append_widens.

(* ... and so does what is written to the file (floating arrays as float32) ON THE DOMAIN of the model, stated as hypotheses:
   |integer| <= 2^24 and |float| <= 2^24 (integers and halves), no user value equal to the no-data value, one value family per label *)
Theorem C04_append_stored_partial : forall x y,
  same_family (fst x) (fst y) = true -> forallb (fits (fst x)) (snd x) = true -> forallb (fits (fst y)) (snd y) = true ->
  forallb in_domain (snd x) = true -> forallb in_domain (snd y) = true ->
  ConcatDtype.decode (stored (hstack x y)) = ConcatDtype.decode x ++ ConcatDtype.decode y.
Proof. exact stored_hstack_decodes. Qed.
Print Assumptions C04_append_stored_partial.

(* REFUTED outside that domain (real code, open finding int-values-altered-in-float-label): an int32 data set whose name is shared
   with float data of another hole is kept as float32 on file: 16777217 reads back as 16777216 after a re-open *)
Theorem C04_append_stored_refuted :
  ~ (forall x y, same_family (fst x) (fst y) = true -> forallb (fits (fst x)) (snd x) = true -> forallb (fits (fst y)) (snd y) = true ->
       ConcatDtype.decode (stored (hstack x y)) = ConcatDtype.decode x ++ ConcatDtype.decode y).
Proof.
  intros H. destruct stored_large_int_altered as (x & y & F & Hx & Hy & Hne). exact (Hne (H x y F Hx Hy)).
Qed.
Print Assumptions C04_append_stored_refuted.

(* ------------------------------------------------------------------------------------------------------
   Discriminates seeded variants (NOT statements about the checked code): a variant of update_array_attribute that casts the
   stacked array back to the element type of the array that was there first (seed C04-r2-2) loses values (2.5 -> 2,
   'sandstone' -> 'san'); the unchanged code has no such cast, and C04_append_widens is what holds of it.                  *)
Theorem C04_append_cast_back_loses :
  ~ (forall x y, same_family (fst x) (fst y) = true -> forallb (fits (fst x)) (snd x) = true -> forallb (fits (fst y)) (snd y) = true ->
       ConcatDtype.decode (hstack_keep_first x y) = ConcatDtype.decode x ++ ConcatDtype.decode y).
Proof.
  intros H. destruct keep_first_loses as (x & y & F & Hx & Hy & Hne). exact (Hne (H x y F Hx Hy)).
Qed.
Print Assumptions C04_append_cast_back_loses.
