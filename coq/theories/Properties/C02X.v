(* C02 — Every file the library writes is a structurally valid geoh5 file.
   Only statements, each closed by [exact] and followed by Print Assumptions.
   EXTENDED model (Model/WsX.v): property groups and copies.
   [Rep t f pend] (Model/WsXSpec.v): file f is exactly the encoding of tree t -- every entity stored once under its own
   identifier with its attributes (property-group blocks as a set), every property group listing only data children of its
   own object, none twice, under distinct group identifiers, every parent-to-child entry a hard link to the child's node, unique identifiers, Root
   link to the root node -- up to the flat nodes of the identifiers in [pend], unreachable orphans.  [Valid f] = Rep with
   no orphan. *)
From GV Require Import Prelude.Base Model.WsX Model.WsXSpec Proofs.WsXProofs.

Theorem C02_init : Rep (wmem init) (wfile init) (wpend init).
Proof. exact rep_init. Qed.
Print Assumptions C02_init.

(* after every operation of every history without identifier re-use over a stale node (whatever the outcomes, including
   removals that raised half-way): the file is valid up to orphans, which are the pending dead identifiers plus
   object/data identifiers (never groups) forgotten by a close + re-open *)
Theorem C02_valid_upto_orphans : forall ops, fresh_run ops init = true ->
  let w := run ops init in
  exists orph, (forall k, In k orph -> fst k <> KG) /\ Rep (wmem w) (wfile w) (wpend w ++ orph).
Proof. exact rep_run_orphans. Qed.
Print Assumptions C02_valid_upto_orphans.

(* "valid up to the pending orphans" exactly: one step, and histories *)
Theorem C02_step_partial : forall w o,
  Rep (wmem w) (wfile w) (wpend w) -> fresh_op w o = true -> clean_op w o = true ->
  Rep (wmem (fst (step w o))) (wfile (fst (step w o))) (wpend (fst (step w o))).
Proof. exact rep_step. Qed.
Print Assumptions C02_step_partial.

(* PARTIAL (side conditions: no stale identifier re-use; every close + re-open happens when only groups are pending) *)
Theorem C02_valid_upto_partial : forall ops, fresh_run ops init = true -> clean_run ops init = true ->
  let w := run ops init in Rep (wmem w) (wfile w) (wpend w).
Proof. exact rep_run. Qed.
Print Assumptions C02_valid_upto_partial.

Definition C02_step_full : Prop := rep_step_full.
Theorem C02_step_refuted : ~ C02_step_full.
Proof. exact rep_step_full_refuted. Qed.
Print Assumptions C02_step_refuted.

(* REFUTED without the second side condition: close sweeps groups only, the re-opened workspace forgets the pending
   object whose flat node stays (witness [ops_forgot]) *)
Definition C02_valid_upto_full : Prop := rep_run_full.
Theorem C02_valid_upto_refuted : ~ C02_valid_upto_full.
Proof. exact rep_run_full_refuted. Qed.
Print Assumptions C02_valid_upto_refuted.

(* the closed file is valid when only groups are pending ... *)
Theorem C02_close_valid_partial : forall ops, fresh_run ops init = true -> clean_run ops init = true ->
  let w := run ops init in
  (forall k, In k (wpend w) -> fst k = KG) ->
  Valid (wfile (close_file w)).
Proof. exact close_valid. Qed.
Print Assumptions C02_close_valid_partial.

(* ... or, without any condition on re-opens, when no object/data node lingers outside the tree *)
Theorem C02_close_valid_nolinger : forall ops, fresh_run ops init = true ->
  let w := run ops init in
  (forall k n, fget k (flat (wfile w)) = Some n -> fst k <> KG -> In k (keys_of (wmem w))) ->
  Valid (wfile (close_file w)).
Proof. exact close_valid_nolinger. Qed.
Print Assumptions C02_close_valid_nolinger.

Definition C02_close_valid_full : Prop := close_valid_full.
Theorem C02_close_valid_refuted : ~ C02_close_valid_full.
Proof. exact close_valid_full_refuted. Qed.
Print Assumptions C02_close_valid_refuted.

(* REFUTED: the full property (every closed file is valid) is false of the faithful model: an object removed through its
   parent and never listed leaves an orphan node that close does not sweep (witness [ops_orphan], replayed on the
   implementation: known finding) *)
Definition C02_valid_full : Prop := C02_full.
Theorem C02_valid_refuted : ~ C02_valid_full.
Proof. exact C02_full_refuted. Qed.
Print Assumptions C02_valid_refuted.

(* non-vacuity: the side conditions are met by a 21-operation history with property groups, a copy, moves, a data removal
   that empties a group, a removal through the parent + sweep, a removal through the workspace that raises half-way and a
   re-open, and its final state satisfies the invariant; the groups really are copied / scrubbed; the hypothesis of the
   close theorem is met with a pending dead group *)
Example C02_nonvacuous :
  fresh_run ops_demo init = true /\ clean_run ops_demo init = true /\
  (let w := run ops_demo init in Rep (wmem w) (wfile w) (wpend w)) /\
  apgs (tattrs (match find (KO, 3%N) (wmem (run (firstn 11 ops_demo) init)) with Some t => t | None => wmem init end))
  = [(100%N, 77%N, [(KD, 4%N)])] /\
  fresh_run ops_dead_group init = true /\ clean_run ops_dead_group init = true /\
  wpend (run ops_dead_group init) = [(KG, 1%N)].
Proof.
  split; [apply ops_demo_ok|]. split; [apply ops_demo_ok|]. split; [exact ops_demo_rep|].
  split; [apply ops_demo_groups | exact ops_dead_group_ok].
Qed.
