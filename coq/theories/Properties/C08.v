(* C08 — placeholder while the model is being tied to the code; statements follow. *)
From GV Require Import Prelude.Base Model.Codec Model.RefMap.
