(* C08 — Values survive storage unchanged; gaps use the format's no-data codes.
   Only statements, each closed by [exact] and followed by Print Assumptions.
   [Repaired] = the code with fixes/C08-*.patch applied (what the correspondence ties the model to);
   [Old] = the tree as shipped, kept for the refutations that document the defects.                                  *)
From GV Require Import Prelude.Base Model.Codec Model.RefMap Model.JsonMeta Proofs.CodecProofs Proofs.RefMapProofs Proofs.JsonMetaProofs.

Local Open Scope Z_scope.

(* ====================================================================== float data *)
(* every float array without the sentinel: the value held after the write, the dataset (float64, NaN replaced by
   FLOAT_NDV, nothing else touched) and the value after re-open (NaN again) — token for token; shorter arrays are
   completed with NaN *)
Theorem C08_float_roundtrip : forall w d a n l,
  ~ In FNdv l -> len_ok a n (length l) -> (1 <= n)%nat ->
  let l' := padded l n FNaN in
  run_num w CFloat a n (AFlt d l) = ODone (VF l') (RF64 (map enc_f l')) (VF l').
Proof. exact float_roundtrip. Qed.
Print Assumptions C08_float_roundtrip.

(* the element codec: v <> FNdv -> read (write v) = v; NaN is the only value written as the code; no NaN reaches the file *)
Theorem C08_float_codes : forall v,
  (v <> FNdv -> dec_f (enc_f v) = v) /\ (v <> FNdv -> (enc_f v = FNdv <-> v = FNaN)) /\ enc_f v <> FNaN.
Proof. intros v. split; [apply dec_enc_f | split; [apply enc_f_ndv_iff | apply enc_f_not_nan]]. Qed.
Print Assumptions C08_float_codes.

(* the documented exception, exactly: the sentinel itself is kept in memory and on file and reads back as NaN *)
Theorem C08_float_ndv_exception : forall w,
  run_num w CFloat AVertex 1 (AFlt F64 [FNdv]) = ODone (VF [FNdv]) (RF64 [FNdv]) (VF [FNaN]).
Proof. intros []; reflexivity. Qed.
Print Assumptions C08_float_ndv_exception.

Example C08_float_nonvacuous :
  run_num Repaired CFloat AVertex 4 (AFlt F32 [FNaN; FFrac 4591870180066957722; FInf true])
  = ODone (VF [FNaN; FFrac 4591870180066957722; FInf true; FNaN])
          (RF64 [FNdv; FFrac 4591870180066957722; FInf true; FNdv])
          (VF [FNaN; FFrac 4591870180066957722; FInf true; FNaN]).
Proof. reflexivity. Qed.

(* ====================================================================== integer / referenced data *)
Theorem C08_int_roundtrip_in_range : forall c d a n l,
  is_intcls c -> Forall in_int32 l -> len_ok a n (length l) -> (1 <= n)%nat ->
  let l' := padded l n INTEGER_NDV in
  run_num Repaired c a n (AInt d l) = ODone (VI l') (RI32 l') (VI l').
Proof. exact int_roundtrip_in_range. Qed.
Print Assumptions C08_int_roundtrip_in_range.

(* full strength: whatever integer array is accepted reads back identical (gaps = INTEGER_NDV) ... *)
Theorem C08_int_accepted_identical : int_full Repaired.
Proof. exact int_full_repaired. Qed.
Print Assumptions C08_int_accepted_identical.

(* ... REFUTED for the code as shipped: int64 2^31 is accepted and stored as -2^31 (witness replayed: corpus/C08) *)
Theorem C08_int_old_refuted : ~ int_full Old.
Proof. exact int_old_refuted. Qed.
Print Assumptions C08_int_old_refuted.

Theorem C08_int_out_of_range_rejected : forall c d a n l,
  is_intcls c -> ~ Forall in_int32 l -> store Repaired c a n (AInt d l) = Err ValueErr.
Proof. exact int_out_of_range_rejected. Qed.
Print Assumptions C08_int_out_of_range_rejected.

(* a float array with a non-integral element (the float sentinel counts) is refused by both versions *)
Theorem C08_int_rejects_fractional : forall w c d a n l v,
  is_intcls c -> In v l -> has_frac v = true ->
  store w c a n (AFlt d l) = Err (if too_long a n (length l) then ValueErr else TypeErr).
Proof. exact int_rejects_fractional. Qed.
Print Assumptions C08_int_rejects_fractional.

Theorem C08_int_rejects_infinite : forall c d a n l s,
  is_intcls c -> In (FInf s) l -> exists e, store Repaired c a n (AFlt d l) = Err e.
Proof. exact int_rejects_infinite. Qed.
Print Assumptions C08_int_rejects_infinite.

(* integral floats within range (NaN = gap -> INTEGER_NDV, -0.0 -> 0) *)
Theorem C08_int_from_float_roundtrip : forall c d a n l,
  is_intcls c -> d <> F16 -> Forall fl_int_ok l -> len_ok a n (length l) -> (1 <= n)%nat ->
  let l' := padded (map fl2z l) n INTEGER_NDV in
  run_num Repaired c a n (AFlt d l) = ODone (VI l') (RI32 l') (VI l').
Proof. exact int_from_float_roundtrip. Qed.
Print Assumptions C08_int_from_float_roundtrip.

Example C08_int_nonvacuous :
  run_num Repaired CReferenced AVertex 3 (AInt U32 [2147483647; 0]) = ODone (VI [2147483647; 0; -2147483648]) (RI32 [2147483647; 0; -2147483648]) (VI [2147483647; 0; -2147483648])
  /\ run_num Repaired CInteger AVertex 2 (AFlt F64 [FNaN; FNegZero]) = ODone (VI [-2147483648; 0]) (RI32 [-2147483648; 0]) (VI [-2147483648; 0])
  /\ store Repaired CInteger AVertex 1 (AInt I64 [2147483648]) = Err ValueErr
  /\ store Old CInteger AVertex 1 (AInt I64 [2147483648]) = Ok (VI [-2147483648], RI32 [-2147483648]).
Proof. repeat split. Qed.

(* ====================================================================== boolean data *)
Theorem C08_bool_roundtrip : forall w a n l,
  len_ok a n (length l) -> (1 <= n)%nat ->
  let l' := padded l n false in
  run_num w CBoolean a n (ABool l) = ODone (VB l') (RI8 (map b2z l')) (VB l').
Proof. exact bool_roundtrip. Qed.
Print Assumptions C08_bool_roundtrip.

Theorem C08_bool_only_01 : forall w a n x v r,
  store w CBoolean a n x = Ok (v, r) ->
  exists bl, v = VB bl /\ r = RI8 (map b2z bl) /\ Forall (fun z => z = 0 \/ z = 1) (map b2z bl).
Proof. exact bool_only_01. Qed.
Print Assumptions C08_bool_only_01.

Theorem C08_bool_rejects_non01 :
  (forall w d a n l z, In z l -> z <> 0 -> z <> 1 -> store w CBoolean a n (AInt d l) = Err ValueErr)
  /\ (forall w d a n l v, In v l -> is_nan v = false -> is01_f v = false -> store w CBoolean a n (AFlt d l) = Err ValueErr).
Proof. split; [exact bool_rejects_non01_int | exact bool_rejects_non01_float]. Qed.
Print Assumptions C08_bool_rejects_non01.

Example C08_bool_nonvacuous :
  run_num Repaired CBoolean AVertex 3 (AFlt F64 [FInt 1; FNaN]) = ODone (VB [true; false; false]) (RI8 [1; 0; 0]) (VB [true; false; false])
  /\ store Repaired CBoolean AVertex 2 (AInt I64 [0; 2]) = Err ValueErr.
Proof. split; reflexivity. Qed.

(* ====================================================================== length, type, dtype *)
Theorem C08_too_long_rejected : forall w c n x,
  (n < alen x)%nat -> store w c AVertex n x = Err ValueErr.
Proof. exact too_long_rejected. Qed.
Print Assumptions C08_too_long_rejected.

(* N-d arrays: the entries are counted on the flattened array, whatever the shape ((n,2), (2,n), ... hold 2n entries);
   a 0-d array is refused *)
Theorem C08_too_long_rejected_any_shape : forall w c n dims x,
  dims <> [] -> (n < alen x)%nat -> store_nd w c AVertex n dims x = Err ValueErr.
Proof. exact too_long_rejected_any_shape. Qed.
Print Assumptions C08_too_long_rejected_any_shape.

Theorem C08_shape_irrelevant : forall w c a n dims dims' x,
  dims <> [] -> dims' <> [] -> run_num_nd w c a n dims x = run_num_nd w c a n dims' x.
Proof. exact shape_irrelevant. Qed.
Print Assumptions C08_shape_irrelevant.

Theorem C08_zero_dim_rejected : forall w c a n x, exists e, store_nd w c a n [] x = Err e.
Proof. exact zero_dim_rejected. Qed.
Print Assumptions C08_zero_dim_rejected.

Example C08_nd_nonvacuous :
  store_nd Repaired CFloat AVertex 3 [3; 2]%nat (AFlt F64 [FInt 0; FInt 1; FInt 2; FInt 3; FInt 4; FInt 5]) = Err ValueErr
  /\ run_num_nd Repaired CFloat AVertex 3 [1; 3]%nat (AFlt F64 [FInt 0; FInt 1; FInt 2])
     = ODone (VF [FInt 0; FInt 1; FInt 2]) (RF64 [FInt 0; FInt 1; FInt 2]) (VF [FInt 0; FInt 1; FInt 2]).
Proof. split; reflexivity. Qed.

Theorem C08_unsupported_type_rejected :
  (forall w c a n, store w c a n AObj = Err TypeErr)
  /\ (forall c a n l, c <> CBoolean -> exists e, store Repaired c a n (ACplx l) = Err e)
  /\ (forall w a n l, length l = n -> store w CFloat a n (ABool l) = Err TypeErr)
  /\ (forall l, infer (ACplx l) = Err NotImplementedErr) /\ infer AObj = Err NotImplementedErr.
Proof. exact unsupported_type_rejected. Qed.
Print Assumptions C08_unsupported_type_rejected.

(* REFUTED for the code as shipped: FloatData takes a complex array and drops the imaginary part *)
Theorem C08_complex_old_refuted : ~ complex_rejected Old.
Proof. exact complex_rejected_old_refuted. Qed.
Print Assumptions C08_complex_old_refuted.

Theorem C08_complex_rejected : complex_rejected Repaired.
Proof. exact complex_rejected_repaired. Qed.
Print Assumptions C08_complex_rejected.

(* per class: the constructor held in memory, the dtype of the dataset, the codes in it *)
Theorem C08_store_kind : forall w c a n x v r,
  store w c a n x = Ok (v, r) ->
  match c with
  | CFloat => exists l, v = VF l /\ r = RF64 (map enc_f l) /\ ~ In FNaN (map enc_f l)
  | CInteger | CReferenced => exists l, v = VI l /\ r = RI32 (map wrap32 l) /\ Forall in_int32 (map wrap32 l)
  | CBoolean => exists l, v = VB l /\ r = RI8 (map b2z l)
  end.
Proof. exact store_kind. Qed.
Print Assumptions C08_store_kind.

(* ====================================================================== text *)
(* under the codec law dec (enc s) = s *)
Theorem C08_text_roundtrip : forall (enc : str -> option bytes) (dec : bytes -> option str),
  (forall s b, enc s = Some b -> dec b = Some s) ->
  forall w a n s b, enc s = Some b -> has_nul b = false ->
  run_text enc dec w a n (TStr s) = TODone (TVStr s) (RTVlen [b]) (TVStr s).
Proof. exact text_roundtrip_str. Qed.
Print Assumptions C08_text_roundtrip.

Theorem C08_text_roundtrip_arr : forall (enc : str -> option bytes) (dec : bytes -> option str),
  (forall s b, enc s = Some b -> dec b = Some s) ->
  forall w a n l bs,
  l <> [] -> map enc l = map Some bs -> existsb has_nul bs = false -> len_ok a n (length l) ->
  exists v', run_text enc dec w a n (TArrU l) = TODone (TVArrU l) (RTVlen bs) v' /\ items v' = l.
Proof. exact text_roundtrip_arr. Qed.
Print Assumptions C08_text_roundtrip_arr.

(* the empty array (no hypothesis on the codec): stored as an empty vlen dataset, read back as an empty text array *)
Theorem C08_text_empty_array_roundtrip : forall (enc : str -> option bytes) (dec : bytes -> option str) w a n,
  run_text enc dec w a n (TArrU []) = TODone (TVArrU []) (RTVlen []) (TVArrU []).
Proof. exact text_empty_array_roundtrip. Qed.
Print Assumptions C08_text_empty_array_roundtrip.

Theorem C08_text_roundtrip_bytes : forall (enc : str -> option bytes) (dec : bytes -> option str),
  (forall s b, enc s = Some b -> dec b = Some s) ->
  forall w a n b s b', dec b = Some s -> enc s = Some b' -> has_nul b' = false ->
  run_text enc dec w a n (TBytes b) = TODone (TVStr s) (RTVlen [b']) (TVStr s).
Proof. exact text_roundtrip_bytes. Qed.
Print Assumptions C08_text_roundtrip_bytes.

Theorem C08_text_rejections : forall (enc : str -> option bytes) (dec : bytes -> option str),
  (forall w a n, run_text enc dec w a n TOther = TOStoreErr ValueErr)
  /\ (forall w a n s, enc s = None -> run_text enc dec w a n (TStr s) = TOStoreErr UnicodeEncodeErr)
  /\ (forall w a n s b, enc s = Some b -> has_nul b = true -> run_text enc dec w a n (TStr s) = TOStoreErr ValueErr)
  /\ (forall w a n b, dec b = None -> run_text enc dec w a n (TBytes b) = TOStoreErr UnicodeDecodeErr)
  /\ (forall n l, (n < length l)%nat -> run_text enc dec Repaired AVertex n (TArrU l) = TOStoreErr ValueErr)
  /\ (forall a n l, all_some (map dec l) = None -> run_text enc dec Repaired a n (TArrS l) = TOStoreErr UnicodeDecodeErr).
Proof. exact text_rejections. Qed.
Print Assumptions C08_text_rejections.

(* the codec law holds of the model's RFC 3629 codec (whose bytes the correspondence compares with CPython's) ... *)
Theorem C08_utf8_roundtrip : forall s b, utf8_enc s = Some b -> utf8_dec b = Some s.
Proof. exact utf8_dec_enc. Qed.
Print Assumptions C08_utf8_roundtrip.

(* ... so for every string of Unicode scalar values without NUL, with no hypothesis left: *)
Theorem C08_text_roundtrip_utf8 : forall w a n s,
  valid_text s ->
  exists b, utf8_enc s = Some b /\ run_text utf8_enc utf8_dec w a n (TStr s) = TODone (TVStr s) (RTVlen [b]) (TVStr s).
Proof. exact text_roundtrip_utf8. Qed.
Print Assumptions C08_text_roundtrip_utf8.

Theorem C08_text_roundtrip_arr_utf8 : forall w a n l,
  l <> [] -> Forall valid_text l -> len_ok a n (length l) ->
  exists bs v', map utf8_enc l = map Some bs
    /\ run_text utf8_enc utf8_dec w a n (TArrU l) = TODone (TVArrU l) (RTVlen bs) v' /\ items v' = l.
Proof. exact text_roundtrip_arr_utf8. Qed.
Print Assumptions C08_text_roundtrip_arr_utf8.

Example C08_text_nonvacuous :
  valid_text [233; 128512; 65535]%N
  /\ run_text utf8_enc utf8_dec Repaired AObject 1 (TStr [233; 128512; 65535]%N)
     = TODone (TVStr [233; 128512; 65535]%N) (RTVlen [[195; 169; 240; 159; 152; 128; 239; 191; 191]%N]) (TVStr [233; 128512; 65535]%N)
  /\ run_text utf8_enc utf8_dec Repaired AObject 1 (TStr [55296]%N) = TOStoreErr UnicodeEncodeErr.
Proof.
  split; [|split; reflexivity]. split; [repeat constructor|]. simpl. intros [H|[H|[H|[]]]]; discriminate H.
Qed.

(* REFUTED for the code as shipped: more strings than vertices are accepted; invalid UTF-8 bytes are stored and the
   entity can no longer be read.  Both hold of the repaired code. *)
Theorem C08_text_too_long_old_refuted : ~ text_too_long_rejected Old.
Proof. exact text_too_long_old_refuted. Qed.
Print Assumptions C08_text_too_long_old_refuted.

Theorem C08_text_too_long_rejected : text_too_long_rejected Repaired.
Proof. exact text_too_long_rejected_repaired. Qed.
Print Assumptions C08_text_too_long_rejected.

Theorem C08_text_bytes_old_refuted : ~ text_bytes_readable Old.
Proof. exact text_bytes_readable_old_refuted. Qed.
Print Assumptions C08_text_bytes_old_refuted.

Theorem C08_text_bytes_readable : text_bytes_readable Repaired.
Proof. exact text_bytes_readable_repaired. Qed.
Print Assumptions C08_text_bytes_readable.

(* ====================================================================== file blobs *)
(* The FilenameData node is modelled as what it is on file: a group with the Type link, a dataset "Data" holding the file
   name and a dataset called like the file holding the blob; the writer's create / delete-if-present / create sequence and
   the reader's two look-ups are transcribed (Model/JsonMeta.v, node_write / node_read).  For every name other than the two
   member names the node already uses, and whatever the node held before, the name and the blob come back: *)
Theorem C08_blob_roundtrip : forall n name b,
  nget k_Type n = Some MType -> name_ok name = true -> name <> k_Data -> name <> k_Type ->
  node_read (node_write n name b) = Ok (Some (name, b)).
Proof. intros n name b Ht _ Hd Hy. exact (node_roundtrip n name b Ht Hd Hy). Qed.
Print Assumptions C08_blob_roundtrip.
(* name_ok: non-empty, no NUL, not ".", no '/'.  add_file refuses "" (TypeError), NUL (ValueError), "." (KeyError): name_refusal,
   compared with the code on generated names.  A name with '/' is an HDF5 path: "a/b" creates a nested group and is read back,
   "/x" puts the blob at the root of the file, which then no longer opens (open finding file-named-absolute-path); such names
   are outside the node model and are checked by the oracle only. *)

(* REFUTED in general (open findings file-named-Data, file-named-Type): consequences of the same model *)
Theorem C08_blob_named_Data_refuted : ~ node_full.
Proof. exact node_full_refuted. Qed.
Print Assumptions C08_blob_named_Data_refuted.

Theorem C08_blob_reserved_names : forall b,
  node_read (node_write node0 k_Data b) = Ok None                 (* file name and content read None *)
  /\ node_read (node_write node0 k_Type b) = Err TypeErr.          (* the Type link is replaced: the file no longer opens *)
Proof. intros b. split; reflexivity. Qed.
Print Assumptions C08_blob_reserved_names.

Theorem C08_blob_refusals : blob_store FNotBytes = Err ValueErr /\ blob_store (FBytes []) = Err ValueErr.
Proof. exact blob_rejections. Qed.
Print Assumptions C08_blob_refusals.

(* add_file as a whole (blob_add transcribes the order of the refusals in write_file_name_data; tied to the code by the
   generated name x content combinations): the blob is stored exactly when the name is acceptable (name_refusal: not "",
   no NUL, not ".") and the content is a non-empty byte string *)
Theorem C08_blob_add_ok_iff : forall name x b,
  blob_add name x = Ok b <-> name_refusal name = None /\ x = FBytes b /\ b <> [].
Proof. exact blob_add_ok_iff. Qed.
Print Assumptions C08_blob_add_ok_iff.

Example C08_blob_nonvacuous :
  node_read (node_write (node_write node0 [102; 46; 100]%N [1; 0; 255]%N) [102; 46; 100]%N [7]%N) = Ok (Some ([102; 46; 100]%N, [7]%N)).
Proof. reflexivity. Qed.

(* ====================================================================== metadata and comments (JSON-carried values) *)
(* the text as_str_if_uuid writes for an identifier is read back as that identifier, for every identifier *)
Theorem C08_uuid_text_roundtrip : forall u, (u < 2 ^ 128)%N -> parse_uuid (uuid_braced u) = Some u.
Proof. exact parse_uuid_braced. Qed.
Print Assumptions C08_uuid_text_roundtrip.

(* every metadata dictionary (any nesting of dicts, lists, None, bool, int, float, str with str keys), assigned to a fresh
   entity, comes back equal when (meta_ok) identifiers sit directly in the dictionary or in a dictionary directly below, and no
   string / integer in those slots is taken for an identifier by the model's parser parse_uuid.  parse_uuid follows
   uuid.UUID(str(v)) including what int(text, 16) tolerates on ASCII text (blanks around, '+', "0x"/"0X", single underscores
   between digits); non-ASCII strings are admitted by meta_ok only when their cleaned text has not 32 characters (CPython also
   accepts non-ASCII digits and blanks, which the model does not decide).  The JSON text layer (json.dumps / json.loads) is trusted. *)
Theorem C08_meta_roundtrip : forall m, meta_ok m = true -> meta_trip m = Ok m.
Proof. exact meta_roundtrip. Qed.
Print Assumptions C08_meta_roundtrip.

(* which strings and integers do not survive in a mapped slot: exactly those the model's parser parse_uuid accepts (= those
   uuid.UUID(str(v)) accepts, for ASCII text; the correspondence generator feeds the lenient forms) *)
Theorem C08_meta_lookalikes : forall k k2 s z,
  (meta_trip (JDict [(k, JStr s)]) = Ok (JDict [(k, JStr s)]) <-> parse_uuid s = None)
  /\ (meta_trip (JDict [(k, JInt z)]) = Ok (JDict [(k, JInt z)]) <-> parse_uuid (dec_Z z) = None)
  /\ (meta_trip (JDict [(k, JDict [(k2, JStr s)])]) = Ok (JDict [(k, JDict [(k2, JStr s)])]) <-> parse_uuid s = None).
Proof.
  intros k k2 s z. split; [apply meta_string_roundtrip_iff | split; [apply meta_int_roundtrip_iff | apply meta_nested_string_roundtrip_iff]].
Qed.
Print Assumptions C08_meta_lookalikes.

(* REFUTED at full strength (open findings metadata-uuid-lookalike, metadata-uuid-not-restored): an identifier two
   dictionaries down, or inside a list, is written as text and never mapped back *)
Theorem C08_meta_full_refuted : ~ meta_full.
Proof. exact meta_full_refuted. Qed.
Print Assumptions C08_meta_full_refuted.

Theorem C08_meta_unmapped_positions : forall k1 k2 k3 u,
  meta_trip (JDict [(k1, JDict [(k2, JDict [(k3, JUuid u)])])]) = Ok (JDict [(k1, JDict [(k2, JDict [(k3, JStr (uuid_braced u))])])])
  /\ meta_trip (JDict [(k1, JList [JUuid u])]) = Ok (JDict [(k1, JList [JStr (uuid_braced u)])]).
Proof. intros. split; reflexivity. Qed.
Print Assumptions C08_meta_unmapped_positions.

Theorem C08_meta_refusals :
  (forall m, (forall d, m <> JDict d) -> m <> JNull -> meta_trip m = Err TypeErr)
  /\ meta_trip JNull = Ok JNull                                  (* None is accepted: it clears the metadata *)
  /\ (forall d, plain (dmap (JDict d)) = false -> meta_trip (JDict d) = Err TypeErr)
  /\ (forall k u, meta_trip (JDict [(k, JList [JList [JUuid u]])]) = Err TypeErr)
  /\ (forall k, meta_trip (JDict [(k, JBad)]) = Err TypeErr).
Proof. exact meta_refusals. Qed.
Print Assumptions C08_meta_refusals.

(* several assignments in one session: the setter merges (dict.update), None clears, and meta_trip is the one-assignment case *)
Theorem C08_meta_merge_roundtrip : forall d1 d2,
  plain (dmap (JDict d1)) = true -> plain (dmap (JDict d2)) = true ->
  let m := dupdate d1 d2 in
  meta_ok (JDict m) = true ->
  exists st, meta_run Repaired mfresh [JDict d1; JDict d2] = (st, [None; None])
             /\ mem st = Some m /\ file st = Some (dmap (JDict m)) /\ meta_reopen st = Ok (JDict m).
Proof. exact meta_merge_roundtrip. Qed.
Print Assumptions C08_meta_merge_roundtrip.

Theorem C08_meta_none_clears : forall w st, meta_assign w st JNull = (mfresh, None) /\ meta_reopen mfresh = Ok JNull.
Proof. exact meta_none_clears. Qed.
Print Assumptions C08_meta_none_clears.

(* "rejected rather than silently altered": a refused assignment changes neither the entity nor the file (repaired code) *)
Theorem C08_meta_refusal_atomic : forall st v,
  (forall d, v = JDict d -> plain (dmap v) = false) -> v <> JNull -> meta_assign Repaired st v = (st, Some TypeErr).
Proof. exact meta_refusal_atomic. Qed.
Print Assumptions C08_meta_refusal_atomic.

(* REFUTED for the code as shipped (fixes/C08-metadata-refusal-not-atomic.patch): the dataset is deleted before json.dumps
   raises and the entity already holds the merged bad value *)
Theorem C08_meta_refusal_old_refuted : ~ meta_refusal_atomic_prop Old.
Proof. exact meta_refusal_atomic_old_refuted. Qed.
Print Assumptions C08_meta_refusal_old_refuted.

Example C08_meta_nonvacuous :
  let m := JDict [([97]%N, JUuid 5); ([98]%N, JDict [([99]%N, JUuid (2 ^ 128 - 1)); ([100]%N, JList []); ([101]%N, JDict [])]);
                  ([102]%N, JNull); ([103]%N, JList [JStr [48; 48]%N; JInt (2 ^ 70)]); ([104]%N, JStr [233; 128512]%N)] in
  meta_ok m = true /\ meta_trip m = Ok m.
Proof. split; vm_compute; reflexivity. Qed.

(* comments: every list of {Author, Date, Text} records of strings (uuid look-alikes included: nothing is mapped) *)
Theorem C08_comments_roundtrip : forall l, Forall is_record l -> comments_trip l = Ok l.
Proof. exact comments_roundtrip. Qed.
Print Assumptions C08_comments_roundtrip.

Theorem C08_comments_refusals :
  (forall l r, In r l -> keys_ok r = false -> comments_trip l = Err AssertErr)
  /\ (forall a d u, comments_trip [JDict [(k_Author, JStr a); (k_Date, JStr d); (k_Text, JUuid u)]] = Err TypeErr).
Proof. exact comments_refusals. Qed.
Print Assumptions C08_comments_refusals.

(* ====================================================================== reference value maps *)
(* key 0 is "Unknown" (or the map is the boolean map) after the constructor and after every sequence of assignments,
   refused ones included *)
Theorem C08_refmap_zero_unknown : forall w d ops m0,
  mk w d = Ok m0 -> zero_ok (fst (apply_ops w m0 ops)).
Proof. exact refmap_zero_unknown. Qed.
Print Assumptions C08_refmap_zero_unknown.

Theorem C08_refmap_keeps_labels : forall w d m k s,
  dict_keys_nodup d -> mk w d = Ok m -> In (KInt k, LStr s) d -> lookup k m = Some s.
Proof. exact mk_keeps_labels. Qed.
Print Assumptions C08_refmap_keeps_labels.

(* which assignments are refused, and that a refused entry refuses the whole dict; the boolean map is frozen *)
Theorem C08_refmap_refusals :
  (forall w d k v e, is_bool_dict d = false -> In (k, v) d -> validate w k v = Err e -> exists e', mk w d = Err e')
  /\ (forall w m k v e, is_bool_map m = false -> validate w k v = Err e -> setitem w m k v = Err e)
  /\ (forall w m k v, is_bool_map m = true -> setitem w m k v = Err AssertErr)
  /\ (forall z v, z < 0 \/ KEY_MAX < z -> validate Repaired (KInt z) v = Err KeyErr)
  /\ (forall v, validate Repaired KBad v = Err KeyErr)
  /\ (forall z, 0 <= z <= KEY_MAX -> validate Repaired (KInt z) LBad = Err TypeErr)
  /\ (forall s, s <> s_Unknown -> validate Repaired (KInt 0) (LStr s) = Err ValueErr).
Proof.
  repeat split.
  - exact mk_refuses_invalid.
  - exact setitem_refuses_invalid.
  - exact bool_map_frozen.
  - intros z v [H|H]; unfold validate.
    + destruct (Z.ltb_spec z 0); [reflexivity | lia].
    + destruct (Z.ltb_spec z 0); [reflexivity|]. destruct (Z.ltb_spec KEY_MAX z); [reflexivity | lia].
  - intros z [H0 H1]. unfold validate. destruct (Z.ltb_spec z 0); [lia|]. destruct (Z.ltb_spec KEY_MAX z); [lia | reflexivity].
  - intros s Hs. unfold validate. simpl. destruct (lN_eqb s s_Unknown) eqn:E; [apply lN_eqb_eq in E; contradiction | reflexivity].
Qed.
Print Assumptions C08_refmap_refusals.

(* the map read back from the file is the map that was stored: every key with its label, key 0 included, nothing else *)
Theorem C08_refmap_file_roundtrip : forall (enc : str -> option bytes) (dec : bytes -> option str),
  (forall s b, enc s = Some b -> dec b = Some s) ->
  forall m bs, wf m -> enc_all enc (map snd m) = Ok bs ->
  write_map enc m = Ok (combine (map fst m) bs) /\ reopen_map dec Repaired (combine (map fst m) bs) = Ok m.
Proof. exact refmap_file_roundtrip. Qed.
Print Assumptions C08_refmap_file_roundtrip.

Theorem C08_refmap_survives_file : forall (enc : str -> option bytes) (dec : bytes -> option str),
  (forall s b, enc s = Some b -> dec b = Some s) ->
  forall d ops m0 bs,
  dict_keys_nodup d -> mk Repaired d = Ok m0 ->
  let m := fst (apply_ops Repaired m0 ops) in
  enc_all enc (map snd m) = Ok bs ->
  run_map enc dec Repaired d ops = MODone m (snd (apply_ops Repaired m0 ops)) (combine (map fst m) bs) m.
Proof. exact refmap_survives_file. Qed.
Print Assumptions C08_refmap_survives_file.

Theorem C08_refmap_file_identical : refmap_file_full Repaired.
Proof. exact refmap_file_full_repaired. Qed.
Print Assumptions C08_refmap_file_identical.

(* REFUTED for the code as shipped: keys 1 and 2^32+1 share the 32-bit row key; after re-open key 1 carries the other label *)
Theorem C08_refmap_old_refuted : ~ refmap_file_full Old.
Proof. exact refmap_file_full_old_refuted. Qed.
Print Assumptions C08_refmap_old_refuted.

Example C08_refmap_nonvacuous :
  exists m rows,
    run_map utf8_enc utf8_dec Repaired [(KInt 3, LStr s_one)] [(KInt 0, LStr s_big); (KInt 3, LStr s_big); (KInt 4294967296, LStr s_one)]
    = MODone m [Some ValueErr; None; Some KeyErr] rows m
    /\ lookup 3 m = Some s_big /\ lookup 0 m = Some s_Unknown.
Proof. do 2 eexists. split; [vm_compute; reflexivity|]. split; reflexivity. Qed.

(* DEFINITIONAL COMPOSITION (audit 2, A11): run_ref is the pair of the two independent stores, so this theorem is the
   conjunction of C08_refmap_survives_file and C08_int_roundtrip_in_range plus two list facts; what it records is that the model
   (tied to the code by the map cases, which store values inside and outside the keys) has no interaction between the two:
   a value without a key is stored and returned as it is (not 0, not the no-data code), no label is made up, no key added *)
Theorem C08_ref_values_outside_map : forall d ops m0 bs a n l,
  dict_keys_nodup d -> mk Repaired d = Ok m0 ->
  let m := fst (apply_ops Repaired m0 ops) in
  enc_all utf8_enc (map snd m) = Ok bs ->
  Forall in_int32 l -> len_ok a n (length l) -> (1 <= n)%nat ->
  let l' := padded l n INTEGER_NDV in
  run_ref Repaired d ops a n (AInt I32 l)
  = (MODone m (snd (apply_ops Repaired m0 ops)) (combine (map fst m) bs) m, ODone (VI l') (RI32 l') (VI l'))
  /\ (forall z, In z l -> In z l')
  /\ (forall z, lookup z m = None -> ~ In z (map fst m)).
Proof. exact ref_values_outside_map. Qed.
Print Assumptions C08_ref_values_outside_map.
