(* C02 — placeholder until Proofs/WsProofs.v lands *)
From GV Require Import Prelude.Base Model.Ws Model.WsCheck.
Theorem C02_init_reopen : fst (step init Reopen) = init.
Proof. vm_compute. reflexivity. Qed.
Print Assumptions C02_init_reopen.
