(* C14 — ui.json files round-trip.  (stub: statements are added below) *)
From Coq Require Import String.
From GV Require Import Prelude.Base Model.PyVal Model.Enforcers Model.UiForms Model.UiCodec Proofs.PyValProofs.
From GVgen Require Import PyLite_SharedUtils PyLite_UiUtils PyLite_InputFile.

Theorem C14_stub : forall (a : pv), bind (Ok a) (fun x => Ok x) = Ok a.
Proof. intros; reflexivity. Qed.
Print Assumptions C14_stub.
