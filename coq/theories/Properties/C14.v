(* C14 — ui.json files round-trip.
   Only statements, each closed by [exact] and followed by Print Assumptions.

   dict_mapper, the write mappers (nan2str inf2str as_str_if_uuid none2str), the demotion mappers (entity2uuid ...),
   the read mappers (str2none str2inf str2uuid) are the PyLite translations of the current source
   (coq/generated/PyLite_SharedUtils.v, PyLite_UiUtils.v, regenerated on every run); json, path2workspace /
   workspace2path, uuid2entity and the uuid text are the hand models of Model/UiCodec.v and Model/PyVal.v.
   [value_trip] sends one value through dict_mapper with the demotion functions, dict_mapper with the write functions,
   json, dict_mapper with the read functions - exactly what InputFile.demote / stringify / json / numify do to every
   member of every form, at any nesting depth of dictionaries (they all delegate to dict_mapper).
   Whole dictionaries: [file_trip] = GENERATED demote ; stringify ; json ; GENERATED numify on a ui.json-shaped value of any
   nesting depth and any number of forms (C14_file_roundtrip, by induction through the generated dict_mapper), followed by the
   hand model [promote] (C14_file_roundtrip_promoted); GENERATED flatten and the enabled states (C14_flatten_*, C14_enabled_preserved).
   update_ui_values / set_enabled (they write through aliases) remain a hand model tied by write->read on disk, without theorem. *)
From Coq Require Import String.
From GV Require Import Prelude.Base Model.PyVal Model.Enforcers Model.UiForms Model.UiCodec
     Model.UiRules Proofs.PyValProofs Proofs.UiRulesProofs Proofs.UiCodecProofs Proofs.UiTreeProofs Proofs.UiFlattenProofs.
From GVgen Require Import PyLite_SharedUtils PyLite_UiUtils PyLite_InputFile.
Local Open Scope string_scope.

(* ---- how dict_mapper treats a value: scalars get the functions in order, lists element by element (one level) ---- *)
Theorem C14_dict_mapper_scalar : forall n v fs, isinst v [TDict; TList] = false -> dict_mapper (S n) v fs = apply_all fs v.
Proof. exact dict_mapper_scalar. Qed.
Print Assumptions C14_dict_mapper_scalar.

Theorem C14_dict_mapper_list : forall n l fs,
  dict_mapper (S n) (PList l) fs = (l' <- map_res (apply_all fs) l ;; Ok (PList l')).
Proof. exact dict_mapper_list. Qed.
Print Assumptions C14_dict_mapper_list.

(* ---- PARTIAL: every value whose text is not the text of another kind comes back unchanged ---- *)
(* None, booleans, integers, finite floats, +-inf, strings, identifiers (entities come back as their identifier, which
   promotion turns into the entity again), workspace paths.  Side condition atom_safe = exactly the look-alikes below;
   for identifiers it contains the decidable check that the braced text parses back (uuid_text_ok). *)
Theorem C14_value_roundtrip : forall n v, is_atom v = true -> atom_safe v = true -> value_trip (S n) v = Ok (canon v).
Proof. exact atom_roundtrip. Qed.
Print Assumptions C14_value_roundtrip.

Example C14_value_roundtrip_nonvacuous :
  atom_safe (PFloat FNInf) = true /\ atom_safe (PStr "Points_A") = true /\ atom_safe (PInt (2 ^ 70)) = true
  /\ atom_safe (PEnt KEntity 48%N) = true /\ atom_safe (PUuid (2 ^ 127 + 12345)%N) = true /\ atom_safe (PWs "dir/w.geoh5") = true
  /\ value_trip 3 (PEnt KEntity 48%N) = Ok (PUuid 48%N) /\ value_trip 3 (PFloat FPInf) = Ok (PFloat FPInf).
Proof. vm_compute. repeat split; reflexivity. Qed.

(* the strings that do not survive are exactly: "", "inf", "-inf", uuid-shaped, "*.geoh5" *)
Theorem C14_string_roundtrip_iff : forall n s, value_trip (S n) (PStr s) = Ok (PStr s) <-> string_safe s = true.
Proof. exact string_roundtrip_iff. Qed.
Print Assumptions C14_string_roundtrip_iff.

(* the integers that do not survive are exactly those whose decimal text is uuid-shaped (32 digits) *)
Theorem C14_int_roundtrip_iff : forall n z, value_trip (S n) (PInt z) = Ok (PInt z) <-> int_safe z = true.
Proof. exact int_roundtrip_iff. Qed.
Print Assumptions C14_int_roundtrip_iff.

(* promoting an identifier of the workspace and demoting it again returns the identifier; an entity that is written
   and read is promoted to the same entity *)
Theorem C14_demote_promote : forall W k u, w_kind W u = Some k -> entity2uuid (uuid2entity W (PUuid u)) = Ok (PUuid u).
Proof. exact demote_promote_uuid. Qed.
Print Assumptions C14_demote_promote.

Theorem C14_entity_roundtrip : forall n W k u, w_kind W u = Some k -> uuid_text_ok u = true ->
  (v <- value_trip (S n) (PEnt k u) ;; Ok (uuid2entity W v)) = Ok (PEnt k u).
Proof. exact entity_roundtrip. Qed.
Print Assumptions C14_entity_roundtrip.

(* ---- PARTIAL: no non-finite float reaches json.dump (scalars and lists of scalars, i.e. every template form) ---- *)
Theorem C14_no_nonfinite_scalar : forall n v w, is_atom v = true -> value_written (S n) v = Ok w -> has_nonfinite w = false.
Proof. exact written_atom_finite. Qed.
Print Assumptions C14_no_nonfinite_scalar.

Theorem C14_no_nonfinite_to_json : forall n l w,
  forallb is_atom l = true -> value_written (S n) (PList l) = Ok w -> has_nonfinite w = false.
Proof. exact written_flat_list_finite. Qed.
Print Assumptions C14_no_nonfinite_to_json.

(* ---- REFUTED: the unrestricted statements (witnesses replayed on the implementation: open findings) ---- *)
Theorem C14_roundtrip_all_strings_refuted : ~ (forall n s, value_trip (S n) (PStr s) = Ok (PStr s)).
Proof. exact all_strings_refuted. Qed.
Print Assumptions C14_roundtrip_all_strings_refuted.

Theorem C14_roundtrip_all_ints_refuted : ~ (forall n z, value_trip (S n) (PInt z) = Ok (PInt z)).
Proof. exact all_ints_refuted. Qed.
Print Assumptions C14_roundtrip_all_ints_refuted.

Theorem C14_no_nonfinite_nested_refuted : ~ (forall n v w, value_written (S n) v = Ok w -> has_nonfinite w = false).
Proof. exact nonfinite_nested_refuted. Qed.
Print Assumptions C14_no_nonfinite_nested_refuted.

(* ==== whole ui.json dictionaries ==== *)

(* the generated dict_mapper over a whole tree: dictionaries at any depth, lists one level, for any list of functions that
   leave dictionaries alone and map the occurring leaves by g *)
Theorem C14_dict_mapper_tree : forall fs g L,
  (forall d, apply_all fs (PDict d) = Ok (PDict d)) ->
  (forall a, is_atom a = true -> L a = true -> apply_all fs a = Ok (g a)) ->
  forall m v, tshape false L v = true -> depth v < m -> dict_mapper m v fs = Ok (tmap g v).
Proof. exact dict_mapper_tree. Qed.
Print Assumptions C14_dict_mapper_tree.

(* PARTIAL (side condition: safe leaves, forms pass ui_validation as written): demote, stringify, json, numify return every
   ui.json-shaped dictionary - nested dictionaries with distinct string keys, members scalars or lists / tuples of scalars,
   nesting depth and number of forms unbounded (fuel only has to exceed the depth) - with each leaf canonical: entities as
   their identifier, tuples as lists, everything else unchanged *)
Theorem C14_file_roundtrip : forall m d,
  tshape true atom_safe (PDict d) = true -> depth (PDict d) < m -> forms_pass true (text_tree (PDict d)) = true ->
  file_trip m (PDict d) = Ok (canon_tree (PDict d)).
Proof. exact file_roundtrip. Qed.
Print Assumptions C14_file_roundtrip.

Definition C14_demo_ui : pv :=
  PDict [ (PStr "title", PStr "T"); (PStr "geoh5", PWs "dir/w.geoh5"); (PStr "run_command", PNone);
          (PStr "levels", PList [PFloat FNInf; PFloat (FFin 3 1); PInt 7]);
          (PStr "obj", PDict [(PStr "label", PStr "Object"); (PStr "value", PEnt KEntity 32%N);
                              (PStr "meshType", PTuple [PUuid 12345%N; PUuid (2 ^ 127 + 5)%N]); (PStr "optional", PBool true);
                              (PStr "enabled", PBool false)]);
          (PStr "tol", PDict [(PStr "label", PStr "Tolerance"); (PStr "value", PFloat FPInf); (PStr "min", PFloat FNInf);
                              (PStr "main", PBool true); (PStr "group", PStr "G")]) ].
Example C14_file_roundtrip_nonvacuous :
  tshape true atom_safe C14_demo_ui = true /\ depth C14_demo_ui = 3 /\ forms_pass true (text_tree C14_demo_ui) = true
  /\ res_same (file_trip 4 C14_demo_ui) (Ok (canon_tree C14_demo_ui)) = true.
Proof. vm_compute. repeat split; reflexivity. Qed.

(* ... and promotion (hand model of InputFile.promote) gives back exactly the dictionary that was written when its identifiers
   are entities of the workspace (no raw identifiers, no tuples) *)
Theorem C14_file_roundtrip_promoted : forall W m d,
  tshape false (fun a => atom_safe a && promotable W a) (PDict d) = true -> depth (PDict d) < m ->
  forms_pass true (text_tree (PDict d)) = true ->
  (j <- file_trip m (PDict d) ;; promote m W false j) = Ok (PDict d).
Proof. exact file_roundtrip_promoted. Qed.
Print Assumptions C14_file_roundtrip_promoted.

Definition C14_demo_world : world := {| w_ents := [(32%N, KEntity); (48%N, KEntity); (64%N, KPropGroup "Multi-element")]; w_desc := [] |}.
Definition C14_demo_data : pv :=
  PDict [ (PStr "title", PStr "T"); (PStr "geoh5", PWs "dir/w.geoh5"); (PStr "levels", PList [PFloat FNInf; PInt 7]);
          (PStr "obj", PDict [(PStr "label", PStr "Object"); (PStr "value", PEnt KEntity 32%N); (PStr "enabled", PBool true)]);
          (PStr "grp", PDict [(PStr "label", PStr "Group"); (PStr "value", PEnt (KPropGroup "Multi-element") 64%N);
                              (PStr "property", PList [PEnt KEntity 48%N; PNone])]) ].
(* the premises of C14_file_roundtrip_promoted are met by a dictionary with entities, a property group and a list of entities;
   the conclusion then follows from the theorem (it is not re-checked by computation) *)
Example C14_file_roundtrip_promoted_nonvacuous :
  tshape false (fun a => atom_safe a && promotable C14_demo_world a) C14_demo_data = true
  /\ depth C14_demo_data < 4 /\ forms_pass true (text_tree C14_demo_data) = true
  /\ (j <- file_trip 4 C14_demo_data ;; promote 4 C14_demo_world false j) = Ok C14_demo_data.
Proof.
  assert (H1 : tshape false (fun a => atom_safe a && promotable C14_demo_world a) C14_demo_data = true) by (vm_compute; reflexivity).
  assert (H2 : depth C14_demo_data < 4) by (unfold C14_demo_data; simpl; lia).
  assert (H3 : forms_pass true (text_tree C14_demo_data) = true) by (vm_compute; reflexivity).
  split; [exact H1 | split; [exact H2 | split; [exact H3 | exact (C14_file_roundtrip_promoted C14_demo_world 4 _ H1 H2 H3)]]].
Qed.

(* ---- flatten (generated) and the enabled states ---- *)
(* flatten reports, entry by entry: non-dictionary parameters as they are, a form by flat_value = None when it is disabled,
   else its value (or property) member; dictionaries that are not forms are not reported *)
Theorem C14_flatten_spec : forall d, keys_ok d -> (forall k v, In (k, v) d -> flat_ok v = true) ->
  flatten (PDict d) = Ok (PDict (filter_map_snd flat_entry d)).
Proof. exact flatten_eq. Qed.
Print Assumptions C14_flatten_spec.

(* None exactly for disabled forms: a disabled form gives None, an enabled form its member *)
Theorem C14_flatten_form_entry : forall d k f, keys_ok d -> (forall k v, In (k, v) d -> flat_ok v = true) ->
  In (PStr k, PDict f) d -> form_members (PDict f) = Some f ->
  exists data x, flatten (PDict d) = Ok (PDict data) /\ dict_find (PStr k) data = Some x
    /\ (form_enabled f = false -> x = PNone)
    /\ (form_enabled f = true -> mem (if truthy (mem_default "isValue" f (PBool true)) then "value" else "property") f = Some x).
Proof. exact flatten_form_entry. Qed.
Print Assumptions C14_flatten_form_entry.

(* the same forms are enabled / disabled (and are forms) in what C14_file_roundtrip says is read back *)
Theorem C14_enabled_preserved : forall d k f,
  tshape true atom_safe (PDict d) = true -> In (k, PDict f) d ->
  exists f', In (k, PDict f') (match canon_tree (PDict d) with PDict d' => d' | _ => [] end)
             /\ form_enabled f' = form_enabled f
             /\ (dict_has (PStr "label") f' = dict_has (PStr "label") f) /\ (dict_has (PStr "value") f' = dict_has (PStr "value") f).
Proof. exact enabled_preserved. Qed.
Print Assumptions C14_enabled_preserved.
