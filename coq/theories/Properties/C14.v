(* C14 — ui.json files round-trip.
   Only statements, each closed by [exact] and followed by Print Assumptions.

   dict_mapper, the write mappers (nan2str inf2str as_str_if_uuid none2str), the demotion mappers (entity2uuid ...),
   the read mappers (str2none str2inf str2uuid) are the PyLite translations of the current source
   (coq/generated/PyLite_SharedUtils.v, PyLite_UiUtils.v, regenerated on every run); json, path2workspace /
   workspace2path, uuid2entity and the uuid text are the hand models of Model/UiCodec.v and Model/PyVal.v.
   [value_trip] sends one value through dict_mapper with the demotion functions, dict_mapper with the write functions,
   json, dict_mapper with the read functions - exactly what InputFile.demote / stringify / json / numify do to every
   member of every form, at any nesting depth of dictionaries (they all delegate to dict_mapper).
   The InputFile flow around it (flatten, promote, update_ui_values, set_enabled, enabled states) is the hand model
   round_trip of Model/UiCodec.v, tied to the implementation by write->read on disk (no theorem: PARTIAL). *)
From Coq Require Import String.
From GV Require Import Prelude.Base Model.PyVal Model.Enforcers Model.UiForms Model.UiCodec
     Proofs.PyValProofs Proofs.UiCodecProofs.
From GVgen Require Import PyLite_SharedUtils PyLite_UiUtils PyLite_InputFile.
Local Open Scope string_scope.

(* ---- how dict_mapper treats a value: scalars get the functions in order, lists element by element (one level) ---- *)
Theorem C14_dict_mapper_scalar : forall n v fs, isinst v [TDict; TList] = false -> dict_mapper (S n) v fs = apply_all fs v.
Proof. exact dict_mapper_scalar. Qed.
Print Assumptions C14_dict_mapper_scalar.

Theorem C14_dict_mapper_list : forall n l fs,
  dict_mapper (S n) (PList l) fs = (l' <- map_res (apply_all fs) l ;; Ok (PList l')).
Proof. exact dict_mapper_list. Qed.
Print Assumptions C14_dict_mapper_list.

(* ---- PARTIAL: every value whose text is not the text of another kind comes back unchanged ---- *)
(* None, booleans, integers, finite floats, +-inf, strings, identifiers (entities come back as their identifier, which
   promotion turns into the entity again), workspace paths.  Side condition atom_safe = exactly the look-alikes below;
   for identifiers it contains the decidable check that the braced text parses back (uuid_text_ok). *)
Theorem C14_value_roundtrip : forall n v, is_atom v = true -> atom_safe v = true -> value_trip (S n) v = Ok (canon v).
Proof. exact atom_roundtrip. Qed.
Print Assumptions C14_value_roundtrip.

Example C14_value_roundtrip_nonvacuous :
  atom_safe (PFloat FNInf) = true /\ atom_safe (PStr "Points_A") = true /\ atom_safe (PInt (2 ^ 70)) = true
  /\ atom_safe (PEnt KEntity 48%N) = true /\ atom_safe (PUuid (2 ^ 127 + 12345)%N) = true /\ atom_safe (PWs "dir/w.geoh5") = true
  /\ value_trip 3 (PEnt KEntity 48%N) = Ok (PUuid 48%N) /\ value_trip 3 (PFloat FPInf) = Ok (PFloat FPInf).
Proof. vm_compute. repeat split; reflexivity. Qed.

(* the strings that do not survive are exactly: "", "inf", "-inf", uuid-shaped, "*.geoh5" *)
Theorem C14_string_roundtrip_iff : forall n s, value_trip (S n) (PStr s) = Ok (PStr s) <-> string_safe s = true.
Proof. exact string_roundtrip_iff. Qed.
Print Assumptions C14_string_roundtrip_iff.

(* the integers that do not survive are exactly those whose decimal text is uuid-shaped (32 digits) *)
Theorem C14_int_roundtrip_iff : forall n z, value_trip (S n) (PInt z) = Ok (PInt z) <-> int_safe z = true.
Proof. exact int_roundtrip_iff. Qed.
Print Assumptions C14_int_roundtrip_iff.

(* promoting an identifier of the workspace and demoting it again returns the identifier; an entity that is written
   and read is promoted to the same entity *)
Theorem C14_demote_promote : forall W k u, w_kind W u = Some k -> entity2uuid (uuid2entity W (PUuid u)) = Ok (PUuid u).
Proof. exact demote_promote_uuid. Qed.
Print Assumptions C14_demote_promote.

Theorem C14_entity_roundtrip : forall n W k u, w_kind W u = Some k -> uuid_text_ok u = true ->
  (v <- value_trip (S n) (PEnt k u) ;; Ok (uuid2entity W v)) = Ok (PEnt k u).
Proof. exact entity_roundtrip. Qed.
Print Assumptions C14_entity_roundtrip.

(* ---- PARTIAL: no non-finite float reaches json.dump (scalars and lists of scalars, i.e. every template form) ---- *)
Theorem C14_no_nonfinite_scalar : forall n v w, is_atom v = true -> value_written (S n) v = Ok w -> has_nonfinite w = false.
Proof. exact written_atom_finite. Qed.
Print Assumptions C14_no_nonfinite_scalar.

Theorem C14_no_nonfinite_to_json : forall n l w,
  forallb is_atom l = true -> value_written (S n) (PList l) = Ok w -> has_nonfinite w = false.
Proof. exact written_flat_list_finite. Qed.
Print Assumptions C14_no_nonfinite_to_json.

(* ---- REFUTED: the unrestricted statements (witnesses replayed on the implementation: open findings) ---- *)
Theorem C14_roundtrip_all_strings_refuted : ~ (forall n s, value_trip (S n) (PStr s) = Ok (PStr s)).
Proof. exact all_strings_refuted. Qed.
Print Assumptions C14_roundtrip_all_strings_refuted.

Theorem C14_roundtrip_all_ints_refuted : ~ (forall n z, value_trip (S n) (PInt z) = Ok (PInt z)).
Proof. exact all_ints_refuted. Qed.
Print Assumptions C14_roundtrip_all_ints_refuted.

Theorem C14_no_nonfinite_nested_refuted : ~ (forall n v w, value_written (S n) v = Ok w -> has_nonfinite w = false).
Proof. exact nonfinite_nested_refuted. Qed.
Print Assumptions C14_no_nonfinite_nested_refuted.
