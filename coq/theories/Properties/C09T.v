(* C09, entity-TYPE clauses — typed layer Model/WsT.v.
   Only statements, each closed by [exact] and followed by Print Assumptions. *)
From GV Require Import Prelude.Base Model.WsT Model.WsTSpec Proofs.WsTProofs.

(* Driver convention (Model/WsT.v header): [RemoveWs] = `ws.remove_entity(ws.get_entity(u)[0])`, the caller holds no reference
   to the removed entity, so the final sweep of remove_entity sees its type dead; when the caller keeps a reference the type
   of that one entity survives until a later sweep (then the footprint of the removal is smaller, that of the later sweep
   larger -- both covered by "the types nobody uses any more").
   UNCONDITIONAL (any state, any outcome): an operation leaves every type node -- address, primitive type, name -- that is
   not in its type footprint identical: the type a creation introduces, the type whose attribute is assigned, the types
   nobody uses any more for a removal through the workspace / a `types` listing; nothing for a removal through the parent
   and for close + open *)
Theorem C09T_types_frame : forall s o key, ~ In (snd key) (type_footprint s o) ->
  tget key (ftypes (fst (step s o))) = tget key (ftypes s).
Proof. exact types_frame. Qed.
Print Assumptions C09T_types_frame.

(* every other stored entity keeps its Type link *)
Theorem C09T_links_frame : forall s o e, ~ In e (ent_footprint s o) ->
  nget e (fents (fst (step s o))) = nget e (fents s).
Proof. exact links_frame. Qed.
Print Assumptions C09T_links_frame.

(* DEFINITIONAL (unfolds [do_reopen], which copies ftypes / fents / next): close + open writes nothing to the Types container
   and to the Type links.  Scope: the typed layer does not model the close-time walk `save_entity(root, add_children=True)`
   nor the `self.groups` listing that close runs -- i.e. it speaks of states in which every live entity is already stored
   (true of every reachable state: entities are saved on creation) and says nothing about the flat nodes of dead GROUPS that
   close sweeps; that part of "open/close without mutation is the identity" is the X model's C09_step_frame_rep (Reopen
   rewrites nothing except deleting swept dead groups).  The typed content of this theorem is: neither close nor open
   touches a type node or a Type link, which the correspondence stream checks after every Reopen. *)
Theorem C09T_reopen_file_identity : forall s,
  ftypes (fst (step s Reopen)) = ftypes s /\ fents (fst (step s Reopen)) = fents s /\ next (fst (step s Reopen)) = next s.
Proof. exact reopen_file_identity. Qed.
Print Assumptions C09T_reopen_file_identity.

(* ... and, when links and attributes are in order, it is the identity on what the API shows as well *)
Theorem C09T_reopen_identity : forall s, TInv s -> attrs_sync s ->
  snd (step s Reopen) = Done /\ mem_view (fst (step s Reopen)) = mem_view s.
Proof. exact reopen_types_state. Qed.
Print Assumptions C09T_reopen_identity.

Example C09T_nonvacuous :
  let s := run (firstn 9 ops_demo_t) init in
  type_footprint s ListTypes = [10%N] /\ tget (TD, 10%N) (ftypes s) <> None /\ tget (TO, 3%N) (ftypes s) <> None /\
  tget (TD, 10%N) (ftypes (fst (step s ListTypes))) = None.
Proof. vm_compute. repeat split; discriminate. Qed.
