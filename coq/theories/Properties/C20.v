(* C20 — Linked surveys stay mutually consistent.
   Only statements, each closed by [exact] and followed by Print Assumptions.
   Model: Model/Linked.v (metadata getter/setter, edit_em_metadata, partner getters/setters, waveform setter, re-open,
   copy + copy_complement), proofs: Proofs/LinkedProofs.v.

   SCOPE.  The theorems named C20_* without "dc" are about electromagnetic pairs (receivers/transmitters, tipper
   receivers/base stations): [inv] requires [is_dc (fam _) = false].  DIRECT-CURRENT (potential/current electrode) pairs have
   their own, weaker invariant [dinv] (C20_dc_* below): for electrodes the code does NOT keep the two metadata dictionaries
   equal (finding dc-shared-dict-partner-not-stored), so what is proved is that the LINK persists — whatever either electrode
   reads and whatever is stored for either names both.  The copy theorems C20_copy_links_copies, C20_copy_of_copy and
   C20_copy_then_edit_isolated are stated for the families that are not LARGE-LOOP ([is_large (fam ea) = false]);
   C20_copy_links_copies_large states the same conclusion for large-loop pairs whose two sides both carry the "Tx ID" property
   (the only large-loop case in which the code copies the partner at all; without the property the copy has no partner —
   finding copy-without-id-property-drops-partner).  Electrode copies (dc_copy) are covered by the correspondence — evaluated
   on every generated history and compared with the implementation — and by the oracle, not by theorems.

   OUTSIDE THE MODEL (compared by the oracle on the implementation only, or not at all):
   - the partner of a masked large-loop / electrode copy is copied WHOLE by [em_copy] / [dc_copy]; the code masks it by the
     Tx-ID / A-B intersection (base.py copy_complement of large loops, direct_current.py copy_complement) — only vertex COUNTS
     of the copied side are modelled, the kept loops are an oracle check;
   - [ids e && ids q] is a static flag of the two entities; the code tests the id data after applying the mask;
   - direct_current.py raises further ValueError/KeyError on malformed metadata assignments (missing link keys on an unlinked
     electrode are modelled; other malformed dictionaries are not generated);
   - [OParam] (pitch, roll, yaw, offsets) exists for the airborne families only ([is_airborne]), as set_metadata does;
     [em_wave] re-uses the nested Waveform dict only when it carries a "Timing mark", as the waveform setter does.

   [inv s w u1 u2] : the entities u1, u2 of workspace w exist with opposite roles, the stored metadata of both is the same
   dictionary fd, fd names u1 under u1's link key and u2 under u2's, and whichever of the two holds a cached dict reads
   exactly fd ([inv_reads] spells this out through the getters). *)
From GV Require Import Prelude.Base Model.Linked Proofs.LinkedProofs.

(* Linking from either side: for two initialised, unlinked survey entities of opposite roles in one workspace, both
   [a.partner = b] and [b.partner = a] establish the invariant: both identifiers on both entities, stored for both. *)
Theorem C20_link_symmetric : forall s ea eb,
  solo s ea -> solo s eb -> wsp eb = wsp ea -> uid ea <> uid eb -> rol eb = other (rol ea) ->
  inv (em_link s ea eb) (wsp ea) (uid ea) (uid eb) /\ inv (em_link s eb ea) (wsp ea) (uid ea) (uid eb).
Proof. exact link_symmetric. Qed.
Print Assumptions C20_link_symmetric.

(* For ALL sequences of operations applied from either side (re-link in either direction, scalar parameter edits, TEM waveform
   edits that update the nested dict in place, airborne orientation/offset parameters — one edit writing "<Field> value" /
   "<Field> property" and REMOVING the other entry ([PParam], [em_param]) — and re-opens), the invariant is preserved
   (induction over the sequence). *)
Theorem C20_edit_shared : forall w u1 u2 l s,
  inv s w u1 u2 -> Forall pop_ok l -> inv (fold_left (pstep w u1 u2) l s) w u1 u2.
Proof. exact edit_shared. Qed.
Print Assumptions C20_edit_shared.

(* ... and the invariant means: both getters return the same metadata, equal to what is stored for both, naming both. *)
Theorem C20_inv_reads : forall s w u1 u2,
  inv s w u1 u2 ->
  exists e1 e2 fd,
    get_ent w u1 (ents s) = Some e1 /\ get_ent w u2 (ents s) = Some e2
    /\ sees s e1 = Some fd /\ sees s e2 = Some fd
    /\ fget w u1 (file s) = Some fd /\ fget w u2 (file s) = Some fd
    /\ dget (key_of (rol e1)) fd = Some (FU u1) /\ dget (key_of (rol e2)) fd = Some (FU u2) /\ rol e2 = other (rol e1).
Proof. exact inv_reads. Qed.
Print Assumptions C20_inv_reads.

(* After re-opening (every in-memory dict and cached partner dropped) each side resolves its partner again. *)
Theorem C20_reopen_resolves : forall s w u1 u2 e1 e2,
  inv s w u1 u2 -> get_ent w u1 (ents (reopen s)) = Some e1 -> get_ent w u2 (ents (reopen s)) = Some e2 ->
  (exists p s1, partner (reopen s) e1 = (Some p, s1) /\ uid p = u2 /\ wsp p = w)
  /\ (exists p s1, partner (reopen s) e2 = (Some p, s1) /\ uid p = u1 /\ wsp p = w).
Proof. exact reopen_resolves. Qed.
Print Assumptions C20_reopen_resolves.

(* Copying either side (u1 is any member: apply with the pair in either order) of a moving-loop / airborne / tipper pair, with or
   without a mask, into the same or another workspace: the result holds a NEW linked pair (uc, uc2) in the target workspace —
   neither uid existed there before, so the copies are linked to each other and not to the originals — satisfying the
   invariant, while the source pair still satisfies it. *)
Theorem C20_copy_links_copies : forall s w ua ub ea tw mask s' uc,
  wf s -> inv s w ua ub -> get_ent w ua (ents s) = Some ea -> is_large (fam ea) = false ->
  (forall fd, sees s ea = Some fd -> link_keys_hold_uids fd) ->
  em_copy s ea tw mask = Ok (s', uc) ->
  exists uc2,
    inv s' tw uc uc2 /\ inv s' w ua ub /\ wf s'
    /\ get_ent tw uc (ents s) = None /\ get_ent tw uc2 (ents s) = None /\ uc <> uc2
    /\ keys_apart w ua ub tw uc uc2 /\ cells_apart s' w ua ub tw uc uc2.
Proof. exact copy_links_copies. Qed.
Print Assumptions C20_copy_links_copies.

(* The same for LARGE-LOOP pairs (ground / airborne fixed-loop TEM and FEM) whose receivers and transmitters both carry the
   "Tx ID" property: the partner is copied whole (the mask applies to the copied side only), the receivers' own-property entry
   is written before the link when the receivers are copied and after it when the transmitters are; the result is again a new
   linked pair satisfying the invariant, with the source pair untouched and no shared dictionary cell. *)
Theorem C20_copy_links_copies_large : forall s w ua ub ea eb tw mask s' uc,
  wf s -> inv s w ua ub -> get_ent w ua (ents s) = Some ea -> get_ent w ub (ents s) = Some eb ->
  is_large (fam ea) = true -> ids ea = true -> ids eb = true ->
  (forall fd, sees s ea = Some fd -> link_keys_hold_uids fd) ->
  em_copy s ea tw mask = Ok (s', uc) ->
  exists uc2,
    inv s' tw uc uc2 /\ inv s' w ua ub /\ wf s'
    /\ get_ent tw uc (ents s) = None /\ get_ent tw uc2 (ents s) = None /\ uc <> uc2
    /\ keys_apart w ua ub tw uc uc2 /\ cells_apart s' w ua ub tw uc uc2.
Proof. exact copy_links_copies_large. Qed.
Print Assumptions C20_copy_links_copies_large.

(* A copy of a copy: again a new linked pair, distinct from the first copy's pair and from the originals. *)
Theorem C20_copy_of_copy : forall s w ua ub ea tw mask s1 uc c1 tw2 mask2 s2 ucc,
  wf s -> inv s w ua ub -> get_ent w ua (ents s) = Some ea -> is_large (fam ea) = false ->
  (forall fd, sees s ea = Some fd -> link_keys_hold_uids fd) ->
  em_copy s ea tw mask = Ok (s1, uc) ->
  get_ent tw uc (ents s1) = Some c1 -> is_large (fam c1) = false ->
  (forall fd, sees s1 c1 = Some fd -> link_keys_hold_uids fd) ->
  em_copy s1 c1 tw2 mask2 = Ok (s2, ucc) ->
  exists uc2 ucc2,
    inv s2 tw2 ucc ucc2 /\ inv s2 tw uc uc2
    /\ get_ent tw2 ucc (ents s1) = None /\ get_ent tw2 ucc2 (ents s1) = None /\ ucc <> ucc2
    /\ (exists x y, get_ent tw uc (ents s1) = Some x /\ get_ent tw uc2 (ents s1) = Some y)
    /\ (exists x y, get_ent w ua (ents s1) = Some x /\ get_ent w ub (ents s1) = Some y).
Proof. exact copy_of_copy. Qed.
Print Assumptions C20_copy_of_copy.

(* REFUTED: "an edit of an entity created by a copy never changes what a pre-existing entity reads".  A TEM copy re-plays the
   source's Waveform entry by reference, so copy.waveform = ... updates the nested dict shared with the source pair. *)
Theorem C20_copy_isolated_refuted : ~ copy_isolated_full.
Proof. exact copy_isolated_refuted. Qed.
Print Assumptions C20_copy_isolated_refuted.

(* PARTIAL: scalar parameter edits through a member of one pair keep any other pair consistent, provided the two pairs hold
   distinct dict cells (which is what a copy establishes: the copy's dict is allocated after every existing one). *)
Theorem C20_copy_isolated_partial : forall s w ua ub tw uc uc2 ec k z,
  inv s w ua ub -> inv s tw uc uc2 -> keys_apart w ua ub tw uc uc2 -> cells_apart s w ua ub tw uc uc2 ->
  get_ent tw uc (ents s) = Some ec -> k <> KA -> k <> KB ->
  inv (em_edit s ec k (VZ z)) w ua ub.
Proof. exact edit_other_pair. Qed.
Print Assumptions C20_copy_isolated_partial.

(* ... and a copy establishes exactly those two side conditions (C20_copy_links_copies), so: after copying a pair, a scalar
   parameter edit through the copied entity leaves the source pair consistent. *)
Theorem C20_copy_then_edit_isolated : forall s w ua ub ea tw mask s' uc ec k z,
  wf s -> inv s w ua ub -> get_ent w ua (ents s) = Some ea -> is_large (fam ea) = false ->
  (forall fd, sees s ea = Some fd -> link_keys_hold_uids fd) ->
  em_copy s ea tw mask = Ok (s', uc) ->
  get_ent tw uc (ents s') = Some ec -> k <> KA -> k <> KB ->
  inv (em_edit s' ec k (VZ z)) w ua ub.
Proof. exact copy_then_edit_isolated. Qed.
Print Assumptions C20_copy_then_edit_isolated.

(* ---------------------------------------------------------------- direct-current electrodes *)
(* [dinv s w ua ub]: potential electrode ua and current electrode ub exist; the metadata stored for each, and the dict each holds
   in memory (if any), name ua under "Potential Electrodes" and ub under "Current Electrodes". *)

(* Linking from either side establishes it, whatever the two electrodes held before. *)
Theorem C20_dc_link_symmetric : forall s w ea eb,
  get_ent w (uid ea) (ents s) = Some ea -> get_ent w (uid eb) (ents s) = Some eb -> uid ea <> uid eb ->
  fam ea = FDC -> fam eb = FDC -> rol ea = RA -> rol eb = RB ->
  dfresh s ea -> dfresh s eb -> dstored_ok s (uid ea) (uid eb) ea -> dstored_ok s (uid ea) (uid eb) eb ->
  dinv (dc_link s ea eb) w (uid ea) (uid eb) /\ dinv (dc_link s eb ea) w (uid ea) (uid eb).
Proof. exact dc_link_symmetric. Qed.
Print Assumptions C20_dc_link_symmetric.

(* It survives ALL sequences of re-links, free metadata edits, coordinate-reference-system assignments (a nested block next to
   the flat link keys) and re-opens, from either side. *)
Theorem C20_dc_link_persists : forall w ua ub l s,
  dinv s w ua ub -> Forall dpop_ok l -> dinv (fold_left (dstep w ua ub) l s) w ua ub.
Proof. exact dc_link_persists. Qed.
Print Assumptions C20_dc_link_persists.

(* After re-open each electrode resolves its partner again (the stored identifiers are converted back by the reader). *)
Theorem C20_dc_reopen_resolves : forall s w ua ub e1,
  dinv s w ua ub -> (get_ent w ua (ents (reopen s)) = Some e1 \/ get_ent w ub (ents (reopen s)) = Some e1) ->
  exists p s1, partner (reopen s) e1 = (Some p, s1) /\ wsp p = w
    /\ ((uid e1 = ua /\ uid p = ub) \/ (uid e1 = ub /\ uid p = ua)).
Proof. exact dc_reopen_resolves. Qed.
Print Assumptions C20_dc_reopen_resolves.

Example C20_dc_nonvacuous :
  exists s, run s0 h_dc = Ok s /\ dinv s false 1%N 2%N
    /\ dinv (fold_left (dstep false 1%N 2%N) [DEdit true 24 3%Z; DCrs false 7%Z 8%Z; DReopen; DLink false] s) false 1%N 2%N.
Proof. exact dinv_nonvacuous. Qed.

(* non-vacuity of the large-loop copy theorem, from either side: its hypotheses hold on a linked large-loop pair with "Tx ID"
   properties and both copies succeed *)
Example C20_large_nonvacuous :
  exists s ea eb s1 s2,
    run s0 h_large = Ok s /\ wf s /\ inv s false 1%N 3%N
    /\ get_ent false 1%N (ents s) = Some ea /\ get_ent false 3%N (ents s) = Some eb
    /\ is_large (fam ea) = true /\ ids ea = true /\ ids eb = true
    /\ (forall fd, sees s ea = Some fd -> link_keys_hold_uids fd)
    /\ (forall fd, sees s eb = Some fd -> link_keys_hold_uids fd)
    /\ em_copy s ea false None = Ok (s1, 5%N) /\ map uid (ents s1) = [1; 3; 5; 7]%N
    /\ em_copy s eb true None = Ok (s2, 3%N) /\ map uid (ents s2) = [1; 3; 3; 1]%N.
Proof. exact copy_large_nonvacuous. Qed.

(* non-vacuity: the history create rx, create tx, link establishes the invariant and well-formedness; on that state the
   hypotheses of the copy theorem hold and the copy succeeds *)
Example C20_nonvacuous :
  exists s ea s1,
    run s0 h_tem = Ok s /\ wf s /\ inv s false 1%N 4%N /\ get_ent false 1%N (ents s) = Some ea /\ is_large (fam ea) = false
    /\ (forall fd, sees s ea = Some fd -> link_keys_hold_uids fd)
    /\ em_copy s ea false None = Ok (s1, 7%N) /\ map uid (ents s1) = [1; 4; 7; 10]%N.
Proof. exact copy_nonvacuous. Qed.
