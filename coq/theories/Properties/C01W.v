(* C01 at world level (two workspaces, cross-workspace copies) — Model/WsX.v [world], [wstep], [copy_x].
   Only statements, each closed by [exact] and followed by Print Assumptions. *)
From GV Require Import Prelude.Base Model.WsX Model.WsXSpec Proofs.WsXWorld.

(* PARTIAL (SUFFICIENT side condition [wfresh_run]: no entity is created or copied under an identifier that still has a
   stale flat node in the receiving file, drawn identifiers are fresh): after ANY such two-workspace history, close + open of
   either workspace succeeds and yields its live tree (up to the order of children and of property-group blocks).
   Sufficient, not necessary (a re-use over a stale node with identical content is harmless and is rejected too); what is
   proved about its sharpness is one excluded witness (C01_world_reopen_refuted). *)
Theorem C01_wreopen_partial : forall ops i, wfresh_run ops winit = true ->
  let W := wrun ops winit in
  snd (wstep W (On i Reopen)) = Done /\
  tree_equiv (wmem (wsel i (fst (wstep W (On i Reopen))))) (wmem (wsel i W)).
Proof. exact wreopen_equiv. Qed.
Print Assumptions C01_wreopen_partial.

(* REFUTED without the side condition, and WITHOUT any caller-supplied identifier: copy O2 from A to B, remove the copy in
   B through its parent (its flat nodes stay), rename O2 in A, copy again: the identifiers are free in B's registries, so
   the copy keeps them, but B's file still holds the stale nodes; re-opening B shows the old name (witness [wops_stale]) *)
Definition C01_world_reopen_full : Prop :=
  forall ops, let W := wrun ops winit in
  tree_equiv (wmem (wb (fst (wstep W (On true Reopen))))) (wmem (wb W)).
Theorem C01_world_reopen_refuted : ~ C01_world_reopen_full.
Proof. exact C01_world_full_refuted. Qed.
Print Assumptions C01_world_reopen_refuted.

(* non-vacuity: a fresh and clean 16-step world history with three cross-workspace copies (identifiers kept / all re-drawn /
   partly re-drawn), a data removal and a removal through the parent + sweeps in B, re-opens of both workspaces; the side
   condition is what excludes the witness *)
Example C01W_nonvacuous :
  wfresh_run wops_demo winit = true /\
  map (fun n => snd (wstep (wrun (firstn n wops_demo) winit) (nth n wops_demo (On true Reopen)))) (seq 0 16)
  = [Done; Done; Done; Done; Done; Done; Done; Done; Done; Done; Done; Done; Done; Done; Done; Done] /\
  wfresh_run wops_stale winit = false.
Proof. split; [apply wops_demo_ok | split; [apply wops_demo_ok | exact wops_stale_not_fresh]]. Qed.
