(* C16 (drape models) — DrapeModelMerger preserves every input's prisms, layers and cell data.
   Only statements, each closed by [exact] and followed by Print Assumptions.

   Vocabulary (Model/MergeDrape.v): an input [i : dinp] has a prism table [dps i] (x, y, top : Z; first layer, layer
   count : nat), a layer table [dls i] (column = prism index, row : nat; bottom : Z) and CELL data [dds i];
   [gwf i] = canonical layout with at least two prisms, [gwf1] = the same with at least one prism, [dwf i] = CELL data
   with distinct labels and one value per cell.  [drape_merge ins] is DrapeModelMerger.merge_objects.
   Input t's prisms start at [poff ins t] = (prisms of the inputs before) + 2t in the output, its layers (= cells)
   at [loff ins t] = (layers of the inputs before) + 2t.  In the code the two running offsets carry crossed names:
   previous_prism (added to "First layer") is [loff], previous_layer (added to the layer's prism index) is [poff]. *)
From GV Require Import Prelude.Base Model.Merge Model.MergeDrape Proofs.MergeProofs Proofs.MergeDrapeProofs.

(* PARTIAL: merging two or more well-formed drape models succeeds, when every input has at least two prisms.
   Missing for the full property: valid drape models that consist of one prism. *)
Theorem C16D_merge_total_partial : forall ins,
  2 <= length ins -> Forall gwf ins -> Forall dwf ins -> exists o, drape_merge ins = Ok o.
Proof. exact drape_merge_total. Qed.
Print Assumptions C16D_merge_total_partial.

(* REFUTED: the same with "at least one prism" is false of the faithful model (IndexError; witness replayed on the
   implementation: corpus/C16/0002-drape-single-prism.json, finding drape-merge-single-prism-refused) *)
Theorem C16D_merge_total_refuted : ~ C16D_merge_total_full.
Proof. exact merge_total_refuted. Qed.
Print Assumptions C16D_merge_total_refuted.

(* create_object computes exactly the specified tables (spec_from: shifted inputs with two ghosts per gap) *)
Theorem C16D_code_meets_spec : forall ins,
  2 <= length ins -> Forall gwf ins -> drape_create ins = Ok (spec_from 0 0 ins).
Proof. exact drape_create_spec. Qed.
Print Assumptions C16D_code_meets_spec.

(* every input prism re-appears at poff + j with the same x, y, top and layer count; its first-layer index is shifted
   by that input's layer offset *)
Theorem C16D_prism_preserved : forall ins o, Forall gwf ins -> drape_merge ins = Ok o ->
  forall t i j p, nth_error ins t = Some i -> nth_error (dps i) j = Some p ->
  nth_error (oprisms o) (poff ins t + j)
  = Some {| px := px p; py := py p; ptop := ptop p; pfirst := pfirst p + loff ins t; pcount := pcount p |}.
Proof. exact m_prism. Qed.
Print Assumptions C16D_prism_preserved.

(* every input layer re-appears at loff + j with the same row and bottom; its column is shifted by that input's
   prism offset *)
Theorem C16D_layer_preserved : forall ins o, Forall gwf ins -> drape_merge ins = Ok o ->
  forall t i j l, nth_error ins t = Some i -> nth_error (dls i) j = Some l ->
  nth_error (olayers o) (loff ins t + j) = Some {| lcol := lcol l + poff ins t; lrow := lrow l; lbot := lbot l |}.
Proof. exact m_layer. Qed.
Print Assumptions C16D_layer_preserved.

(* ... so that each output prism still points at its own layers: the layers the output prism points at are the
   input prism's layers (same rows and bottoms, in order), and they name the output prism as their column *)
Theorem C16D_prism_owns_its_layers : forall ins o, Forall gwf ins -> drape_merge ins = Ok o ->
  forall t i j p, nth_error ins t = Some i -> nth_error (dps i) j = Some p ->
  let p' := shift_first (loff ins t) p in
  slice (olayers o) (pfirst p') (pcount p') = map (shift_col (poff ins t)) (slice (dls i) (pfirst p) (pcount p))
  /\ length (slice (dls i) (pfirst p) (pcount p)) = pcount p
  /\ 1 <= pcount p
  /\ Forall (fun l => lcol l = poff ins t + j) (slice (olayers o) (pfirst p') (pcount p')).
Proof. exact m_owns. Qed.
Print Assumptions C16D_prism_owns_its_layers.

(* exactly two ghost prisms, each with one flat layer of its own, sit between consecutive inputs: the mirror of the
   last prism of input t through the one before it, then the mirror of the first prism of input t+1 through its second
   ([ghost_point point mirror first-layer column]: x, y, top = 2 * point - mirror; count 1; layer row 0, bottom = top) *)
Theorem C16D_ghosts_between_inputs : forall ins o, Forall gwf ins -> drape_merge ins = Ok o ->
  forall t i i', nth_error ins t = Some i -> nth_error ins (S t) = Some i' ->
  exists front pprev plast p0 p1 back,
    dps i = front ++ [pprev; plast] /\ dps i' = p0 :: p1 :: back
    /\ let g := poff ins t + pcnt i in
       let gl := loff ins t + lcnt i in
       nth_error (oprisms o) g = Some (fst (ghost_point plast pprev gl g))
       /\ nth_error (olayers o) gl = Some (snd (ghost_point plast pprev gl g))
       /\ nth_error (oprisms o) (g + 1) = Some (fst (ghost_point p0 p1 (gl + 1) (g + 1)))
       /\ nth_error (olayers o) (gl + 1) = Some (snd (ghost_point p0 p1 (gl + 1) (g + 1))).
Proof. exact m_ghosts. Qed.
Print Assumptions C16D_ghosts_between_inputs.

(* n_prisms = sum + 2 (k - 1), n_layers = sum + 2 (k - 1)   (k >= 2, so the subtraction is exact) *)
Theorem C16D_counts : forall ins o, Forall gwf ins -> drape_merge ins = Ok o ->
  2 <= length ins
  /\ length (oprisms o) = sum_p ins + 2 * (length ins - 1)
  /\ length (olayers o) = sum_l ins + 2 * (length ins - 1).
Proof. exact m_counts. Qed.
Print Assumptions C16D_counts.

(* ... and nowhere else: every output prism (layer) is the image of an input prism (layer) or one of the two ghosts
   after an input that has a successor *)
Theorem C16D_prisms_complete : forall ins o, Forall gwf ins -> drape_merge ins = Ok o ->
  forall q, q < length (oprisms o) ->
  (exists t i j, nth_error ins t = Some i /\ j < pcnt i /\ q = poff ins t + j)
  \/ (exists t i e, nth_error ins t = Some i /\ S t < length ins /\ e < 2 /\ q = poff ins t + pcnt i + e).
Proof. exact m_prisms_complete. Qed.
Print Assumptions C16D_prisms_complete.

Theorem C16D_layers_complete : forall ins o, Forall gwf ins -> drape_merge ins = Ok o ->
  forall q, q < length (olayers o) ->
  (exists t i j, nth_error ins t = Some i /\ j < lcnt i /\ q = loff ins t + j)
  \/ (exists t i e, nth_error ins t = Some i /\ S t < length ins /\ e < 2 /\ q = loff ins t + lcnt i + e).
Proof. exact m_layers_complete. Qed.
Print Assumptions C16D_layers_complete.

(* the merged object is again a canonical drape model: every output prism, ghosts included, owns the layers it
   points at (first = number of layers before, count >= 1, their column = its index), and no layer is left over *)
Theorem C16D_output_canonical : forall ins o, Forall gwf ins -> drape_merge ins = Ok o ->
  layout_from 0 0 (oprisms o) (olayers o).
Proof. exact m_canonical. Qed.
Print Assumptions C16D_output_canonical.

(* merged cell data, after the re-ordering: every data set of every input is found under its own label in an array with
   one entry per output cell, and its values sit at the positions of its input's layers *)
Theorem C16D_data_placed : forall ins o, Forall gwf ins -> drape_merge ins = Ok o -> Forall dwf ins ->
  forall t i d, nth_error ins t = Some i -> In d (dds i) ->
  exists v, lookup (lbl0 d) (odata o) = Some v
         /\ length v = length (olayers o)
         /\ slice v (loff ins t) (lcnt i) = dvals d.
Proof. exact m_data_placed. Qed.
Print Assumptions C16D_data_placed.

(* no merged array is a renamed one; all are CELL arrays with one entry per output cell *)
Theorem C16D_data_labels : forall ins o, Forall gwf ins -> drape_merge ins = Ok o -> Forall dwf ins ->
  forall l v, lookup l (odata o) = Some v -> lren l = None /\ lcell l = true /\ length v = length (olayers o).
Proof. exact m_data_labels. Qed.
Print Assumptions C16D_data_labels.

(* the ghost cells hold the no-data value in every merged array *)
Theorem C16D_data_ghost_cells_blank : forall ins o, Forall gwf ins -> drape_merge ins = Ok o -> Forall dwf ins ->
  forall l v t i e, lookup l (odata o) = Some v ->
  nth_error ins t = Some i -> S t < length ins -> e < 2 ->
  nth_error v (loff ins t + lcnt i + e) = Some None.
Proof. exact m_data_ghost. Qed.
Print Assumptions C16D_data_ghost_cells_blank.

(* no-data over the cells of an input that lacks the data set *)
Theorem C16D_data_blank_elsewhere : forall ins o, Forall gwf ins -> drape_merge ins = Ok o -> Forall dwf ins ->
  forall l v t i, lookup l (odata o) = Some v ->
  nth_error ins t = Some i -> (forall d, In d (dds i) -> lbl0 d <> l) ->
  all_none (slice v (loff ins t) (lcnt i)) = true.
Proof. exact m_data_blank. Qed.
Print Assumptions C16D_data_blank_elsewhere.

(* non-vacuity: three well-formed inputs (the middle one without the data set of the others, the last one with a
   second data set); the merge succeeds, the offsets are the ones the theorems speak about *)
Definition ex_a : dinp :=
  {| dps := [ {| px := 0; py := 0; ptop := 10; pfirst := 0; pcount := 2 |}; {| px := 1; py := 0; ptop := 11; pfirst := 2; pcount := 1 |} ];
     dls := [ {| lcol := 0; lrow := 0; lbot := 5 |}; {| lcol := 0; lrow := 1; lbot := 3 |}; {| lcol := 1; lrow := 0; lbot := 4 |} ];
     dds := [ {| dname := 0; dtype := 0; dcell := true; dvals := [Some 1; Some 2; Some 3]%Z |} ] |}.
Definition ex_b : dinp :=
  {| dps := [ {| px := 5; py := 5; ptop := 20; pfirst := 0; pcount := 1 |}; {| px := 6; py := 5; ptop := 21; pfirst := 1; pcount := 1 |} ];
     dls := [ {| lcol := 0; lrow := 0; lbot := 15 |}; {| lcol := 1; lrow := 0; lbot := 14 |} ];
     dds := [] |}.
Definition ex_c : dinp :=
  {| dps := [ {| px := 9; py := 9; ptop := 30; pfirst := 0; pcount := 1 |}; {| px := 9; py := 8; ptop := 31; pfirst := 1; pcount := 2 |} ];
     dls := [ {| lcol := 0; lrow := 0; lbot := 25 |}; {| lcol := 1; lrow := 0; lbot := 24 |}; {| lcol := 1; lrow := 1; lbot := 23 |} ];
     dds := [ {| dname := 0; dtype := 0; dcell := true; dvals := [Some 4; None; Some 6]%Z |};
              {| dname := 1; dtype := 1; dcell := true; dvals := [Some 7; Some 8; Some 9]%Z |} ] |}.

Example C16D_nonvacuous :
  let ins := [ex_a; ex_b; ex_c] in
  Forall gwf ins /\ Forall dwf ins
  /\ poff ins 2 = 8 /\ loff ins 2 = 9
  /\ exists o, drape_merge ins = Ok o
       /\ map pfirst (oprisms o) = [0; 2; 3; 4; 5; 6; 7; 8; 9; 10]
       /\ map lcol (olayers o) = [0; 0; 1; 2; 3; 4; 5; 6; 7; 8; 9; 9]
       /\ drape_children o = [ (0, true, [Some 1; Some 2; Some 3; None; None; None; None; None; None; Some 4; None; Some 6]%Z);
                               (1, true, [None; None; None; None; None; None; None; None; None; Some 7; Some 8; Some 9]%Z) ].
Proof.
  split; [repeat constructor; apply gwfb_ok; reflexivity|].
  split.
  { repeat constructor; simpl; try (intros [H|H]; try discriminate H; try contradiction); try tauto. }
  split; [reflexivity|]. split; [reflexivity|].
  eexists. split; [vm_compute; reflexivity|]. repeat split; reflexivity.
Qed.

(* the hypotheses of the refuted statement are met by its witness (one prism with two layers, then three prisms) *)
Example C16D_witness_is_valid :
  Forall gwf1 single_prism_witness /\ Forall dwf single_prism_witness /\ drape_merge single_prism_witness = Err IndexError.
Proof.
  split; [repeat constructor; apply layout_fromb_ok; reflexivity|]. split; [repeat constructor | reflexivity].
Qed.

(* the theorems quantify over lists, so the same object may occur more than once in the list that is merged:
   [a; b; a] is well-formed and a's data set is placed once per occurrence *)
Example C16D_repeated_object_nonvacuous :
  let ins := [ex_a; ex_b; ex_a] in
  Forall gwf ins /\ Forall dwf ins
  /\ exists o, drape_merge ins = Ok o
       /\ drape_children o = [ (0, true, [Some 1; Some 2; Some 3; None; None; None; None; None; None; Some 1; Some 2; Some 3]%Z) ].
Proof.
  split; [repeat constructor; apply gwfb_ok; reflexivity|].
  split.
  { repeat constructor; simpl; try (intros [H|H]; try discriminate H; try contradiction); try tauto. }
  eexists. split; [vm_compute; reflexivity | reflexivity].
Qed.
