(* C07 — Data stay aligned with the geometry they are attached to.
   Statements only (closed by [exact]/short glue), each followed by Print Assumptions.
   Model: Model/Geometry.v (flags [as_is] = pinned tree, [repaired] = tree with fixes/C07-*.patch);
   vocabulary ([selection], [sel_kid], [closed], [vmask], [touches], [op_safe], ...) is defined in Proofs/GeometryProofs.v.

   Reading guide.  [selection vm cm o o'] says: o' is o restricted to the vertices kept by the mask vm and the cells
   kept by cm (cm only keeps cells all of whose vertices are kept), vertices and cells in their old order, cells
   renumbered by [rank vm], every vertex child filtered by vm, every cell child by cm, other children untouched.
   The C07_selection_* theorems spell out what that means element by element; the operation theorems show that
   remove_vertices / remove_cells / masked copy produce such a selection for the expected masks.                   *)
From GV Require Import Prelude.Base Model.Geometry Proofs.GeometryProofs.

(* ------------------------------------------------------------------ what a selection guarantees *)

(* lengths: exactly one data entry per vertex / cell, cells reference existing vertices *)
Theorem C07_selection_consistent : forall vm cm o o', wf o -> selection vm cm o o' -> wf o'.
Proof. exact selection_wf. Qed.
Print Assumptions C07_selection_consistent.

Theorem C07_selection_counts : forall vm cm o o', selection vm cm o o' ->
  length (verts o') = count vm /\ length (cells o') = count cm.
Proof. intros vm cm o o' H. split; [eapply selection_vertex_count|eapply selection_cell_count]; eauto. Qed.
Print Assumptions C07_selection_counts.

(* each surviving vertex keeps its coordinates and its value in every vertex child *)
Theorem C07_selection_vertex_kept : forall vm cm o o' i,
  wf o -> selection vm cm o o' -> nth_error vm i = Some true ->
  nth_error (verts o') (rank vm i) = nth_error (verts o) i /\
  forall p k v, nth_error (kids o) p = Some k -> kassoc k = AVertex -> kvals k = Some v ->
    exists k' v', nth_error (kids o') p = Some k' /\ kid_id k' = kid_id k /\ kassoc k' = AVertex /\ kvals k' = Some v' /\
                  nth_error v' (rank vm i) = nth_error v i.
Proof. exact selection_vertex_kept. Qed.
Print Assumptions C07_selection_vertex_kept.

(* ... and there are no other vertices (positions are distinct: rank is injective on kept indices) *)
Theorem C07_selection_vertex_from : forall vm cm o o' j x,
  selection vm cm o o' -> nth_error (verts o') j = Some x ->
  exists i, nth_error vm i = Some true /\ rank vm i = j /\ nth_error (verts o) i = Some x.
Proof. exact selection_vertex_from. Qed.
Print Assumptions C07_selection_vertex_from.

Theorem C07_rank_injective : forall m i j,
  nth_error m i = Some true -> nth_error m j = Some true -> rank m i = rank m j -> i = j.
Proof. exact rank_inj. Qed.
Print Assumptions C07_rank_injective.

(* each surviving cell connects the same coordinates as before, references existing vertices, keeps its cell data *)
Theorem C07_selection_cell_kept : forall vm cm o o' j c,
  wf o -> selection vm cm o o' -> nth_error cm j = Some true -> nth_error (cells o) j = Some c ->
  exists c', nth_error (cells o') (rank cm j) = Some c' /\ length c' = length c /\
             map (nth_error (verts o')) c' = map (nth_error (verts o)) c /\
             cell_ok (length (verts o')) c' /\
             forall p k v, nth_error (kids o) p = Some k -> kassoc k = ACell -> kvals k = Some v ->
               exists k' v', nth_error (kids o') p = Some k' /\ kid_id k' = kid_id k /\ kvals k' = Some v' /\
                             nth_error v' (rank cm j) = nth_error v j.
Proof. exact selection_cell_kept. Qed.
Print Assumptions C07_selection_cell_kept.

(* ... and every cell of the result is such a cell *)
Theorem C07_selection_cell_from : forall vm cm o o' q c',
  selection vm cm o o' -> nth_error (cells o') q = Some c' ->
  exists j c, nth_error cm j = Some true /\ rank cm j = q /\ nth_error (cells o) j = Some c /\ c' = map (rank vm) c /\
              map (nth_error (verts o')) c' = map (nth_error (verts o)) c.
Proof. exact selection_cell_from. Qed.
Print Assumptions C07_selection_cell_from.

(* ------------------------------------------------------------------ remove_vertices (the rv_ theorems of DESIGN 5), any flags, Points and cell objects,
   any index list: unsorted, repeated, negative (wrapping) indices *)

(* rv_lengths *)
Theorem C07_rv_lengths : forall fl o ix o', wf o -> remove_vertices fl o ix = Done o' -> wf o'.
Proof.
  intros fl o ix o' W H. destruct (remove_vertices_done fl o ix o' W H) as [I' [_ S]]. eapply selection_wf; eauto.
Qed.
Print Assumptions C07_rv_lengths.

(* the result is the selection of the vertices whose index is not listed and of the cells using only those *)
Theorem C07_rv_is_selection : forall fl o ix o', wf o -> remove_vertices fl o ix = Done o' ->
  exists I', norm_all (length (verts o)) ix = Some I' /\
             selection (vmask o I') (cell_mask (vmask o I') (cells o)) o o'.
Proof. exact remove_vertices_done. Qed.
Print Assumptions C07_rv_is_selection.

(* rv_values: a vertex whose index is not removed keeps coordinates and values; the number of vertices is the number kept *)
Theorem C07_rv_values : forall fl o ix o', wf o -> remove_vertices fl o ix = Done o' ->
  exists I', norm_all (length (verts o)) ix = Some I' /\
    length (verts o') = count (vmask o I') /\
    forall i, i < length (verts o) -> ~ In i I' ->
      nth_error (verts o') (rank (vmask o I') i) = nth_error (verts o) i /\
      forall p k v, nth_error (kids o) p = Some k -> kassoc k = AVertex -> kvals k = Some v ->
        exists k' v', nth_error (kids o') p = Some k' /\ kid_id k' = kid_id k /\ kassoc k' = AVertex /\ kvals k' = Some v' /\
                      nth_error v' (rank (vmask o I') i) = nth_error v i.
Proof.
  intros fl o ix o' W H. destruct (remove_vertices_done fl o ix o' W H) as [I' [HN S]].
  exists I'. split; [exact HN|]. split; [eapply selection_vertex_count; eauto|].
  intros i Hi Hn. eapply selection_vertex_kept; eauto. apply vmask_true. auto.
Qed.
Print Assumptions C07_rv_values.

(* rv_cells: every cell of the result comes from a cell that touches no removed vertex, joins the same coordinates, is in range *)
Theorem C07_rv_cells : forall fl o ix o' q c', wf o -> remove_vertices fl o ix = Done o' ->
  nth_error (cells o') q = Some c' ->
  exists I' j c, norm_all (length (verts o)) ix = Some I' /\
    nth_error (cells o) j = Some c /\ Forall (fun v => ~ In v I') c /\
    map (nth_error (verts o')) c' = map (nth_error (verts o)) c /\
    cell_ok (length (verts o')) c'.
Proof.
  intros fl o ix o' q c' W H Hq. destruct (remove_vertices_done fl o ix o' W H) as [I' [HN S]].
  destruct (selection_cell_from _ _ _ _ _ _ S Hq) as [j [c (H1 & H2 & H3 & H4 & H5)]].
  exists I', j, c. split; [exact HN|]. split; [exact H3|]. split; [apply (rv_cell_kept o I' j c W H3); exact H1|].
  split; [exact H5|].
  pose proof (selection_wf _ _ _ _ W S) as (Wc' & _ & _). rewrite Forall_forall in Wc'.
  apply Wc'. eapply nth_error_In; eauto.
Qed.
Print Assumptions C07_rv_cells.

(* rv_cells_complete: every cell touching no removed vertex survives, at the position given by the number of surviving
   cells before it (hence exactly once and in order), with the same coordinates and its cell data; the cell count is
   the number of such cells *)
Theorem C07_rv_cells_complete : forall fl o ix o', wf o -> remove_vertices fl o ix = Done o' ->
  exists I', norm_all (length (verts o)) ix = Some I' /\
    let cm := cell_mask (vmask o I') (cells o) in
    length (cells o') = count cm /\
    forall j c, nth_error (cells o) j = Some c -> Forall (fun v => ~ In v I') c ->
      exists c', nth_error (cells o') (rank cm j) = Some c' /\ length c' = length c /\
                 map (nth_error (verts o')) c' = map (nth_error (verts o)) c /\
                 cell_ok (length (verts o')) c' /\
                 forall p k v, nth_error (kids o) p = Some k -> kassoc k = ACell -> kvals k = Some v ->
                   exists k' v', nth_error (kids o') p = Some k' /\ kid_id k' = kid_id k /\ kvals k' = Some v' /\
                                 nth_error v' (rank cm j) = nth_error v j.
Proof.
  intros fl o ix o' W H. destruct (remove_vertices_done fl o ix o' W H) as [I' [HN S]].
  exists I'. split; [exact HN|]. cbv zeta. split; [eapply selection_cell_count; eauto|].
  intros j c Hc Hf. eapply selection_cell_kept; eauto. apply (rv_cell_kept o I' j c W Hc). exact Hf.
Qed.
Print Assumptions C07_rv_cells_complete.

(* ------------------------------------------------------------------ remove_cells and the masked copy are selections too *)
Theorem C07_remove_cells_is_selection : forall fl o ix o', wf o -> remove_cells fl o ix = Done o' ->
  exists I', norm_all (length (cells o)) ix = Some I' /\
             selection (repeat true (length (verts o))) (keep_mask (length (cells o)) I') o o'.
Proof. exact remove_cells_selection. Qed.
Print Assumptions C07_remove_cells_is_selection.

Theorem C07_masked_copy_is_selection : forall fl o ovm ocm o',
  wf o -> (ovm = None \/ ocm = None) -> cmask_ok o ocm ->
  masked_copy fl o ovm ocm = Done o' ->
  selection (mask_or_all ovm (length (verts o))) (copy_cmask o (mask_or_all ovm (length (verts o))) ocm) o o'.
Proof. exact masked_copy_done. Qed.
Print Assumptions C07_masked_copy_is_selection.

(* Data.copy(parent, mask) of one data child onto any parent with n vertices / cells (the source's own parent or another object):
   fewer elements than the array: the kept entries compacted, then the target's pad / reject rule; at least as many: every
   kept element keeps its value AT ITS OWN INDEX, the others are the no-data value (tail padded for a larger target) *)
Theorem C07_data_copy_any_parent : forall fl n m k k' v, kvals k = Some v -> data_copy fl n (Some m) k = Ok k' ->
  length m = length v /\
  (n < length v -> exists v'', format_length n (kkind k) (kassoc k) (select m v) = Ok v'' /\ kvals k' = Some v'') /\
  (length v <= n -> exists tail, kvals k' = Some (fill_masked (ndv (kkind k)) m v ++ tail) /\
     forall i b x, nth_error m i = Some b -> nth_error v i = Some x ->
       nth_error (fill_masked (ndv (kkind k)) m v ++ tail) i = Some (if b then x else ndv (kkind k))).
Proof. exact data_copy_any_parent. Qed.
Print Assumptions C07_data_copy_any_parent.

(* ------------------------------------------------------------------ pad_reject *)
Theorem C07_pad_reject : forall n k a v,
  (k <> KText -> length v < n -> format_length n k a v = Ok (v ++ repeat (ndv k) (n - length v))) /\
  (length v = n -> format_length n k a v = Ok v) /\
  (n < length v -> a <> AObject -> format_length n k a v = Err ValueError) /\
  (length v < n -> format_length n KText a v = Ok v).       (* text data are stored unpadded *)
Proof.
  intros n k a v. split; [apply format_length_pad|]. split; [apply format_length_eq|].
  split; [apply format_length_reject|apply format_length_text_short].
Qed.
Print Assumptions C07_pad_reject.

(* the values setter stores exactly format_length's answer in the child and nothing on refusal *)
Theorem C07_set_values : forall o id v p k,
  nth_error (kids o) p = Some k -> kid_id k = id ->
  (forall q k0, q < p -> nth_error (kids o) q = Some k0 -> kid_id k0 <> id) ->
  set_values o id v =
    match format_length (n_values o (kassoc k)) (kkind k) (kassoc k) v with
    | Ok v' => Done (set_kids o (firstn p (kids o) ++ set_vals k (Some v') :: skipn (S p) (kids o)))
    | Err e => Failed e o
    end.
Proof. exact set_values_at. Qed.
Print Assumptions C07_set_values.

(* the witness of the refutations carries no text data *)
Example witness_text_safe : text_safe_rv witness_obj [0%Z].
Proof. left. split; intros k [<-|[]] _; discriminate. Qed.

(* ------------------------------------------------------------------ failing operations *)
(* full-strength statement: a failing operation leaves the object as it was (a refused add_data may leave a value-less child) *)
Definition C07_atomic (fl : flags) : Prop :=
  forall o p e o', wf o -> copy_args_ok o p -> step fl o p = Some (Failed e o') -> unchanged_or_stub o o'.

(* REPAIRED code (the checked tree), objects and operations without per-element text data: every failing operation leaves the
   object as it was.  Remaining hypotheses are about the request itself: a copy gets a vertex mask or a cell mask (no
   cell mask on Points), add_data does not add text data *)
Theorem C07_atomic_repaired : forall o p e o',
  wf o -> no_text_kids o -> op_plain o p -> step repaired o p = Some (Failed e o') -> unchanged_or_stub o o'.
Proof.
  intros o p e o' W HT HP H. eapply step_failed; eauto. apply op_safe_repaired. apply plain_args_ok; assumption.
Qed.
Print Assumptions C07_atomic_repaired.

(* PARTIAL (repaired code, text data allowed): the same under [copy_args_ok], which in addition excludes the three open
   text-data findings: text arrays shorter than the element count, removals that leave a text child without entries *)
Theorem C07_atomic_repaired_partial : C07_atomic repaired.
Proof.
  intros o p e o' W HC H. eapply step_failed; eauto. apply op_safe_repaired. exact HC.
Qed.
Print Assumptions C07_atomic_repaired_partial.

(* REFUTED for the pinned tree: removing vertex 0, used by no cell, from a 4-vertex curve raises after the vertices
   and vertex data were replaced; the cells are left un-renumbered (witness replayed on the implementation) *)
Theorem C07_atomic_refuted : ~ C07_atomic as_is.
Proof.
  intros A. pose proof (A witness_obj (RemoveVertices [0%Z]) _ _ witness_wf witness_text_safe witness_as_is) as (_ & Hv & _).
  simpl in Hv. discriminate.
Qed.
Print Assumptions C07_atomic_refuted.

(* PARTIAL for the pinned tree: atomicity holds for every operation that meets [op_safe as_is]: vertex removals that
   touch at least one cell (or Points), on objects whose vertex/cell children all have values *)
Theorem C07_atomic_as_is_partial : forall o p e o',
  wf o -> op_safe as_is o p -> step as_is o p = Some (Failed e o') -> unchanged_or_stub o o'.
Proof. intros o p e o'. apply step_failed. Qed.
Print Assumptions C07_atomic_as_is_partial.

(* ------------------------------------------------------------------ histories *)
(* consistency is an invariant of every history of the repaired code that involves no per-element text data (successful or
   failing operations, re-opens); the history also never acquires text data *)
Theorem C07_history_consistent_repaired : forall ops o, wf o -> no_text_kids o -> plain_ok o ops ->
  wf (run repaired o ops) /\ no_text_kids (run repaired o ops).
Proof. exact run_wf_repaired_no_text. Qed.
Print Assumptions C07_history_consistent_repaired.

(* PARTIAL (text data allowed): under [copies_ok] = [copy_args_ok] at every step (excludes the open text-data findings) *)
Theorem C07_history_consistent_repaired_partial : forall ops o, wf o -> copies_ok o ops -> wf (run repaired o ops).
Proof. exact run_wf_repaired. Qed.
Print Assumptions C07_history_consistent_repaired_partial.

(* REFUTED for the pinned tree: one valid removal makes a cell reference a missing vertex *)
Theorem C07_history_consistent_refuted : ~ (forall ops o, wf o -> copies_ok o ops -> wf (run as_is o ops)).
Proof.
  intros A. assert (C : copies_ok witness_obj [RemoveVertices [0%Z]]) by (simpl; split; [exact witness_text_safe|exact I]).
  pose proof (A [RemoveVertices [0%Z]] witness_obj witness_wf C) as (Wc & _).
  vm_compute in Wc. inversion Wc as [|? ? _ Wc']. inversion Wc' as [|? ? Hc _].
  inversion Hc as [|? ? _ Hc']. inversion Hc' as [|? ? Hlt _]. lia.
Qed.
Print Assumptions C07_history_consistent_refuted.

(* PARTIAL for the pinned tree: every single step that meets the side condition preserves consistency, hence so do
   histories all of whose steps meet it *)
Theorem C07_step_consistent_as_is : forall o p, wf o -> op_safe as_is o p -> wf (step_state as_is o p).
Proof. intros o p. apply step_wf. Qed.
Print Assumptions C07_step_consistent_as_is.

Theorem C07_history_consistent_as_is_partial : forall ops o, wf o -> run_ok as_is o ops -> wf (run as_is o ops).
Proof. exact (run_wf as_is). Qed.
Print Assumptions C07_history_consistent_as_is_partial.

(* ------------------------------------------------------------------ non-vacuity *)
(* a consistent curve with an unreferenced vertex, vertex and cell data; removing vertices {3, 1} (unsorted, one repeated,
   one given negatively) succeeds on both versions of the code, drops the two cells touching them and renumbers the rest *)
Definition ex_obj : obj :=
  {| ok := OCurve; verts := [(0,0,0); (1,0,0); (2,0,0); (3,0,0); (4,0,0)]%Z; cells := [[0;2];[1;2];[2;4];[3;4]];
     kids := [{| kid_id := 1; kassoc := AVertex; kkind := KFloat; kvals := Some [Some 10; Some 11; None; Some 13; Some 14]%Z |};
              {| kid_id := 2; kassoc := ACell; kkind := KInt; kvals := Some [Some 20; Some 21; Some 22; Some 23]%Z |}] |}.

Example C07_nonvacuous :
  wf ex_obj /\ op_safe as_is ex_obj (RemoveVertices [3; -4; 3]%Z) /\ copies_ok ex_obj [RemoveVertices [3; -4; 3]%Z] /\
  remove_vertices as_is ex_obj [3; -4; 3]%Z =
    Done {| ok := OCurve; verts := [(0,0,0); (2,0,0); (4,0,0)]%Z; cells := [[0;1];[1;2]];
            kids := [{| kid_id := 1; kassoc := AVertex; kkind := KFloat; kvals := Some [Some 10; None; Some 14]%Z |};
                     {| kid_id := 2; kassoc := ACell; kkind := KInt; kvals := Some [Some 20; Some 22]%Z |}] |} /\
  remove_vertices repaired ex_obj [3; -4; 3]%Z = remove_vertices as_is ex_obj [3; -4; 3]%Z.
Proof.
  split; [|split; [|split; [|split]]].
  - split; [|split]; [repeat constructor|repeat constructor|discriminate].
  - simpl. split; [|split].
    + right. split; intros k [<-|[<-|[]]]; simpl; discriminate.
    + right. right. intros I' HN. vm_compute in HN. injection HN as <-.
      exists [1;2], 1. simpl. auto.
    + left. split; intros k [<-|[<-|[]]] _; discriminate.
  - simpl. split; [|exact I]. left. split; intros k [<-|[<-|[]]] _; discriminate.
  - vm_compute. reflexivity.
  - vm_compute. reflexivity.
Qed.

(* the hypotheses of the text-free theorems are met by the example object and a history with a removal, an assignment, a copy *)
Example C07_plain_nonvacuous :
  no_text_kids ex_obj /\
  plain_ok ex_obj [RemoveVertices [3; -4; 3]%Z; SetValues 1 [Some 1%Z]; MaskedCopy (Some [true; false; true]) None; Reopen [2; 1]].
Proof.
  split; [repeat constructor; discriminate|]. simpl. repeat split; auto; intros; discriminate.
Qed.

(* data copied onto another object of the same size with a non-prefix mask: kept values stay at indices 1, 3, 4 *)
Example C07_data_copy_other_parent :
  data_copy_obs repaired 6 [false; true; false; true; true; false]
    {| kid_id := 1; kassoc := AVertex; kkind := KFloat; kvals := Some [Some 10; Some 11; Some 12; Some 13; Some 14; Some 15]%Z |}
  = Ok (Some [None; Some 11; None; Some 13; Some 14; None]%Z).
Proof. vm_compute. reflexivity. Qed.

(* the refuted statements' hypotheses are met by the witness (so the refutation is not about an ill-formed input) *)
Example C07_witness_consistent : wf witness_obj /\ copy_args_ok witness_obj (RemoveVertices [0%Z]).
Proof. split; [exact witness_wf|exact witness_text_safe]. Qed.

(* a failing operation exists for the repaired code too (so C07_atomic_repaired is not vacuous): out-of-range index *)
Example C07_repaired_failure :
  step repaired ex_obj (RemoveVertices [7%Z]) = Some (Failed ValueError ex_obj) /\
  step repaired ex_obj (SetValues 1 [Some 1; Some 2; Some 3; Some 4; Some 5; Some 6]%Z) = Some (Failed ValueError ex_obj).
Proof. split; vm_compute; reflexivity. Qed.
