(* C07 — Data stay aligned with the geometry they are attached to. *)
From GV Require Import Prelude.Base Model.Geometry Proofs.GeometryProofs.

Theorem C07_select_length : forall A (m : list bool) (l : list A),
  length m = length l -> length (select m l) = count m.
Proof. intros A. exact (@count_select_length A). Qed.
Print Assumptions C07_select_length.
