(* C05 — placeholder while the proofs are being written *)
From GV Require Import Prelude.Base Model.PGroups Model.Removal.
From GVgen Require Import C05Cfg.

Theorem C05_refused_changes_nothing : forall c w e f,
  adel (E w e) = false -> remove_entity c (S f) w e = (w, Refused).
Proof. intros c w e f H. simpl. rewrite H. reflexivity. Qed.
Print Assumptions C05_refused_changes_nothing.
