(* C05 — Deletion removes exactly the entity, its descendants and all references to them; refused when allow_delete is off.
   Only statements, each closed by [exact] (short glue allowed) and followed by Print Assumptions.

   [run c init h] is the state after history h (any list of create / add data / property group / allow_delete /
   remove through workspace / remove through parent / drop references / listing getter / lookup operations);
   every theorem quantified over h holds after ALL histories.  [c : cfg] says which loops iterate over a copy;
   [cur] (generated/C05Cfg.v) is what the checked tree does, read off its source on every run.                     *)
From GV Require Import Prelude.Base Model.PGroups Model.Removal.
From GV Require Import Proofs.PGroupsProofs Proofs.RemovalProofs Proofs.RemovalGroups Proofs.RemovalTotal
                       Proofs.RemovalFile Proofs.RemovalWitness Proofs.RemovalListing Proofs.RemovalFpg.
From GVgen Require Import C05Cfg.

(* ------------------------------------------------------------------------------------------------------------------
   0. The checked tree has the repairs (remove_recursively and remove_data_from_groups iterate over a copy, the
      property-group listing survives dead groups).  Fails to compile on a tree that lacks one of them.            *)
Theorem C05_checked_tree_is_repaired : cur = repaired.
Proof. reflexivity. Qed.
Print Assumptions C05_checked_tree_is_repaired.

(* ------------------------------------------------------------------------------------------------------------------
   1. Invariant of all histories: parents/children agree, children lists have no repeats, identifiers grow downwards,
      property groups are children of their object, have distinct identifiers, list each member once, are never
      empty and list only data created under their object.                                                          *)
Theorem C05_reachable_states_well_formed : forall c h, wf (run c init h) /\ pginv (run c init h).
Proof. exact reachable_inv. Qed.
Print Assumptions C05_reachable_states_well_formed.

(* ------------------------------------------------------------------------------------------------------------------
   2. remove_exact (tree level, any loop variant): after ws.remove_entity(e) succeeded, an entity (other than a
      property group) is attached to the root iff it was and is not in the subtree of e; every surviving entity other
      than e's parent has exactly the record it had (children, property groups, flags); the parent keeps its other
      children, in order.                                                                                            *)
Theorem C05_remove_exact : forall c h e w',
  let w := run c init h in
  step c w (ORemoveWs e) = (w', Ok) ->
  let p := par (E w e) in
  (forall x, ekind (E w x) <> KPG -> (attachedb w' x = true <-> attachedb w x = true /\ ~ desc w e x))
  /\ (forall x, attachedb w' x = true -> x <> p -> E w' x = E w x)
  /\ (forall x, ekind (E w x) <> KPG -> (In x (ch (E w' p)) <-> In x (ch (E w p)) /\ x <> e))
  /\ sub (ch (E w' p)) (ch (E w p)).
Proof. exact remove_exact. Qed.
Print Assumptions C05_remove_exact.

(* 3. file level, with the repaired remove_recursively: the flat containers lose exactly the nodes of the subtree *)
Theorem C05_ws_removal_file_exact : forall c h e w',
  snap_ch c = true ->
  let w := run c init h in
  step c w (ORemoveWs e) = (w', Ok) -> ekind (E w e) <> KPG ->
  (forall x, ekind (E w x) <> KPG -> (In x (flat w') <-> In x (flat w) /\ ~ desc w e x))
  /\ sub (flat w') (flat w) /\ sub (links w') (links w).
Proof. exact ws_removal_file_exact. Qed.
Print Assumptions C05_ws_removal_file_exact.

Theorem C05_ws_removal_file_exact_checked_tree : ws_file_exact_full cur.
Proof. exact (ws_file_exact_repaired cur eq_refl). Qed.
Print Assumptions C05_ws_removal_file_exact_checked_tree.

(* REFUTED for the pre-repair loop (`for child in entity.children` while ObjectBase.remove_children shrinks the list):
   object with data children a,b,c,d -> the nodes of b and d stay.  Kept as the record of the repaired defect. *)
Theorem C05_old_rec_refuted : forall c, snap_ch c = false -> ~ ws_file_exact_full c.
Proof. exact old_rec_refuted. Qed.
Print Assumptions C05_old_rec_refuted.

(* REFUTED, every variant: removal through the parent leaves the node of e in its flat container (open finding
   via-parent-leaves-flat-node); it goes only after the caller dropped its references AND a listing getter ran. *)
Theorem C05_file_exact_via_parent_refuted : forall c, ~ file_exact_via_parent_full c.
Proof. exact file_exact_via_parent_refuted. Qed.
Print Assumptions C05_file_exact_via_parent_refuted.

(* ------------------------------------------------------------------------------------------------------------------
   4. no_dangling: after a data set is removed (either entry point) no property group of any object lists it.
      Full statement: holds for the snapshot loop, is false for the pinned loop; for the pinned loop the exact
      condition is [no_skip] (no group that becomes empty is immediately followed by a group listing the data).     *)
Theorem C05_no_dangling_repaired : forall c, snap_pg c = true -> no_dangling_full c.
Proof. exact no_dangling_repaired. Qed.
Print Assumptions C05_no_dangling_repaired.

Theorem C05_no_dangling_checked_tree : no_dangling_full cur.
Proof. exact (no_dangling_repaired cur eq_refl). Qed.
Print Assumptions C05_no_dangling_checked_tree.

Theorem C05_no_dangling_refuted : ~ no_dangling_full pinned.
Proof. exact no_dangling_refuted. Qed.
Print Assumptions C05_no_dangling_refuted.

Theorem C05_no_dangling_partial : forall c h e entry w',
  let w := run c init h in
  ekind (E w e) = KData -> entry = ORemoveWs e \/ entry = ORemoveParent e ->
  step c w entry = (w', Ok) ->
  snap_pg c = true \/ no_skip e (pgs (E w (par (E w e)))) = true ->
  forall o g l, In (g, l) (pgs (E w' o)) -> ~ In e l.
Proof. exact no_dangling_side. Qed.
Print Assumptions C05_no_dangling_partial.

Theorem C05_no_dangling_iff : forall c h e entry w',
  snap_pg c = false ->
  let w := run c init h in
  ekind (E w e) = KData -> entry = ORemoveWs e \/ entry = ORemoveParent e ->
  step c w entry = (w', Ok) ->
  dangling e (pgs (E w' (par (E w e)))) = negb (no_skip e (pgs (E w (par (E w e))))).
Proof. exact no_dangling_exact. Qed.
Print Assumptions C05_no_dangling_iff.

(* the list-level content of the above: what the two loops compute on any well-formed group list *)
Theorem C05_pinned_loop_characterised : forall d gs, grp_ok gs ->
  dangling d (scrub d gs) = negb (no_skip d gs) /\ (no_skip d gs = true -> scrub d gs = scrub_spec d gs).
Proof. intros d gs OK. split; [apply scrub_dangling_iff; exact OK | apply scrub_eq_spec; exact OK]. Qed.
Print Assumptions C05_pinned_loop_characterised.

Theorem C05_snapshot_loop_meets_spec : forall d gs, NoDup (map fst gs) -> scrub_snap d gs = scrub_spec d gs.
Proof. exact scrub_snap_eq_spec. Qed.
Print Assumptions C05_snapshot_loop_meets_spec.

(* the specification removes exactly d: every group keeps its other members in order, emptied groups disappear *)
Theorem C05_spec_exact : forall d gs g l,
  (In (g, l) (scrub_spec d gs) -> exists l0, In (g, l0) gs /\ l = remove_first d l0 /\ l <> [])
  /\ (In (g, l) gs -> remove_first d l <> [] -> In (g, remove_first d l) (scrub_spec d gs)).
Proof. intros d gs g l. split; [apply spec_members | apply spec_keeps]. Qed.
Print Assumptions C05_spec_exact.

(* the iteration bound of the index-stepping loop is never what stops it *)
Theorem C05_loop_bound_irrelevant : forall k m d gs i,
  length gs <= i + k -> scrub_loop (k + m) d gs i = scrub_loop k d gs i.
Proof. intros k m d gs i. apply scrub_loop_fuel. Qed.
Print Assumptions C05_loop_bound_irrelevant.

(* ------------------------------------------------------------------------------------------------------------------
   5. refusal: allow_delete off -> UserWarning, and the state is literally unchanged                                 *)
Theorem C05_refused_changes_nothing : forall c w e,
  attachedb w e = true -> e <> 0 -> adel (E w e) = false -> step c w (ORemoveWs e) = (w, Refused).
Proof. exact refused_changes_nothing. Qed.
Print Assumptions C05_refused_changes_nothing.

(* recorded finding refused-midway-partial-removal: a protected DESCENDANT makes the request fail after part of the
   subtree is gone (group 1 with objects 2 and 3, 3 protected: node 2 is deleted, then UserWarning) *)
Theorem C05_protected_descendant_partial_effect :
  forall c, snd (step c (run c init h_protected) (ORemoveWs 1)) = Refused
       /\ flat (run c init h_protected) = [0; 1; 2; 3]
       /\ flat (fst (step c (run c init h_protected) (ORemoveWs 1))) = [0; 1; 3].
Proof. exact protected_descendant_partial_effect. Qed.
Print Assumptions C05_protected_descendant_partial_effect.

(* ------------------------------------------------------------------------------------------------------------------
   6. survivors usable: in every reachable state a removal of an attached entity through the workspace ends with
      Ok or Refused (never with an exhausted bound or an error), with Ok when nothing below it is protected; removal
      through the parent always succeeds.  (Copy of a survivor: compared with the implementation on every case,
      copy_ok in Model/Removal.v; with the snapshot loop no stale member can arise, theorem 4.)                      *)
Theorem C05_survivors_removal_total : forall c h x,
  let w := run c init h in
  attachedb w x = true -> x <> 0 ->
  (snd (step c w (ORemoveWs x)) = Ok \/ snd (step c w (ORemoveWs x)) = Refused)
  /\ ((forall y, desc w x y -> adel (E w y) = true) -> snd (step c w (ORemoveWs x)) = Ok)
  /\ snd (step c w (ORemoveParent x)) = Ok.
Proof. exact removal_total. Qed.
Print Assumptions C05_survivors_removal_total.

(* ------------------------------------------------------------------------------------------------------------------
   7. listings and look-ups once the caller has dropped its references (ODrop = forget what is no longer attached +
      gc.collect()).  [listed w k] is what ws.groups / objects / data / property_groups return (live referents of that
      registry); OLookup is get_entity(uid) (names are looked up through the same registries).
      In EVERY state: whatever is not attached to the root is, after ODrop, neither referenced, nor found, nor listed.
      DEFINITIONAL (audit 2, A11): this holds by construction of the model -- ODrop SETS held := filter attachedb,
      OLookup answers Found only on held, [listed] filters held.  That "no internal strong reference keeps an unattached
      entity alive" is the liveness convention of Model/Removal.v (header), tied to the code by the correspondence only
      (the driver drops its references and collects; listings and look-ups are compared after every operation).  The PROVED
      content for this clause is C05_removed_subtree_unattached below: a completed removal leaves nothing of the subtree
      attached; this theorem merely composes it with the convention (C05_removed_not_yielded). *)
Theorem C05_not_attached_not_yielded : forall c w x,
  attachedb w x = false ->
  let w1 := fst (step c w ODrop) in
  ~ In x (held w1)
  /\ snd (step c w1 (OLookup x)) <> Found
  /\ forall k k', ~ In x (listed (fst (step c w1 (OList k))) k').
Proof. exact not_attached_not_yielded. Qed.
Print Assumptions C05_not_attached_not_yielded.

(* after a completed removal through EITHER entry point, from any reachable state: nothing of the removed subtree is attached *)
Theorem C05_removed_subtree_unattached : forall c h e a w',
  let w := run c init h in
  removal_of e a -> step c w a = (w', Ok) -> forall x, desc w e x -> attachedb w' x = false.
Proof. exact removed_subtree_unattached. Qed.
Print Assumptions C05_removed_subtree_unattached.

(* ... hence no listing and no look-up yields it once the references are dropped.  For removal through the parent this is
   all that holds: the NODES stay in the file (C05_file_exact_via_parent_refuted) until a listing getter of their kind runs
   after the drop (C05_via_parent_what_remains). *)
Theorem C05_removed_not_yielded : forall c h e a w',
  let w := run c init h in
  removal_of e a -> step c w a = (w', Ok) ->
  forall x, desc w e x ->
  let w1 := fst (step c w' ODrop) in
  ~ In x (held w1)
  /\ snd (step c w1 (OLookup x)) <> Found
  /\ forall k k', ~ In x (listed (fst (step c w1 (OList k))) k').
Proof. exact removed_not_yielded. Qed.
Print Assumptions C05_removed_not_yielded.

Theorem C05_via_parent_what_remains :
  forall c, flat (run c init [OObject 0; ORemoveParent 1]) = [0; 1]
       /\ flat (run c init [OObject 0; ORemoveParent 1; ODrop]) = [0; 1]
       /\ flat (run c init [OObject 0; ORemoveParent 1; OList KObject]) = [0; 1]
       /\ flat (run c init [OObject 0; ORemoveParent 1; ODrop; OList KObject]) = [0].
Proof. exact via_parent_then_drop_and_list. Qed.
Print Assumptions C05_via_parent_what_remains.

(* ------------------------------------------------------------------------------------------------------------------
   8. the file side.  Child links: the parent's node no longer links the removed entity (both entry points); with the
      repaired remove_recursively no node that is still in the file links anything of the removed subtree. *)
Theorem C05_parent_link_removed : forall c h e a w',
  let w := run c init h in
  removal_of e a -> step c w a = (w', Ok) -> ekind (E w e) <> KPG ->
  memb (par (E w e)) (flat w') = true -> ~ In (par (E w e), e) (links w').
Proof. exact parent_link_removed. Qed.
Print Assumptions C05_parent_link_removed.

Theorem C05_visible_links_clean : forall c h e w',
  snap_ch c = true ->
  let w := run c init h in
  step c w (ORemoveWs e) = (w', Ok) -> ekind (E w e) <> KPG ->
  forall a b, In (a, b) (links w') -> memb a (flat w') = true -> ~ desc w e b.
Proof. exact visible_links_clean. Qed.
Print Assumptions C05_visible_links_clean.

(* Property groups: in every reachable state (all histories, every variant) each PropertyGroups block that a raw dump shows
   is exactly a group its object holds in memory ... *)
Theorem C05_stored_groups_mirror_memory : forall c h g l,
  let w := run c init h in
  In (g, l) (obs_fpg w) -> In (g, l) (pgs (E w (par (E w g)))).
Proof. exact stored_groups_mirror_memory. Qed.
Print Assumptions C05_stored_groups_mirror_memory.

(* ... hence after the removal of a data set (either entry point) no stored block of any object lists it: always with the
   snapshot loop, under the exact side condition no_skip with the pinned loop *)
Theorem C05_stored_groups_no_dangling : forall c h e a w',
  let w := run c init h in
  ekind (E w e) = KData -> removal_of e a -> step c w a = (w', Ok) ->
  snap_pg c = true \/ no_skip e (pgs (E w (par (E w e)))) = true ->
  forall g l, In (g, l) (obs_fpg w') -> ~ In e l.
Proof. exact stored_groups_no_dangling. Qed.
Print Assumptions C05_stored_groups_no_dangling.

Theorem C05_stored_groups_no_dangling_checked_tree : forall h e a w',
  let w := run cur init h in
  ekind (E w e) = KData -> removal_of e a -> step cur w a = (w', Ok) ->
  forall g l, In (g, l) (obs_fpg w') -> ~ In e l.
Proof. intros h e a w' w Hk Ha Hs. apply (stored_groups_no_dangling cur h e a w' Hk Ha Hs). left. reflexivity. Qed.
Print Assumptions C05_stored_groups_no_dangling_checked_tree.

(* ------------------------------------------------------------------------------------------------------------------
   non-vacuity: histories that satisfy the hypotheses above, with the values the theorems talk about                *)
Example C05_nonvacuous_remove_ws :
  forall c, snd (step c (run c init h_example) (ORemoveWs 1)) = Ok
       /\ flat (run c init h_example) = [0; 1; 2; 3; 4; 7; 8]
       /\ (snap_ch c = true -> flat (fst (step c (run c init h_example) (ORemoveWs 1))) = [0; 7; 8]).
Proof. exact example_remove_ws. Qed.

Example C05_nonvacuous_remove_data :
  forall c, snd (step c (run c init h_example) (ORemoveWs 3)) = Ok
       /\ pgs (E (run c init h_example) 2) = [(5, [3; 4]); (6, [3])]
       /\ no_skip 3 (pgs (E (run c init h_example) 2)) = true
       /\ pgs (E (fst (step c (run c init h_example) (ORemoveWs 3))) 2) = [(5, [4])].
Proof. exact example_remove_data. Qed.

Example C05_nonvacuous_witness_lists : grp_ok witness_gs /\ scrub 0 witness_gs = [(2, [0; 7]); (3, [8])].
Proof. split; [exact witness_ok | exact witness_dangles]. Qed.

Example C05_nonvacuous_listing :
  forall c, let w' := fst (step c (run c init h_example) (ORemoveWs 2)) in
  let w1 := fst (step c w' ODrop) in
  snd (step c (run c init h_example) (ORemoveWs 2)) = Ok
  /\ snd (step c w' (OLookup 3)) = Found /\ snd (step c w1 (OLookup 3)) = NotFound
  /\ listed w' KData = [3; 4; 8] /\ listed w1 KData = [8]
  /\ obs_fpg (run c init h_example) = [(5, [3; 4]); (6, [3])] /\ obs_fpg (fst (step c (run c init h_example) (ORemoveWs 3))) = [(5, [4])].
Proof. intros [[] [] []]; vm_compute; repeat split; reflexivity. Qed.
