(* C12 — A copy equals its source and never disturbs it.
   Only statements, each closed by [exact] and followed by Print Assumptions.
   Model: Model/CopyModel.v (copy_to_parent / *.copy / copy_property_groups / metadata setter), proofs: Proofs/CopyProofs.v. *)
From GV Require Import Prelude.Base Model.CopyModel Proofs.CopyProofs.

(* For ALL source trees (induction over the subtree), all contexts (mask, options) and all allocation states: when the copy
   succeeds, the copied subtree is the specification tree [s] (the source restricted by the mask each node receives)
   relabelled through the uid map rho = zip (uids s) (uids t'): same classes, attributes, geometry, values and metadata
   cell at every node, same shape, property groups listing rho(member).  (Property-group uids are erased: kept or fresh.) *)
Theorem C12_copy_iso_masked : forall t cx st t' st',
  copy_tree t cx st = Ok (t', st') -> NoDup (uids t) ->
  exists s, spec_tree t cx = Ok s /\ erase t' = erase (relabel (look (combine (uids s) (uids t'))) s).
Proof. exact copy_tree_relabel. Qed.
Print Assumptions C12_copy_iso_masked.

(* Without mask / omit list / overrides the specification tree is the source itself: the copy of any subtree (groups
   nested to any depth, objects, data) is isomorphic to the source through rho. *)
Theorem C12_copy_iso : forall t cx st t' st',
  copy_tree t cx st = Ok (t', st') -> plain cx -> all_copied t -> NoDup (uids t) ->
  erase t' = erase (relabel (look (combine (uids t) (uids t'))) t).
Proof. exact copy_tree_plain_relabel. Qed.
Print Assumptions C12_copy_iso.

(* The same at the level of the two workspaces: the entity found under the returned uid in the target workspace is the
   relabelled specification of the source subtree, and the returned map is rho. *)
Theorem C12_copy_iso_world : forall w sws u tws p o w' nu r,
  copy w sws u tws p o = Ok (w', nu, r) -> o_clear o = false -> world_ok w ->
  exists t tp s t',
    tfind u (ws w sws) = Some t /\ tfind p (ws w tws) = Some tp
    /\ spec_tree t (top_ctx o (pl (root_node tp))) = Ok s
    /\ tfind nu (ws w' tws) = Some t'
    /\ r = combine (uids s) (uids t')
    /\ (NoDup (uids t) -> erase t' = erase (relabel (look r) s)).
Proof. exact copy_iso_world. Qed.
Print Assumptions C12_copy_iso_world.

(* Frame: the dict heap and the other workspace are untouched; every pre-existing entity of the target workspace other than
   the target parent keeps its record and its children; the parent gains exactly the copy as last child; the copy's uid is
   new in the target workspace; the source subtree is the same tree as before. *)
Theorem C12_copy_frame : forall w sws u tws p o w' nu r,
  copy w sws u tws p o = Ok (w', nu, r) -> o_clear o = false -> world_ok w ->
  heap w' = heap w
  /\ ws w' (negb tws) = ws w (negb tws)
  /\ (forall x, x <> p -> In x (uids (ws w tws)) -> node_of x (ws w' tws) = node_of x (ws w tws))
  /\ (exists n kids, node_of p (ws w tws) = Some (n, kids) /\ node_of p (ws w' tws) = Some (n, kids ++ [nu]))
  /\ ~ In nu (uids (ws w tws))
  /\ tfind u (ws w' sws) = tfind u (ws w sws).
Proof. exact copy_frame. Qed.
Print Assumptions C12_copy_frame.

(* uid rule: every uid of the copy is absent from the target workspace before the copy, the copy's uids are pairwise
   distinct (also when the source had duplicates), and a workspace with unique uids keeps unique uids. *)
Theorem C12_copy_uids_new : forall t cx st t' st',
  copy_tree t cx st = Ok (t', st') -> st_ok st -> (forall x, In x (uids t) -> (x < nxt st)%N) ->
  NoDup (uids t') /\ (forall x, In x (uids t') -> ~ In x (used st)).
Proof. intros t cx st t' st' H1 H2 H3. destruct (copy_tree_fresh _ _ _ _ _ H1 H2 H3) as [A [B _]]. split; assumption. Qed.
Print Assumptions C12_copy_uids_new.

Theorem C12_copy_uids_unique : forall w sws u tws p o w' nu r,
  copy w sws u tws p o = Ok (w', nu, r) -> o_clear o = false -> world_ok w ->
  NoDup (uids (ws w tws)) -> NoDup (uids (ws w' tws)).
Proof. exact copy_uids_unique. Qed.
Print Assumptions C12_copy_uids_unique.

(* Masks (what spec_tree does to the geometry): a kept vertex keeps its token at its rank among the kept ones; every cell
   of the masked copy (the kept cells, re-indexed: [remap_cells]) joins the same vertex tokens as its source cell; a
   blanked value list agrees with the source where the mask is set and reads no-data elsewhere. *)
Theorem C12_masked_vertices : forall (m : list bool) (vs : list Z) i,
  nth_error m i = Some true -> nth_error (compress m vs) (rank m i) = nth_error vs i.
Proof. exact (@masked_vertices Z). Qed.
Print Assumptions C12_masked_vertices.

Theorem C12_masked_cells_same_vertices : forall (m : list bool) (vs : list Z) (c : list nat),
  cell_kept m c = true ->
  map (nth_error (compress m vs)) (map (fun v => nth v (new_ids m) 1) c) = map (nth_error vs) c.
Proof. exact (@masked_cell_same_vertices Z). Qed.
Print Assumptions C12_masked_cells_same_vertices.

(* The cell_mask keyword of CellObject.copy, stated on the model's copy step ([masked_payload] = what the constructor of the copy
   receives, [child_cmask] = the mask each child copy receives; [C12_copy_iso_masked] ties both to the copied tree).
   [has_cells p]: p is an object of a class with cells (curves, surfaces, the curve-based surveys).
   Cell mask alone ([CCells]): every vertex, exactly the selected cells, and a cell mask of another length is refused. *)
Theorem C12_cell_mask_alone : forall cx p p' cm,
  cmk cx = CCells cm -> has_cells p -> masked_payload cx p = Ok p' ->
  length cm = length (cells p) /\ verts p' = verts p /\ cells p' = compress cm (cells p) /\ vals p' = vals p.
Proof. exact cells_mask_payload. Qed.
Print Assumptions C12_cell_mask_alone.

(* Vertex mask and cell mask together ([CBoth]): the kept vertices and the SELECTED cells (not the derived "all vertices kept"
   ones) re-indexed over the kept vertices; both shapes are checked ... *)
Theorem C12_cell_and_vertex_mask : forall cx p p' m cm,
  cmk cx = CBoth m cm -> has_cells p -> verts p <> [] -> masked_payload cx p = Ok p' ->
  length m = length (verts p) /\ length cm = length (cells p)
  /\ verts p' = compress m (verts p)
  /\ cells p' = map (map (fun v => nth v (new_ids m) 1)) (compress cm (cells p)) /\ vals p' = vals p.
Proof. exact both_mask_payload. Qed.
Print Assumptions C12_cell_and_vertex_mask.

(* ... and every selected cell whose vertices are all kept is a cell of the copy joining the same vertex tokens. *)
Theorem C12_cell_and_vertex_mask_same_vertices : forall cx p p' m cm c,
  cmk cx = CBoth m cm -> has_cells p -> verts p <> [] -> masked_payload cx p = Ok p' ->
  In c (compress cm (cells p)) -> cell_kept m c = true ->
  In (map (fun v => nth v (new_ids m) 1) c) (cells p')
  /\ map (nth_error (verts p')) (map (fun v => nth v (new_ids m) 1) c) = map (nth_error (verts p)) c.
Proof. exact both_mask_cells_same_vertices. Qed.
Print Assumptions C12_cell_and_vertex_mask_same_vertices.

(* The mask each data child receives: CELL data the cell mask, VERTEX data the vertex mask (none under a cell mask alone), OBJECT
   data none.  A GROUP forwards the vertex mask only: group.copy(cell_mask=...) leaves the cells of the objects below untouched. *)
Theorem C12_cell_mask_children : forall cx p c,
  has_cells p -> knd c = KData ->
  (forall cm, cmk cx = CCells cm -> child_cmask cx p c = match asc c with ACell => CMask cm | _ => CNone end)
  /\ (forall m cm, cmk cx = CBoth m cm ->
        child_cmask cx p c = match asc c with AVertex => CMask m | ACell => CMask cm | AObject => CNone end).
Proof. exact cell_mask_children. Qed.
Print Assumptions C12_cell_mask_children.

Theorem C12_group_forwards_vertex_mask_only : forall cx p c,
  knd p = KGroup -> child_cmask cx p c = match cmk cx with CBoth m _ => CMask m | CCells _ => CNone | x => x end.
Proof. exact group_forwards_vertex_mask. Qed.
Print Assumptions C12_group_forwards_vertex_mask_only.

(* a masked context run end to end ([copy], both keywords, other workspace): a 4-vertex, 3-segment curve with VERTEX and CELL data,
   vertex mask [0;1;1;1], cell mask [0;1;0] -> vertices 21,22,23, the one selected segment re-indexed to (0,1), vertex values
   2,3,4, cell value 8, source untouched; cell mask alone [1;0;1] -> all vertices, segments (0,1),(2,3), cell values 7,9; a cell mask
   of length 2 -> IndexError *)
Example C12_cell_mask_nonvacuous :
  (exists w' nu r, copy w_cells false 1%N true 9%N o_both = Ok (w', nu, r)
     /\ geom_of w' true nu = Some ([21; 22; 23]%Z, [[0; 1]], [Some [Some 2; Some 3; Some 4]%Z; Some [Some 8]%Z])
     /\ geom_of w' false 1%N = geom_of w_cells false 1%N)
  /\ (exists w' nu r, copy w_cells false 1%N true 9%N o_cells = Ok (w', nu, r)
     /\ geom_of w' true nu = Some ([20; 21; 22; 23]%Z, [[0; 1]; [2; 3]], [Some [Some 1; Some 2; Some 3; Some 4]%Z; Some [Some 7; Some 9]%Z]))
  /\ copy w_cells false 1%N true 9%N {| o_children := true; o_mask := None; o_omit_meta := false; o_over := []; o_clear := false;
                                          o_cmask := Some [true; false] |} = Err EIndex.
Proof. exact cell_mask_nonvacuous. Qed.

Theorem C12_masked_values : forall (nd : option Z) m l i,
  length m = length l -> i < length l ->
  nth_error (fillmask nd m l) i = Some (if nth i m false then nth i l None else nd).
Proof. exact (@fillmask_nth Z). Qed.
Print Assumptions C12_masked_values.

(* REFUTED: "later edits of the copy do not show through in the source".  The copy holds the SAME metadata dict as its
   source (the constructor stores the harvested object), and the metadata setter updates an existing dict in place. *)
Theorem C12_no_alias_refuted : ~ no_alias_full.
Proof. exact no_alias_refuted. Qed.
Print Assumptions C12_no_alias_refuted.

(* PARTIAL: every edit of a copy node leaves all pre-existing entities of both workspaces (record, children, metadata
   content) unchanged, except a metadata assignment on a node that carries a metadata dict. *)
Theorem C12_no_alias_partial : forall w sws u tws p o w' nu r tc y ed w'',
  world_ok w -> locs_ok w ->
  copy w sws u tws p o = Ok (w', nu, r) -> o_clear o = false ->
  tfind nu (ws w' tws) = Some tc -> In y (uids tc) ->
  (forall d, ed = SetMeta d -> exists ty, tfind y (ws w' tws) = Some ty /\ meta (pl (root_node ty)) = None) ->
  apply_edit w' tws y ed = Ok w'' ->
  forall b x, In x (uids (ws w b)) -> deep_of w'' b x = deep_of w' b x.
Proof. exact no_alias_partial. Qed.
Print Assumptions C12_no_alias_partial.

(* REFUTED: "the source entity is unchanged".  With clear_cache=True a Curve's cells are rebuilt from its cached parts
   (cells [0;1] on four vertices come back as [0;1];[1;2];[2;3]).  PARTIAL: unchanged whenever clear_cache is off. *)
Theorem C12_source_unchanged_refuted : ~ source_unchanged_full.
Proof. exact source_unchanged_refuted. Qed.
Print Assumptions C12_source_unchanged_refuted.

Theorem C12_source_unchanged_partial : forall w sws u tws p o w' nu r,
  world_ok w -> o_clear o = false -> copy w sws u tws p o = Ok (w', nu, r) -> tfind u (ws w' sws) = tfind u (ws w sws).
Proof. exact source_unchanged_partial. Qed.
Print Assumptions C12_source_unchanged_partial.

(* non-vacuity: a world that meets world_ok, locs_ok, NoDup, all_copied, on which the copy succeeds with rho = [1->100; 2->101] *)
Example C12_nonvacuous :
  world_ok w_alias /\ locs_ok w_alias /\ NoDup (uids (wsA w_alias)) /\ all_copied (wsA w_alias)
  /\ exists w' nu r, copy w_alias false 1%N false 0%N o_plain = Ok (w', nu, r) /\ nu = 100%N /\ r = [(1%N, 100%N); (2%N, 101%N)].
Proof. exact copy_nonvacuous. Qed.
