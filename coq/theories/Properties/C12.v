(* C12 — A copy equals its source and never disturbs it.
   Only statements, each closed by [exact] and followed by Print Assumptions.
   Model: Model/CopyModel.v (copy_to_parent / *.copy / copy_property_groups / metadata setter), proofs: Proofs/CopyProofs.v. *)
From GV Require Import Prelude.Base Model.CopyModel Proofs.CopyProofs.

(* For ALL source trees (induction over the subtree), all contexts (mask, options) and all allocation states: when the copy
   succeeds, the copied subtree is the specification tree [s] (the source restricted by the mask each node receives)
   relabelled through the uid map rho = zip (uids s) (uids t'): same classes, attributes, geometry, values and metadata
   cell at every node, same shape, property groups listing rho(member).  (Property-group uids are erased: kept or fresh.) *)
Theorem C12_copy_iso_masked : forall t cx st t' st',
  copy_tree t cx st = Ok (t', st') -> NoDup (uids t) ->
  exists s, spec_tree t cx = Ok s /\ erase t' = erase (relabel (look (combine (uids s) (uids t'))) s).
Proof. exact copy_tree_relabel. Qed.
Print Assumptions C12_copy_iso_masked.

(* Without mask / omit list / overrides the specification tree is the source itself: the copy of any subtree (groups
   nested to any depth, objects, data) is isomorphic to the source through rho. *)
Theorem C12_copy_iso : forall t cx st t' st',
  copy_tree t cx st = Ok (t', st') -> plain cx -> all_copied t -> NoDup (uids t) ->
  erase t' = erase (relabel (look (combine (uids t) (uids t'))) t).
Proof. exact copy_tree_plain_relabel. Qed.
Print Assumptions C12_copy_iso.

(* The same at the level of the two workspaces: the entity found under the returned uid in the target workspace is the
   relabelled specification of the source subtree, and the returned map is rho. *)
Theorem C12_copy_iso_world : forall w sws u tws p o w' nu r,
  copy w sws u tws p o = Ok (w', nu, r) -> o_clear o = false -> world_ok w ->
  exists t tp s t',
    tfind u (ws w sws) = Some t /\ tfind p (ws w tws) = Some tp
    /\ spec_tree t (top_ctx o (pl (root_node tp))) = Ok s
    /\ tfind nu (ws w' tws) = Some t'
    /\ r = combine (uids s) (uids t')
    /\ (NoDup (uids t) -> erase t' = erase (relabel (look r) s)).
Proof. exact copy_iso_world. Qed.
Print Assumptions C12_copy_iso_world.

(* Frame: the dict heap and the other workspace are untouched; every pre-existing entity of the target workspace other than
   the target parent keeps its record and its children; the parent gains exactly the copy as last child; the copy's uid is
   new in the target workspace; the source subtree is the same tree as before. *)
Theorem C12_copy_frame : forall w sws u tws p o w' nu r,
  copy w sws u tws p o = Ok (w', nu, r) -> o_clear o = false -> world_ok w ->
  heap w' = heap w
  /\ ws w' (negb tws) = ws w (negb tws)
  /\ (forall x, x <> p -> In x (uids (ws w tws)) -> node_of x (ws w' tws) = node_of x (ws w tws))
  /\ (exists n kids, node_of p (ws w tws) = Some (n, kids) /\ node_of p (ws w' tws) = Some (n, kids ++ [nu]))
  /\ ~ In nu (uids (ws w tws))
  /\ tfind u (ws w' sws) = tfind u (ws w sws).
Proof. exact copy_frame. Qed.
Print Assumptions C12_copy_frame.

(* uid rule: every uid of the copy is absent from the target workspace before the copy, the copy's uids are pairwise
   distinct (also when the source had duplicates), and a workspace with unique uids keeps unique uids. *)
Theorem C12_copy_uids_new : forall t cx st t' st',
  copy_tree t cx st = Ok (t', st') -> st_ok st -> (forall x, In x (uids t) -> (x < nxt st)%N) ->
  NoDup (uids t') /\ (forall x, In x (uids t') -> ~ In x (used st)).
Proof. intros t cx st t' st' H1 H2 H3. destruct (copy_tree_fresh _ _ _ _ _ H1 H2 H3) as [A [B _]]. split; assumption. Qed.
Print Assumptions C12_copy_uids_new.

Theorem C12_copy_uids_unique : forall w sws u tws p o w' nu r,
  copy w sws u tws p o = Ok (w', nu, r) -> o_clear o = false -> world_ok w ->
  NoDup (uids (ws w tws)) -> NoDup (uids (ws w' tws)).
Proof. exact copy_uids_unique. Qed.
Print Assumptions C12_copy_uids_unique.

(* Masks (what spec_tree does to the geometry): a kept vertex keeps its token at its rank among the kept ones; every cell
   of the masked copy (the kept cells, re-indexed: [remap_cells]) joins the same vertex tokens as its source cell; a
   blanked value list agrees with the source where the mask is set and reads no-data elsewhere. *)
Theorem C12_masked_vertices : forall (m : list bool) (vs : list Z) i,
  nth_error m i = Some true -> nth_error (compress m vs) (rank m i) = nth_error vs i.
Proof. exact (@masked_vertices Z). Qed.
Print Assumptions C12_masked_vertices.

Theorem C12_masked_cells_same_vertices : forall (m : list bool) (vs : list Z) (c : list nat),
  cell_kept m c = true ->
  map (nth_error (compress m vs)) (map (fun v => nth v (new_ids m) 1) c) = map (nth_error vs) c.
Proof. exact (@masked_cell_same_vertices Z). Qed.
Print Assumptions C12_masked_cells_same_vertices.

(* The cell_mask keyword (CellObject.copy; [CCells] / [CBoth] in the model): the selected cells, and the values of CELL data
   reduced by it, keep their content at their rank among the selected ones. *)
Theorem C12_cell_mask_cells : forall (cm : list bool) (cs : list (list nat)) i,
  nth_error cm i = Some true -> nth_error (compress cm cs) (rank cm i) = nth_error cs i.
Proof. exact (@masked_vertices (list nat)). Qed.
Print Assumptions C12_cell_mask_cells.

Theorem C12_masked_values : forall (nd : option Z) m l i,
  length m = length l -> i < length l ->
  nth_error (fillmask nd m l) i = Some (if nth i m false then nth i l None else nd).
Proof. exact (@fillmask_nth Z). Qed.
Print Assumptions C12_masked_values.

(* REFUTED: "later edits of the copy do not show through in the source".  The copy holds the SAME metadata dict as its
   source (the constructor stores the harvested object), and the metadata setter updates an existing dict in place. *)
Theorem C12_no_alias_refuted : ~ no_alias_full.
Proof. exact no_alias_refuted. Qed.
Print Assumptions C12_no_alias_refuted.

(* PARTIAL: every edit of a copy node leaves all pre-existing entities of both workspaces (record, children, metadata
   content) unchanged, except a metadata assignment on a node that carries a metadata dict. *)
Theorem C12_no_alias_partial : forall w sws u tws p o w' nu r tc y ed w'',
  world_ok w -> locs_ok w ->
  copy w sws u tws p o = Ok (w', nu, r) -> o_clear o = false ->
  tfind nu (ws w' tws) = Some tc -> In y (uids tc) ->
  (forall d, ed = SetMeta d -> exists ty, tfind y (ws w' tws) = Some ty /\ meta (pl (root_node ty)) = None) ->
  apply_edit w' tws y ed = Ok w'' ->
  forall b x, In x (uids (ws w b)) -> deep_of w'' b x = deep_of w' b x.
Proof. exact no_alias_partial. Qed.
Print Assumptions C12_no_alias_partial.

(* REFUTED: "the source entity is unchanged".  With clear_cache=True a Curve's cells are rebuilt from its cached parts
   (cells [0;1] on four vertices come back as [0;1];[1;2];[2;3]).  PARTIAL: unchanged whenever clear_cache is off. *)
Theorem C12_source_unchanged_refuted : ~ source_unchanged_full.
Proof. exact source_unchanged_refuted. Qed.
Print Assumptions C12_source_unchanged_refuted.

Theorem C12_source_unchanged_partial : forall w sws u tws p o w' nu r,
  world_ok w -> o_clear o = false -> copy w sws u tws p o = Ok (w', nu, r) -> tfind u (ws w' sws) = tfind u (ws w sws).
Proof. exact source_unchanged_partial. Qed.
Print Assumptions C12_source_unchanged_partial.

(* non-vacuity: a world that meets world_ok, locs_ok, NoDup, all_copied, on which the copy succeeds with rho = [1->100; 2->101] *)
Example C12_nonvacuous :
  world_ok w_alias /\ locs_ok w_alias /\ NoDup (uids (wsA w_alias)) /\ all_copied (wsA w_alias)
  /\ exists w' nu r, copy w_alias false 1%N false 0%N o_plain = Ok (w', nu, r) /\ nu = 100%N /\ r = [(1%N, 100%N); (2%N, 101%N)].
Proof. exact copy_nonvacuous. Qed.
