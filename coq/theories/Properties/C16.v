(* C16 — Merging preserves every input's geometry and data.
   Only statements, each closed by [exact] and followed by Print Assumptions. *)
From GV Require Import Prelude.Base Model.Merge Proofs.MergeProofs.

(* vertices of the output are the inputs' vertices in order: vertex v of input k sits at voff k + v *)
Theorem C16_merged_vertices : forall ins k i v,
  nth_error ins k = Some i -> v < length (vs i) ->
  nth_error (merge_verts ins) (voff ins k + v) = nth_error (vs i) v.
Proof. exact verts_nth. Qed.
Print Assumptions C16_merged_vertices.

(* The specification of the merged cells: every input cell (also of inputs with unreferenced vertices, in any
   order) has a corresponding cell that joins the same coordinates and references existing vertices ... *)
Theorem C16_spec_cells_same_coords : forall ins k i j c,
  nth_error ins k = Some i -> nth_error (cs i) j = Some c -> cell_ok (length (vs i)) c ->
  exists c', nth_error (merge_cells_spec ins) (coff ins k + j) = Some c'
          /\ length c' = length c
          /\ map (nth_error (merge_verts ins)) c' = map (nth_error (vs i)) c
          /\ cell_ok (length (merge_verts ins)) c'.
Proof. exact merged_cell_same_coords. Qed.
Print Assumptions C16_spec_cells_same_coords.

(* ... and there are no other cells *)
Theorem C16_spec_cells_complete : forall ins,
  length (merge_cells_spec ins) = length (concat (map cs ins))
  /\ forall p, p < length (merge_cells_spec ins) ->
       exists k i j, nth_error ins k = Some i /\ j < length (cs i) /\ p = coff ins k + j.
Proof.
  intros ins. split; [apply merge_cells_spec_from_length|].
  intros p Hp. apply cells_decompose. unfold merge_cells_spec in Hp. rewrite merge_cells_spec_from_length in Hp. exact Hp.
Qed.
Print Assumptions C16_spec_cells_complete.

(* PARTIAL: the code (offset = largest referenced index + 1) meets that specification when every input but the last
   has its last vertex referenced by a cell.  Missing for the full property: inputs with an unreferenced last vertex. *)
Theorem C16_cells_partial : forall ins,
  Forall good (removelast ins) -> merge_cells ins = merge_cells_spec ins.
Proof. exact code_eq_spec. Qed.
Print Assumptions C16_cells_partial.

(* REFUTED: the full statement is false of the faithful model (witness replayed on the implementation: known finding) *)
Theorem C16_cells_refuted : ~ C16_cells_full.
Proof. exact cells_full_refuted. Qed.
Print Assumptions C16_cells_refuted.

(* non-vacuity: the hypotheses of the partial theorem are met by a non-trivial state *)
Example C16_nonvacuous :
  let ins := [ {| vs := [(0,0,0); (1,0,0); (2,0,0)]%Z; cs := [[1;2];[0;1]]; ds := [] |};
               {| vs := [(0,1,0); (1,1,0); (2,1,0)]%Z; cs := [[0;1]]; ds := [] |} ] in
  Forall good (removelast ins) /\ Forall inp_ok ins /\ merge_cells ins = [[1;2];[0;1];[3;4]].
Proof. split; [|split]; [repeat constructor; discriminate | repeat constructor | reflexivity]. Qed.

(* Data: for inputs whose data sets have distinct (name, type, association) labels and one value per vertex / cell,
   every data set of every input is found in the merged object under the same label — never under a renamed one —
   in an array with one entry per merged vertex / cell, and its values sit at the offset of its input. *)
Theorem C16_merged_data : forall ins,
  Forall wf_inp ins ->
  forall k i d, nth_error ins k = Some i -> In d (ds i) ->
  exists v, lookup (lbl0 d) (merge_data ins) = Some v
         /\ length v = total ins (dcell d)
         /\ slice v (doff ins k (dcell d)) (length (dvals d)) = dvals d.
Proof. exact merged_data. Qed.
Print Assumptions C16_merged_data.

Theorem C16_merged_data_labels : forall ins l v,
  Forall wf_inp ins -> lookup l (merge_data ins) = Some v -> lren l = None.
Proof. exact merged_data_names. Qed.
Print Assumptions C16_merged_data_labels.

Example C16_data_nonvacuous :
  let ins := [ {| vs := [(0,0,0); (1,0,0)]%Z; cs := [[0;1]]; ds := [ {| dname := 1; dtype := 1; dcell := false; dvals := [Some 5%Z; None] |} ] |};
               {| vs := [(0,1,0); (1,1,0); (2,1,0)]%Z; cs := [[0;1];[1;2]];
                  ds := [ {| dname := 2; dtype := 2; dcell := true; dvals := [Some 7%Z; Some 8%Z] |};
                          {| dname := 1; dtype := 1; dcell := false; dvals := [None; Some 6%Z; Some 9%Z] |} ] |} ] in
  Forall wf_inp ins
  /\ out_children ins = [ (1, false, [Some 5%Z; None; None; Some 6%Z; Some 9%Z]); (2, true, [None; Some 7%Z; Some 8%Z]) ].
Proof.
  split; [|reflexivity].
  repeat constructor; simpl; try (intros [H|H]; try discriminate H; try contradiction); try tauto.
Qed.

(* ... and no-data values where an input lacks them: over the range of an input that has no data set with label l,
   the merged array of label l holds only the no-data value *)
Theorem C16_merged_data_blank_elsewhere : forall ins,
  Forall wf_inp ins ->
  forall l v, lookup l (merge_data ins) = Some v ->
  forall k i, nth_error ins k = Some i -> (forall d, In d (ds i) -> lbl0 d <> l) ->
  all_none (slice v (doff ins k (lcell l)) (isize i (lcell l))) = true.
Proof. exact merged_data_blank. Qed.
Print Assumptions C16_merged_data_blank_elsewhere.

(* Nothing is added: every merged vertex is a vertex of exactly the input whose range it falls in (the converse of
   C16_merged_vertices), and the count is the sum of the inputs' counts. *)
Theorem C16_vertices_complete : forall ins,
  length (merge_verts ins) = list_sum (map (fun i => length (vs i)) ins)
  /\ forall p, p < length (merge_verts ins) ->
       exists k i v, nth_error ins k = Some i /\ v < length (vs i) /\ p = voff ins k + v.
Proof. intros ins. split; [apply merge_verts_length | apply verts_decompose]. Qed.
Print Assumptions C16_vertices_complete.

(* The code's own offset rule (largest referenced index + 1), also on the inputs where it departs from the
   specification (C16_cells_refuted): it never overshoots, so every cell of the merged object references an existing
   merged vertex, and the number of cells is the sum of the inputs' — the defect misplaces cells, it cannot make the
   stored object ill-formed.  Hypotheses: in-range cells and at least one vertex per input (what the object classes
   enforce). *)
Theorem C16_code_cells_in_range : forall ins,
  Forall inp_ok ins -> Forall (fun i => 0 < length (vs i)) ins ->
  Forall (cell_ok (length (merge_verts ins))) (merge_cells ins)
  /\ length (merge_cells ins) = length (concat (map cs ins)).
Proof. intros ins H1 H2. split; [apply code_cells_in_range; assumption | apply merge_cells_from_length]. Qed.
Print Assumptions C16_code_cells_in_range.

(* Unit law: merging a single input reproduces its vertices and cells (code and specification). *)
Theorem C16_merge_single : forall i, merge_verts [i] = vs i /\ merge_cells [i] = cs i /\ merge_cells_spec [i] = cs i.
Proof. exact merge_single. Qed.
Print Assumptions C16_merge_single.

(* Append law: merging a longer list extends the merge of its prefix (vertices of earlier inputs never move). *)
Theorem C16_vertices_append : forall a b, merge_verts (a ++ b) = merge_verts a ++ merge_verts b.
Proof. exact merge_verts_app. Qed.
Print Assumptions C16_vertices_append.

Example C16_in_range_nonvacuous :
  let ins := [ {| vs := [(0,0,0); (1,0,0); (2,0,0)]%Z; cs := [[0;1]]; ds := [] |};
               {| vs := [(0,1,0); (1,1,0)]%Z; cs := [[0;1]]; ds := [] |} ] in
  Forall inp_ok ins /\ Forall (fun i => 0 < length (vs i)) ins
  /\ merge_cells ins = [[0;1];[2;3]] /\ merge_cells_spec ins = [[0;1];[3;4]].
Proof. repeat split; repeat constructor. Qed.

(* No data set is invented: for ALL input lists (no well-formedness needed, the duplicate-label renaming branch
   included) every data set of the merged object stems from a data set of some input with the same name, type and
   association ... *)
Theorem C16_no_invented_data : forall ins l v,
  lookup l (merge_data ins) = Some v -> exists i d, In i ins /\ In d (ds i) /\ stems d l.
Proof. exact merged_data_stems. Qed.
Print Assumptions C16_no_invented_data.

(* ... and for inputs with distinct labels it is exactly that data set's own label. *)
Theorem C16_no_invented_data_exact : forall ins l v,
  Forall wf_inp ins -> lookup l (merge_data ins) = Some v ->
  exists i d, In i ins /\ In d (ds i) /\ l = lbl0 d.
Proof.
  intros ins l v Hwf H. destruct (@merged_data_stems ins l v H) as [i [d [Hi [Hd Hs]]]].
  pose proof (@merged_data_names ins l v Hwf H) as Hr.
  exists i, d. repeat split; try assumption.
  destruct l as [[[n r] t] c]. simpl in Hr, Hs. destruct Hs as [-> [-> ->]]. subst r. reflexivity.
Qed.
Print Assumptions C16_no_invented_data_exact.
