(* C09 — An operation on one entity leaves unrelated stored entities untouched.
   Only statements, each closed by [exact] and followed by Print Assumptions.
   EXTENDED model (Model/WsX.v): property groups and copies (twelve operations).
   [footprint w o] (Model/WsXSpec.v) lists the identifiers of the flat nodes operation [o] may rewrite in state [w];
   every other stored node -- attributes, array token, address and child links -- is bit-for-bit the same afterwards. *)
From GV Require Import Prelude.Base Model.WsX Model.WsXSpec Proofs.WsXProofs.

(* unconditional: ANY state w (also states with stale or orphan nodes), all twelve operations, whatever the outcome *)
Theorem C09_step_frame : forall w o x,
  ~ In x (footprint w o) ->
  fget x (flat (wfile (fst (step w o)))) = fget x (flat (wfile w)).
Proof. exact step_frame. Qed.
Print Assumptions C09_step_frame.

(* the Root link is never rewritten *)
Theorem C09_step_rootlink : forall w o, rootlink (wfile (fst (step w o))) = rootlink (wfile w).
Proof. exact step_rootlink. Qed.
Print Assumptions C09_step_rootlink.

(* sharper footprint when the file represents the tree: a move rewrites only the child lists of the two parents, and
   close + open without mutation rewrites nothing (it only deletes the flat nodes of dead groups it sweeps) *)
Theorem C09_step_frame_rep : forall w o x,
  Rep (wmem w) (wfile w) (wpend w) ->
  ~ In x (footprint_rep w o) ->
  fget x (flat (wfile (fst (step w o)))) = fget x (flat (wfile w)).
Proof. exact step_frame_rep. Qed.
Print Assumptions C09_step_frame_rep.

(* same, when the file represents the tree up to any set P of lingering orphans that contains the pending ones *)
Theorem C09_step_frame_rep_orphans : forall w o x P,
  Rep (wmem w) (wfile w) P -> (forall k, In k (wpend w) -> In k P) ->
  ~ In x (footprint_rep w o) ->
  fget x (flat (wfile (fst (step w o)))) = fget x (flat (wfile w)).
Proof. exact step_frame_rep_gen. Qed.
Print Assumptions C09_step_frame_rep_orphans.

(* hence at every state reached by a history without identifier re-use over a stale node (whatever the outcomes) *)
Theorem C09_step_frame_run : forall ops o x, fresh_run ops init = true ->
  let w := run ops init in
  ~ In x (footprint_rep w o) ->
  fget x (flat (wfile (fst (step w o)))) = fget x (flat (wfile w)).
Proof. exact step_frame_run. Qed.
Print Assumptions C09_step_frame_run.

(* non-vacuity: in a reached state where the file represents the tree, a move leaves the stored nodes of the moved
   subtree itself (here O3 with its two property groups, and its data D4, D7) outside the sharp footprint, and they
   exist in the file; a copy touches only the new parent and the nodes it creates *)
Example C09_nonvacuous :
  let w := run (firstn 9 ops_demo) init in
  Rep (wmem w) (wfile w) (wpend w) /\
  footprint_rep w (Move (KO, 3%N) (KG, 2%N)) = [(KG, 1%N); (KG, 2%N)] /\
  snd (step w (Move (KO, 3%N) (KG, 2%N))) = Done /\
  fget (KD, 4%N) (flat (wfile w)) <> None /\ fget (KO, 3%N) (flat (wfile w)) <> None /\
  footprint (run (firstn 7 ops_demo) init) (Copy (KO, 3%N) (KG, 2%N) [20; 21; 22; 23; 24]%N)
  = [(KG, 2%N); (KO, 20%N); (KD, 21%N); (KD, 22%N)].
Proof.
  split; [apply (rep_run (firstn 9 ops_demo)); vm_compute; reflexivity|].
  vm_compute. repeat split; discriminate.
Qed.
