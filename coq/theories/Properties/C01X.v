(* C01 — Re-opening a file yields exactly the state built through the API.
   Only statements, each closed by [exact] and followed by Print Assumptions.
   EXTENDED model (Model/WsX.v): property groups and copies.
   Histories are lists of the twelve model operations (Model/WsX.v) run from the empty workspace; [Reopen] = close + fresh
   open; trees are compared up to the order of children and of property-group blocks ([tree_equiv] / [attrs_equiv]: HDF5 lists links and
   blocks by name). *)
From GV Require Import Prelude.Base Model.WsX Model.WsXSpec Proofs.WsXProofs.

(* PARTIAL (exact side condition: no entity is created under an identifier that still has a stale flat node):
   after ANY such history -- including removals that raised half-way and intermediate close/re-opens -- close + open
   succeeds and yields the live tree. *)
Theorem C01_reopen_partial : forall ops, fresh_run ops init = true ->
  let w := run ops init in
  snd (step w Reopen) = Done /\ tree_equiv (wmem (fst (step w Reopen))) (wmem w).
Proof. exact reopen_equiv. Qed.
Print Assumptions C01_reopen_partial.

(* REFUTED: the full statement is false of the faithful model: an entity re-created under the identifier of a node left
   by a removal through the parent keeps the OLD stored node; re-opening resurrects the old name / array / children
   (witness [ops_stale], replayed on the implementation: known finding "stale-node-reused"). *)
Definition C01_reopen_full : Prop := C01_full.
Theorem C01_reopen_refuted : ~ C01_reopen_full.
Proof. exact C01_full_refuted. Qed.
Print Assumptions C01_reopen_refuted.

(* the loader: whenever the file represents tree t up to lingering orphans, loading from Root rebuilds t up to children
   order with unique identifiers (orphans are never reached; the "already registered" test never fires) *)
Theorem C01_load_rep : forall t f pend, Rep t f pend ->
  exists t' sn, load (S (length (flat f))) (flat f) [] rootkey = Some (t', sn)
     /\ tree_equiv t' t /\ NoDup (keys_of t').
Proof. exact load_rep. Qed.
Print Assumptions C01_load_rep.

(* sanity: the initial state is in sync *)
Theorem C01_init_reopen : fst (step init Reopen) = init.
Proof. vm_compute. reflexivity. Qed.
Print Assumptions C01_init_reopen.

(* non-vacuity: a 21-operation history meeting the side condition with two property groups, a copy of the object that
   carries them, moves (of the object, of a grouped data), a data removal that empties a group, a removal through the
   parent + sweep, a property-group removal, an intermediate re-open, a removal through the workspace that raises
   half-way and a complete removal; and the side condition is what excludes the witness of the refutation *)
Example C01_nonvacuous :
  fresh_run ops_demo init = true /\
  map (fun n => snd (step (run (firstn n ops_demo) init) (nth n ops_demo Reopen))) (seq 0 21)
  = [Done; Done; Done; Done; Done; Done; Done; Done; Done; Done; Done;
     Done; Done; Done; Done; Done; Done; Done; Done; Raised; Done] /\
  fresh_run ops_stale init = false.
Proof. split; [apply ops_demo_ok | split; [apply ops_demo_ok | exact ops_stale_not_fresh]]. Qed.
