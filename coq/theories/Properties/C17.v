(* C17 — Derived geometry follows the format's indexing conventions.
   Only statements, each closed by [exact] (short glue allowed) and followed by Print Assumptions.

   ROTATION AND DIP ARE PARAMETERS.  In the model files the maps [rotm a p] (p rotated by a degrees about the vertical
   axis) and [dipm a p] (p tilted by a degrees about the u axis) are Section variables; here every theorem is
   universally quantified over arbitrary functions [rotm dipm : Q -> V3 -> V3].  "Rotated (and dipped) about the origin"
   is therefore carried by the SHAPE of the result, [rotm angle (dipm dip (local centre)) + origin]: the rotation is
   applied to the local centre before the origin is added, with the object's current angle.  What the theorems decide
   is the index layout, the local centre formulas, the count, cache coherence and the tiling; that the code's matrices
   are the rotations of the format is NOT proved (float trigonometry) — it is checked by the correspondence on multiples
   of 90 degrees ([rot_exact], [dip_exact]) and by the oracle's independent formulas. *)
From GV Require Import Prelude.Base Model.GridIndex Model.Octree Model.Parts
  Proofs.GridIndexProofs Proofs.OctreeProofs Proofs.PartsProofs.
From Coq Require Import QArith.
Close Scope Q_scope.

(* ------------------------------------------------------------------ block model *)
(* cell (i, j, k) of a block model sits at index k + i*nZ + j*nU*nZ, rotated about the origin and translated by it
   (origin given or not: [origin_or_zero]) *)
Theorem C17_blockmodel_index : forall (rotm : Q -> V3 -> V3) b i j k u v z,
  nth_error (centres (bm_du b)) i = Some u -> nth_error (centres (bm_dv b)) j = Some v ->
  nth_error (centres (bm_dz b)) k = Some z ->
  let nU := length (bm_du b) - 1 in let nZ := length (bm_dz b) - 1 in
  nth_error (bm_compute rotm b) (k + i * nZ + j * nU * nZ)
  = Some (vadd (rotm (bm_rotation b) (u, v, z)) (origin_or_zero (bm_origin b))).
Proof. exact bm_index. Qed.
Print Assumptions C17_blockmodel_index.

(* the centre of interval i along an axis is the mid point of its two delimiters (relative to the origin),
   for every delimiter vector, negative / decreasing / non-zero first entry included *)
Theorem C17_centre_formula : forall d i a b,
  nth_error d i = Some a -> nth_error d (S i) = Some b ->
  exists c, nth_error (centres d) i = Some c /\ (c == (a + b) / 2)%Q.
Proof. exact centres_formula. Qed.
Print Assumptions C17_centre_formula.

(* what the code did before fixes/C17-first-delimiter.patch: centres measured from the first delimiter *)
Theorem C17_old_centre_formula : forall d i d0 a b,
  nth_error d 0 = Some d0 -> nth_error d i = Some a -> nth_error d (S i) = Some b ->
  exists c, nth_error (centres_old d) i = Some c /\ (c == (a + b) / 2 - d0)%Q.
Proof. exact centres_old_formula. Qed.
Print Assumptions C17_old_centre_formula.

Definition C17_old_first_delim_full : Prop := forall d i a b,
  nth_error d i = Some a -> nth_error d (S i) = Some b ->
  exists c, nth_error (centres_old d) i = Some c /\ (c == (a + b) / 2)%Q.

(* REFUTED (pre-repair code): delimiters [-10; -5; 0] give centres 2.5 and 7.5 instead of -7.5 and -2.5 *)
Theorem C17_first_delim_old_code_refuted : ~ C17_old_first_delim_full.
Proof.
  intros H. destruct (H [(-10)%Q; (-5)%Q; 0%Q] 0 (-10)%Q (-5)%Q eq_refl eq_refl) as [c [Hc Hq]].
  rewrite centres_old_witness in Hc. inversion Hc; subst c. vm_compute in Hq. discriminate.
Qed.
Print Assumptions C17_first_delim_old_code_refuted.

Definition C17_old_default_origin_full : Prop := forall (rotm : Q -> V3 -> V3) b,
  exists l, bm_compute_old rotm b = Ok l /\ length l = bm_n_cells b.

(* REFUTED (pre-repair code): without an explicit origin the centroids raise IndexError (block model and octree) *)
Theorem C17_default_origin_old_code_refuted :
  ~ C17_old_default_origin_full
  /\ forall (rotm : Q -> V3 -> V3) o, o_origin o = None -> o_compute_old rotm o = Err IndexError.
Proof.
  split.
  - intros H.
    destruct (H (fun _ p => p) {| bm_origin := None; bm_rotation := 0%Q; bm_du := [0%Q; 1%Q]; bm_dv := [0%Q; 1%Q];
                                  bm_dz := [0%Q; 1%Q]; bm_cache := None |}) as [l [Hl _]].
    discriminate.
  - intros rotm o H. unfold o_compute_old. rewrite H. reflexivity.
Qed.
Print Assumptions C17_default_origin_old_code_refuted.

(* ------------------------------------------------------------------ 2-D grid *)
(* cell (i, j) of a 2-D grid sits at index i + j*nU, dipped then rotated about the origin *)
Theorem C17_grid2d_index : forall (rotm dipm : Q -> V3 -> V3) g i j u v,
  nth_error (g_centres (g_nu g) (g_su g)) i = Some u -> nth_error (g_centres (g_nv g) (g_sv g)) j = Some v ->
  nth_error (g_compute rotm dipm g) (i + j * g_nu g)
  = Some (vadd (rotm (g_rotation g) (dipm (g_eff_dip g) (u, v, 0%Q))) (g_origin g)).
Proof. exact g_index. Qed.
Print Assumptions C17_grid2d_index.

Theorem C17_grid2d_centre_formula : forall n s i, i < n ->
  exists c, nth_error (g_centres n s) i = Some c /\ (c == (inject_Z (Z.of_nat i) + 1 / 2) * s)%Q.
Proof. exact g_centres_formula. Qed.
Print Assumptions C17_grid2d_centre_formula.

(* ------------------------------------------------------------------ rotated (and dipped) ABOUT THE ORIGIN *)
(* The code's rotation is the matrix [[c, -s, 0], [s, c, 0], [0, 0, 1]] ([rotz_cs]), its dip the matrix
   [[1, 0, 0], [0, c, -s], [0, s, c]] ([rotx_cs]), with c, s the cosine and sine of the object's angle.  For ANY functions
   cosd, sind giving them (the float trigonometry stays outside Coq) with c^2 + s^2 = 1 at the object's angle:
   the centre of cell (i, j, k) has the explicit counter-clockwise coordinates below, its distance from the origin equals
   the distance of the local centre from (0, 0, 0), and the rotation leaves the origin itself in place. *)
Theorem C17_blockmodel_rotated_about_origin : forall (cosd sind : Q -> Q) b i j k u v z,
  let c := cosd (bm_rotation b) in let s := sind (bm_rotation b) in
  (c * c + s * s == 1)%Q ->
  nth_error (centres (bm_du b)) i = Some u -> nth_error (centres (bm_dv b)) j = Some v ->
  nth_error (centres (bm_dz b)) k = Some z ->
  let nU := length (bm_du b) - 1 in let nZ := length (bm_dz b) - 1 in
  let o := origin_or_zero (bm_origin b) in
  exists q, nth_error (bm_compute (rotm_of cosd sind) b) (k + i * nZ + j * nU * nZ) = Some q
    /\ veq q (vadd (c * u - s * v, s * u + c * v, z)%Q o)
    /\ (sqdist q o == u * u + v * v + z * z)%Q
    /\ veq (vadd (rotm_of cosd sind (bm_rotation b) vzero) o) o.
Proof.
  intros cosd sind b i j k u v z c s H Hu Hv Hz nU nZ o.
  eexists. split; [apply (bm_index (rotm_of cosd sind) b i j k u v z Hu Hv Hz)|].
  fold o. unfold rotm_of. fold c s. split; [apply veq_refl_g|].
  destruct (rotz_about_origin c s o (u, v, z) H) as [Hd H0]. split; [|exact H0].
  rewrite Hd. unfold sqdist, vzero. ring.
Qed.
Print Assumptions C17_blockmodel_rotated_about_origin.

Theorem C17_grid2d_rotated_about_origin : forall (cosd sind : Q -> Q) g i j u v,
  let c := cosd (g_rotation g) in let s := sind (g_rotation g) in
  let cd := cosd (g_eff_dip g) in let sd := sind (g_eff_dip g) in
  (c * c + s * s == 1)%Q -> (cd * cd + sd * sd == 1)%Q ->
  nth_error (g_centres (g_nu g) (g_su g)) i = Some u -> nth_error (g_centres (g_nv g) (g_sv g)) j = Some v ->
  exists q, nth_error (g_compute (rotm_of cosd sind) (dipm_of cosd sind) g) (i + j * g_nu g) = Some q
    /\ veq q (vadd (c * u - s * (cd * v), s * u + c * (cd * v), sd * v)%Q (g_origin g))
    /\ (sqdist q (g_origin g) == u * u + v * v)%Q.
Proof.
  intros cosd sind g i j u v c s cd sd H Hd Hu Hv.
  eexists. split; [apply (g_index (rotm_of cosd sind) (dipm_of cosd sind) g i j u v Hu Hv)|].
  unfold rotm_of, dipm_of. fold c s cd sd. split.
  - destruct (g_origin g) as [[ox oy] oz]. unfold veq, vadd, rotz_cs, rotx_cs. repeat split; ring.
  - rewrite (dip_rot_about_origin c s cd sd (g_origin g) (u, v, 0%Q) H Hd). unfold sqdist, vzero. ring.
Qed.
Print Assumptions C17_grid2d_rotated_about_origin.

Theorem C17_octree_rotated_about_origin : forall (cosd sind : Q -> Q) o p cell,
  let c := cosd (o_rotation o) in let s := sind (o_rotation o) in
  (c * c + s * s == 1)%Q ->
  nth_error (o_cells_or_default o) p = Some cell ->
  let loc := o_local (o_su o) (o_sv o) (o_sw o) cell in
  let org := origin_or_zero (o_origin o) in
  exists q, nth_error (o_compute (rotm_of cosd sind) o) p = Some q
    /\ veq q (vadd (rotz_cs c s loc) org)
    /\ (sqdist q org == sqdist loc vzero)%Q.
Proof.
  intros cosd sind o p cell c s H Hc loc org.
  eexists. split; [apply (o_centroid_nth (rotm_of cosd sind) o p cell Hc)|].
  fold loc org. unfold rotm_of. fold c s. split; [apply veq_refl_g|].
  exact (proj1 (rotz_about_origin c s org loc H)).
Qed.
Print Assumptions C17_octree_rotated_about_origin.

(* non-vacuity: an exact non-trivial rotation, cos = 3/5, sin = 4/5 *)
Example C17_rotation_nonvacuous :
  let cosd := fun _ : Q => (3 # 5)%Q in let sind := fun _ : Q => (4 # 5)%Q in
  let b := {| bm_origin := Some (10, 20, 30)%Q; bm_rotation := 53%Q; bm_du := [0; 10]%Q; bm_dv := [0; 10]%Q; bm_dz := [0; 2]%Q;
              bm_cache := None |} in
  (cosd 53 * cosd 53 + sind 53 * sind 53 == 1)%Q
  /\ vlist_eqb (bm_compute (rotm_of cosd sind) b) [ (10 + 3 - 4, 20 + 4 + 3, 31) ]%Q = true.
Proof. split; vm_compute; reflexivity. Qed.

(* ------------------------------------------------------------------ number of centres = number of cells *)
Theorem C17_n_centroids : forall (rotm dipm : Q -> V3 -> V3),
  (forall b, length (bm_compute rotm b) = bm_n_cells b)
  /\ (forall g, length (g_compute rotm dipm g) = g_n_cells g)
  /\ (forall o, length (o_compute rotm o) = o_n_cells o).
Proof.
  intros rotm dipm. split; [|split].
  - exact (bm_n_centroids rotm).
  - exact (g_n_centroids rotm dipm).
  - exact (o_n_centroids rotm).
Qed.
Print Assumptions C17_n_centroids.

(* every read of .centroids, after any history of API CALLS (setters and earlier reads) on a fresh object, returns the
   centroids of the attributes as they are at that moment (the _centroids cache is never stale).
   SCOPE: histories are sequences of calls of the public setters / getters.  Two routes that are not calls are excluded by
   the [*_api] hypotheses and handled separately: (1) writing INTO an array a getter handed out: `origin["x"] = v` is modelled
   (ops BmOriginX / GOriginX / OOriginX) and REFUTED below; (2) `c = obj.centroids; c[:] = 99` overwrites the cached array
   itself (the getter returns the cache, not a copy): not modelled, the model's reads return values. *)
Theorem C17_cache_coherent : forall (rotm dipm : Q -> V3 -> V3),
  (forall b ops, Forall bm_api ops -> bm_cache b = None ->
     snd (bm_run rotm b (ops ++ [BmRead])) = snd (bm_run rotm b ops) ++ [bm_compute rotm (bm_attrs_after rotm b ops)])
  /\ (forall g ops, Forall g_api ops -> g_cache g = None ->
     snd (g_run rotm dipm g (ops ++ [GRead]))
     = snd (g_run rotm dipm g ops) ++ [g_compute rotm dipm (g_attrs_after rotm dipm g ops)])
  /\ (forall o ops, Forall o_api ops -> o_cache o = None ->
     snd (o_run rotm o (ops ++ [ORead])) = snd (o_run rotm o ops) ++ [o_compute rotm (o_attrs_after rotm o ops)]).
Proof.
  intros rotm dipm. split; [|split].
  - intros b ops Ha H. apply bm_history_read; [exact Ha|]. left. exact H.
  - intros g ops Ha H. apply g_history_read; [exact Ha|]. left. exact H.
  - intros o ops Ha H. apply o_history_read; [exact Ha|]. left. exact H.
Qed.
Print Assumptions C17_cache_coherent.

(* the same statement without the API restriction *)
Definition C17_cache_coherent_full : Prop := forall (rotm : Q -> V3 -> V3) b ops, bm_cache b = None ->
  snd (bm_run rotm b (ops ++ [BmRead])) = snd (bm_run rotm b ops) ++ [bm_compute rotm (bm_attrs_after rotm b ops)].

(* REFUTED: read, then `bm.origin["x"] = 5` (accepted: refused = false), then read: the object reports origin (5, 0, 0) but
   hands out the centroids of the old origin (open finding origin-inplace-stale; the same holds for Grid2D and Octree) *)
Theorem C17_origin_inplace_refuted : ~ C17_cache_coherent_full.
Proof.
  intros H.
  specialize (H (fun _ p => p)
                {| bm_origin := Some (0, 0, 0)%Q; bm_rotation := 0%Q; bm_du := [0; 1]%Q; bm_dv := [0; 1]%Q; bm_dz := [0; 1]%Q;
                   bm_cache := None |} [BmRead; BmOriginX false 5%Q] eq_refl).
  vm_compute in H. discriminate.
Qed.
Print Assumptions C17_origin_inplace_refuted.

(* drape model: a well-formed model (prism p owns layers [first, first+count), in order, no gap) has one centre per layer *)
Theorem C17_drape_n_centroids : forall prisms bottoms,
  drape_wf 0 prisms -> drape_total prisms = length bottoms ->
  exists l, drape_centroids prisms bottoms = Ok l /\ length l = length bottoms.
Proof. exact drape_n_centroids. Qed.
Print Assumptions C17_drape_n_centroids.

(* ... and the centre of layer l of prism p is (x_p, y_p, (top + bottom)/2), top = prism top for its first layer, the
   bottom of the layer above otherwise *)
Theorem C17_drape_centroid : forall prisms bottoms pi p l bot,
  drape_wf 0 prisms -> drape_total prisms = length bottoms ->
  nth_error prisms pi = Some p -> l < pcount p -> nth_error bottoms (pfirst p + l) = Some bot ->
  exists cs top, drape_centroids prisms bottoms = Ok cs
    /\ match l with O => top = ptop p | S l' => nth_error bottoms (pfirst p + l') = Some top end
    /\ nth_error cs (pfirst p + l) = Some (px p, py p, ((top + bot) / 2)%Q).
Proof. exact drape_centroid_nth. Qed.
Print Assumptions C17_drape_centroid.

Example C17_drape_nonvacuous :
  let prisms := [ {| px := 0; py := 0; ptop := 0; pfirst := 0; pcount := 2 |};
                  {| px := 1; py := 0; ptop := 1 # 2; pfirst := 2; pcount := 3 |} ]%Q in
  let bottoms := [ -1; -2; (-3) # 2; -3; -4 ]%Q in
  drape_wf 0 prisms /\ drape_total prisms = length bottoms
  /\ drape_agree prisms bottoms
       (Ok [ (0, 0, (-1) # 2); (0, 0, (-3) # 2); (1, 0, (-1) # 2); (1, 0, (-9) # 4); (1, 0, (-7) # 2) ]%Q) = true.
Proof. simpl. repeat split; try lia. Qed.

(* ------------------------------------------------------------------ octree *)
(* the default octree tiles the 2^eu x 2^ev x 2^ew base grid exactly once: every base cell (a, b, d) is covered by the
   cell at exactly one position of the cell list — for ALL exponents (unbounded) *)
Theorem C17_octree_tiles_once : forall eu ev ew a b d,
  (0 <= a < 2 ^ Z.of_nat eu)%Z -> (0 <= b < 2 ^ Z.of_nat ev)%Z -> (0 <= d < 2 ^ Z.of_nat ew)%Z ->
  exists p, (exists c, nth_error (base_refine eu ev ew) p = Some c /\ covers c a b d)
    /\ forall p', (exists c, nth_error (base_refine eu ev ew) p' = Some c /\ covers c a b d) -> p' = p.
Proof. exact base_refine_tiles_once. Qed.
Print Assumptions C17_octree_tiles_once.

(* ... and no default cell sticks out of the base grid *)
Theorem C17_octree_inside : forall eu ev ew c,
  In c (base_refine eu ev ew) ->
  let '(i, j, k, s) := c in
  (s = 2 ^ Z.of_nat (Nat.min eu (Nat.min ev ew)) /\ 0 <= i /\ i + s <= 2 ^ Z.of_nat eu
   /\ 0 <= j /\ j + s <= 2 ^ Z.of_nat ev /\ 0 <= k /\ k + s <= 2 ^ Z.of_nat ew)%Z.
Proof. exact base_refine_inside. Qed.
Print Assumptions C17_octree_inside.

(* the centre of octree cell p comes from its own (I, J, K, NCells) record, origin given or not *)
Theorem C17_octree_centroid : forall (rotm : Q -> V3 -> V3) o p c,
  nth_error (o_cells_or_default o) p = Some c ->
  nth_error (o_compute rotm o) p
  = Some (vadd (rotm (o_rotation o) (o_local (o_su o) (o_sv o) (o_sw o) c)) (origin_or_zero (o_origin o))).
Proof. exact o_centroid_nth. Qed.
Print Assumptions C17_octree_centroid.

(* ------------------------------------------------------------------ curve: cells <-> parts *)
(* segments derived from part labels join consecutive vertices of the same part only *)
Theorem C17_cells_from_parts : forall parts a b,
  In (a, b) (cells_of_parts parts) <->
  a < b /\ exists p, nth_error parts a = Some p /\ nth_error parts b = Some p
                  /\ forall c, a < c < b -> nth_error parts c <> Some p.
Proof. exact cells_of_parts_spec. Qed.
Print Assumptions C17_cells_from_parts.

(* the full statement: labels derived from segments agree with connectivity *)
Definition C17_parts_full : Prop := forall nv cells parts,
  (forall a b, In (a, b) cells -> a < nv /\ b < nv) -> parts_of_cells nv cells = Ok parts ->
  forall v w, v < nv -> w < nv -> (nth_error parts v = nth_error parts w <-> conn cells v w).

(* REFUTED: cells not listed in chain order (known finding parts-unordered-cells) *)
Theorem C17_parts_from_cells_refuted : ~ C17_parts_full.
Proof.
  intros H. destruct unordered_witness as [Hrun Hconn].
  assert (Hr : forall a b, In (a, b) [(1, 2); (0, 1)] -> a < 3 /\ b < 3).
  { intros a b [E|[E|[]]]; inversion E; subst; lia. }
  pose proof (proj2 (H 3 [(1, 2); (0, 1)] [1; 1; 0] Hr Hrun 1 2 ltac:(lia) ltac:(lia)) Hconn) as E.
  discriminate.
Qed.
Print Assumptions C17_parts_from_cells_refuted.

(* REFUTED, second way: a vertex that belongs to no segment is labelled like the first polyline
   (known finding parts-unused-vertex; it is what the API round trip parts -> cells -> parts does to a one-vertex part) *)
Theorem C17_parts_unused_refuted :
  (exists nv cells parts v w, parts_of_cells nv cells = Ok parts /\ ~ used cells v /\ used cells w
      /\ v <> w /\ ~ conn cells v w /\ nth_error parts v = nth_error parts w)
  /\ parts_of_cells 5 (cells_of_parts [0; 0; 1; 2; 2]%Z) = Ok [0; 0; 0; 1; 1].
Proof.
  split; [|exact (proj2 roundtrip_witness)].
  destruct unused_witness as [Hrun [Hn Hu]].
  exists 3, [(1, 2)], [0; 0; 0], 0, 1. repeat split; try assumption; try lia.
  intros Hc. apply conn_used in Hc. destruct Hc as [E|[A _]]; [discriminate|contradiction].
Qed.
Print Assumptions C17_parts_unused_refuted.

(* PARTIAL: for cells listed as vertex-disjoint chains (every polyline's segments in order, one polyline after the
   other), restricted to vertices that belong to a segment: equal label <-> connected; the label is the chain number.
   Missing for the full property: unordered cells, branching / closed polylines, vertices outside every segment. *)
Theorem C17_parts_from_cells_partial : forall nv chains, chains_ok nv chains ->
  exists parts, parts_of_cells nv (cells_of_chains chains) = Ok parts /\ length parts = nv
    /\ forall v w, In v (concat chains) -> In w (concat chains) ->
         (nth_error parts v = nth_error parts w <-> conn (cells_of_chains chains) v w).
Proof. exact parts_agree_with_connectivity. Qed.
Print Assumptions C17_parts_from_cells_partial.

Theorem C17_parts_labels : forall nv chains, chains_ok nv chains ->
  exists parts, parts_of_cells nv (cells_of_chains chains) = Ok parts
    /\ length parts = nv
    /\ (forall ci c v, nth_error chains ci = Some c -> In v c -> nth_error parts v = Some ci)
    /\ (forall v, v < nv -> ~ In v (concat chains) -> nth_error parts v = Some 0).
Proof. exact parts_of_chains. Qed.
Print Assumptions C17_parts_labels.

(* ------------------------------------------------------------------ non-vacuity *)
Example C17_blockmodel_nonvacuous :
  let b := {| bm_origin := None; bm_rotation := 90%Q; bm_du := [(-10)%Q; (-5)%Q; 0%Q]; bm_dv := [0%Q; 2%Q];
              bm_dz := [0%Q; (-1)%Q; (-3)%Q]; bm_cache := None |} in
  vlist_eqb (bm_compute rot_exact b)
    [ (-1, (-15) # 2, (-1) # 2); (-1, (-15) # 2, -2); (-1, (-5) # 2, (-1) # 2); (-1, (-5) # 2, -2) ]%Q = true
  /\ bm_n_cells b = 4.
Proof. split; vm_compute; reflexivity. Qed.

Example C17_octree_nonvacuous :
  base_refine 2 1 3 = [ (0, 0, 0, 2); (2, 0, 0, 2); (0, 0, 2, 2); (2, 0, 2, 2);
                        (0, 0, 4, 2); (2, 0, 4, 2); (0, 0, 6, 2); (2, 0, 6, 2) ]%Z.
Proof. vm_compute. reflexivity. Qed.

Example C17_parts_nonvacuous :
  chains_ok 6 [[0; 2; 5]; [1; 4]] /\ cells_of_chains [[0; 2; 5]; [1; 4]] = [(0, 2); (2, 5); (1, 4)]
  /\ parts_of_cells 6 [(0, 2); (2, 5); (1, 4)] = Ok [0; 1; 0; 0; 1; 0]
  /\ cells_of_parts [0; 1; 0; 2; 1; 0]%Z = [(0, 2); (2, 5); (1, 4)].
Proof.
  split; [|split; [|split]]; try reflexivity.
  split; [repeat constructor|]. split; [|repeat constructor].
  repeat (constructor; [simpl; intuition lia|]). constructor.
Qed.
