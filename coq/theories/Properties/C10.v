(* C10 -- Read-only workspaces never change the file.
   Only statements, each closed by [exact] (short glue allowed) and followed by Print Assumptions.
   GVgen.Tables_IO is regenerated from the source of $VERIF_REPO on every run (tools/vlib/iotable.py). *)
From GV Require Import Prelude.Base Model.Mode Proofs.ModeProofs.
From GVgen Require Import Tables_IO.
Require Import String.
Open Scope string_scope. Open Scope list_scope.

(* TABLE (complete enumeration of the extracted call sites, decided by vm_compute): every site that reaches an H5Writer /
   H5Reader routine or touches the HDF5 handle is acceptable to the gate [gatedb]: H5Writer routines are only reached through
   `_io_call(..., mode="r+"|"a")`; the only direct H5Writer call is `init_geoh5` on the fresh in-memory file of the `h5file`
   setter; `h5py.File` is only called by `Workspace.open`, that setter and `fetch_h5_handle`; the handle is only handed to a
   routine by `_io_call`; H5Reader requests nothing but "r" and contains no statement that could change an HDF5 object.
   A failing row is listed by [Eval vm_compute in ungated T_iocalls] (the check prints it with file:line). *)
Definition C10_offending_rows :=
  map (fun r => (r_file r, r_line r, r_encl r, r_callee r)) (ungated T_iocalls ++ ungated T_fetch ++ T_reader_mut).
Eval vm_compute in C10_offending_rows.   (* printed into the build log: names file:line when the theorem below fails *)

Theorem C10_all_writers_gated :
  ungated T_iocalls = [] /\ ungated T_fetch = [] /\ T_reader_mut = []
  /\ 20 <= List.length (io_rows T_iocalls) /\ 20 <= List.length T_fetch.
Proof. vm_compute. repeat split; repeat constructor. Qed.
Print Assumptions C10_all_writers_gated.

(* consequently every _io_call that matches a table row (same routine, same literal mode) is gated: a writer routine is
   requested with a writable mode *)
Theorem C10_table_calls_gated : forall c, call_in_table T_iocalls c = true -> gated_call c = true.
Proof.
  intros c. apply table_call_gated. apply ungated_nil_forall. exact (proj1 C10_all_writers_gated).
Qed.
Print Assumptions C10_table_calls_gated.

(* MAIN: for ALL scripts of operations whose _io_call's are table calls and that contain no explicit re-open in a writable
   mode (open("r+"/"a"), fetch_active_workspace(mode="r+"/"a")), run on a workspace built with mode "r" (handle Open R or
   Closed, constructor mode R):  the file is unchanged, the handle is still "r" or closed and the constructor mode still R,
   and every operation that contains a writer routine (and whose reader calls do not fail) is refused -- with the read-only
   error, or with the closed-file error when the workspace is closed at that point. *)
Definition from_table (o : op) : Prop := forallb (call_in_table T_iocalls) (calls_of o) = true.

Theorem C10_readonly_no_write : forall ops w,
  ro w -> Forall (fun o => explicit_reopen o = false /\ from_table o) ops ->
  file (fst (run ops w)) = file w
  /\ ro (fst (run ops w))
  /\ forall pre o post, ops = pre ++ o :: post -> writes o = true -> op_total o = true ->
       snd (step (fst (run pre w)) o) = Some (expected_refusal (fst (run pre w)) o).
Proof.
  intros ops w RO S. apply readonly_no_write_proof; [exact RO|].
  eapply Forall_impl; [|exact S]. intros o [NR FT]. split; [exact NR|].
  unfold op_gated. apply forallb_forall. intros c Ic. apply C10_table_calls_gated.
  unfold from_table in FT. rewrite forallb_forall in FT. apply FT. exact Ic.
Qed.
Print Assumptions C10_readonly_no_write.

(* Workspace.open never grants more than what was asked: a writable handle needs a writable request and an unlocked file
   (the OSError fallback goes to "r") *)
Theorem C10_open_never_upgrades : forall m w,
  handle_of w = Closed ->
  exists got, handle_of (fst (open_ m w)) = Open got
    /\ (writable got = true -> writable (match m with Some x => x | None => defmode w end) = true /\ locked w = false).
Proof. exact open_never_upgrades. Qed.
Print Assumptions C10_open_never_upgrades.

(* CONSTRUCTOR MODE.  Workspace.open(mode) uses the mode it is given and never stores it: after ANY history (explicit re-opens
   included) the constructor's mode is what it was, so a bare open() of a workspace built with mode "r" asks for "r". *)
Theorem C10_ctor_mode_invariant : forall ops w, defmode (fst (run ops w)) = defmode w.
Proof. exact ctor_mode_invariant_proof. Qed.
Print Assumptions C10_ctor_mode_invariant.

(* WRITABLE ONLY ON REQUEST.  In ANY history of a workspace built with mode "r" (table calls; close's final save not failing),
   a step that turns a non-writable handle into a writable one is an explicit open(mode) with a writable mode.  In particular
   bare open(), open("r"), save_as, the helpers and fetch_active_workspace (any mode: a writable request ends closed) never do. *)
Theorem C10_writable_only_on_request : forall ops w,
  defmode w = R -> close_fault w = false -> Forall from_table ops ->
  forall pre o post, ops = pre ++ o :: post ->
    wr_handle (fst (run pre w)) = false -> wr_handle (fst (step (fst (run pre w)) o)) = true ->
    exists m, o = OpenM (Some m) /\ writable m = true.
Proof.
  intros ops w D CF FT. apply writable_only_on_request_proof; [exact D | exact CF|].
  eapply Forall_impl; [|exact FT]. intros o F. unfold op_gated. apply forallb_forall. intros c Ic.
  apply C10_table_calls_gated. unfold from_table in F. rewrite forallb_forall in F. apply F. exact Ic.
Qed.
Print Assumptions C10_writable_only_on_request.

(* READ-ONLY SPANS.  Wherever in a history the handle is not writable, a step that is not an explicit writable re-open leaves the
   file unchanged and the handle non-writable -- also after earlier writable spans. *)
Theorem C10_readonly_span_step : forall w o,
  defmode w = R -> wr_handle w = false -> explicit_reopen o = false -> from_table o ->
  file (fst (step w o)) = file w /\ wr_handle (fst (step w o)) = false /\ defmode (fst (step w o)) = R.
Proof.
  intros w o D W E F. apply readonly_span_step_proof; [exact D | exact W | exact E|].
  unfold op_gated. apply forallb_forall. intros c Ic. apply C10_table_calls_gated.
  unfold from_table in F. rewrite forallb_forall in F. apply F. exact Ic.
Qed.
Print Assumptions C10_readonly_span_step.

(* non-vacuity: r workspace, writable span through fetch_active_workspace("r+") and through open("r+"), then bare open(): "r" again *)
Example C10_spans_nonvacuous :
  let wr := {| c_fn := "H5Writer.update_field"; c_writer := true; c_req := RW; c_fails := false; c_repack := false |} in
  let ops := [FetchActive RW [wr]; OpenM None; Calls [wr]; Close; OpenM (Some RW); Calls [wr]; Close; OpenM None; Calls [wr]] in
  let w := w_init (Open R) R false 0 in
  Forall from_table ops
  /\ snd (run ops w) = [None; None; Some EReadOnly; None; None; None; None; None; Some EReadOnly]
  /\ handle_of (fst (run ops w)) = Open R
  /\ file (fst (run ops w)) = ["H5Writer.update_field"; "H5Writer.save_entity"; "H5Writer.update_field"; "H5Writer.save_entity"].
Proof. cbv zeta. split; [repeat constructor|]. split; [vm_compute; reflexivity|]. split; vm_compute; reflexivity. Qed.

(* HELPERS.  path2workspace(path): the workspace it opens is read-only while open and closed afterwards, the file is unchanged.
   monitored_directory_copy(entity): when the entity's workspace is closed it is opened "r", the file is unchanged, and it is
   closed again; when it is open (any mode) and the copy issues only reader routines on it, file and handle are unchanged. *)
Theorem C10_helpers_readonly :
  (forall f lk cf nc,
     let w0 := {| handle_of := Closed; defmode := R; file := f; locked := lk; close_fault := cf; repack := false; ncat := nc; in_mem := false |} in
     handle_of (fst (open_ None w0)) = Open R /\ path2workspace_run f lk cf nc = (w0, None))
  /\ (forall body w, handle_of w = Closed -> forallb (call_in_table T_iocalls) body = true ->
        handle_of (fst (open_ (Some R) w)) = Open R
        /\ file (fst (step w (MonitoredCopy body))) = file w
        /\ handle_of (fst (step w (MonitoredCopy body))) = Closed)
  /\ (forall body w m, handle_of w = Open m -> existsb c_writer body = false ->
        file (fst (step w (MonitoredCopy body))) = file w /\ handle_of (fst (step w (MonitoredCopy body))) = Open m).
Proof.
  split; [exact path2workspace_readonly|]. split; [|exact monitored_copy_open_readers].
  intros body w H FT. apply monitored_copy_closed; [exact H|].
  apply forallb_forall. intros c Ic. apply C10_table_calls_gated. rewrite forallb_forall in FT. apply FT. exact Ic.
Qed.
Print Assumptions C10_helpers_readonly.

(* non-vacuity: a script that satisfies the hypotheses of the main theorem, mixes readers, writers, listing with a dead referent,
   close, open(), a helper and save_as, and on which the conclusions are not trivial (4 refusals of 2 kinds) *)
Example C10_nonvacuous :
  let rd := {| c_fn := "H5Reader.fetch_values"; c_writer := false; c_req := R; c_fails := false; c_repack := false |} in
  let wr := {| c_fn := "H5Writer.update_field"; c_writer := true; c_req := RW; c_fails := false; c_repack := false |} in
  let ops := [Calls [rd; wr]; List_ 1; Close; Calls [rd]; OpenM None; MonitoredCopy [rd]; SaveAs; Calls [wr]; Path2Workspace] in
  let w := w_init (Open R) R false 1 in
  ro w /\ Forall (fun o => explicit_reopen o = false /\ from_table o) ops
  /\ snd (run ops w) = [Some EReadOnly; Some EReadOnly; None; Some EClosed; None; None; None; Some EReadOnly; None]
  /\ handle_of (fst (run ops w)) = Open R.
Proof.
  cbv zeta. split; [split; [left; reflexivity | reflexivity]|]. split; [|split; vm_compute; reflexivity].
  repeat constructor; vm_compute; reflexivity.
Qed.

(* HELPER BLOCKS THAT RELY ON THE DEFAULT MODE.  Read off the source on every run: the default of fetch_active_workspace's
   `mode` parameter and every `fetch_active_workspace(...)` block inside the library with its literal mode.  The helpers the
   property names ("loading a ui.json", "exporting a copy to a monitoring directory") live in geoh5py/ui_json/: every block
   found in those modules resolves to mode "r", whether it passes it or relies on the default ... *)
Definition resolve_mode (m : rmode) : rmode := match m with MDefault => fetch_active_default | x => x end.
Definition in_helper_module (file : string) : bool := existsb (fun p => String.prefix p file) helper_blocks.
Definition helper_requests_r (x : string * string * N * rmode) : bool :=
  let '(_, file, _, m) := x in
  negb (in_helper_module file) || match resolve_mode m with MR => true | _ => false end.

Theorem C10_helper_blocks_request_readonly : forallb helper_requests_r T_fetch_active_calls = true.
Proof. vm_compute; reflexivity. Qed.

(* non-vacuity, printed into the build log rather than required (a source that passes mode="r" explicitly everywhere is fine):
   the helper blocks of the current source and whether they rely on the default *)
Eval vm_compute in
  filter (fun x => let '(_, file, _, _) := x in in_helper_module file) T_fetch_active_calls.
Print Assumptions C10_helper_blocks_request_readonly.

(* ... and such a block (fetch_active_workspace with mode "r" around gated calls) on a CLOSED workspace built with ANY mode
   — in particular the default "r+", the case where a writable re-open would go unnoticed — opens it "r", leaves the file
   unchanged and closes it again; on an open workspace it performs the body on the handle as it is. *)
Definition strict_req (m : rmode) : option mode :=
  match m with MR => Some R | MRW => Some RW | MA => Some A | _ => None end.

Theorem C10_default_block_readonly : forall body w,
  handle_of w = Closed -> forallb (call_in_table T_iocalls) body = true ->
  exists m, strict_req (resolve_mode MDefault) = Some m
  /\ handle_of (fst (open_ (Some m) w)) = Open R
  /\ file (fst (step w (FetchActive m body))) = file w
  /\ handle_of (fst (step w (FetchActive m body))) = Closed.
Proof.
  intros body w H FT. exists R. split; [reflexivity|].
  change (step w (FetchActive R body)) with (step w (MonitoredCopy body)).
  destruct C10_helpers_readonly as [_ [HM _]]. exact (HM body w H FT).
Qed.
Print Assumptions C10_default_block_readonly.
