(* C02, entity-TYPE clauses — typed layer Model/WsT.v.
   Only statements, each closed by [exact] and followed by Print Assumptions.
   [TInv] (Model/WsTSpec.v): no type identifier twice in a class container, distinct nodes are distinct HDF5 objects, every
   live entity's `Type` link IS the object stored under Types/<class>/<identifier of its live type>. *)
From GV Require Import Prelude.Base Model.WsT Model.WsTSpec Proofs.WsTProofs.

Theorem C02T_init : TInv init.
Proof. exact tinv_init. Qed.
Print Assumptions C02T_init.

(* one operation, any outcome (side condition: no entity created over a stale ENTITY node, the C01 entity-level defect) *)
Theorem C02T_step : forall s o, TInv s -> fresh_op s o = true -> TInv (fst (step s o)).
Proof. exact tinv_step. Qed.
Print Assumptions C02T_step.

(* by induction over all operation lists -- including creations under caller-supplied type identifiers that are live
   (shared), swept, or STALE on file *)
Theorem C02T_run : forall ops, fresh_run ops init = true -> TInv (run ops init).
Proof. exact tinv_run. Qed.
Print Assumptions C02T_run.

Theorem C02T_type_links_shared : forall ops, fresh_run ops init = true -> let s := run ops init in
  NoDup (map fst (ftypes s)) /\
  forall e en, In (e, en) (ents s) ->
    exists n, tget (ekind en, etid en) (ftypes s) = Some n /\ nget e (fents s) = Some (taddr n).
Proof. exact type_links_shared. Qed.
Print Assumptions C02T_type_links_shared.

(* the observable form compared with the implementation: every row of the link dump says "same HDF5 object" *)
Theorem C02T_link_view : forall ops, fresh_run ops init = true ->
  forall r, In r (link_view (run ops init)) -> snd (fst r) = true.
Proof. exact link_view_ok. Qed.
Print Assumptions C02T_link_view.

(* non-vacuity: also the stale-type history satisfies the side condition of THIS theorem (the link is to the stale node,
   which still is the node stored under that identifier) *)
Example C02T_nonvacuous :
  fresh_run ops_demo_t init = true /\ fresh_run ops_stale_type init = true /\
  types_view (run ops_demo_t init) = [(TG, 1, 0, 1); (TG, 2, 0, 2); (TO, 3, 0, 3); (TD, 10, 2, 24); (TD, 11, 2, 26)]%N.
Proof.
  split; [apply fresh_types_fresh; apply ops_demo_t_ok|]. split; [apply ops_stale_type_flags | apply ops_demo_t_ok].
Qed.
