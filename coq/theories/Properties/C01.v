(* C01 — placeholder while the proofs are being written: the initial state is in sync. *)
From GV Require Import Prelude.Base Model.Ws Model.WsCheck.

Theorem C01_init_reopen : fst (step init Reopen) = init.
Proof. vm_compute. reflexivity. Qed.
Print Assumptions C01_init_reopen.
