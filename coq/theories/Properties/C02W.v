(* C02 at world level (two workspaces, cross-workspace copies) — Model/WsX.v [world], [wstep], [copy_x].
   Only statements, each closed by [exact] and followed by Print Assumptions. *)
From GV Require Import Prelude.Base Model.WsX Model.WsXSpec Proofs.WsXWorld.

(* one step: both files stay valid up to orphans (pending identifiers plus forgotten ones) *)
Theorem C02_wstep_orphans : forall W o oa ob,
  WRep W (wpend (wa W) ++ oa) (wpend (wb W) ++ ob) -> wfresh_op W o = true ->
  exists oa' ob', WRep (fst (wstep W o)) (wpend (wa (fst (wstep W o))) ++ oa') (wpend (wb (fst (wstep W o))) ++ ob') /\
                  (oa = [] -> ob = [] -> wclean_op W o = true -> oa' = [] /\ ob' = []).
Proof. exact wrep_step_gen. Qed.
Print Assumptions C02_wstep_orphans.

(* after every two-workspace history without stale identifier re-use (whatever the outcomes): both files are valid up to
   orphans = pending dead identifiers plus identifiers forgotten by a re-open or by a cross-workspace copy *)
Theorem C02_wvalid_upto_orphans : forall ops, wfresh_run ops winit = true ->
  let W := wrun ops winit in
  exists oa ob, Rep (wmem (wa W)) (wfile (wa W)) (wpend (wa W) ++ oa) /\ Rep (wmem (wb W)) (wfile (wb W)) (wpend (wb W) ++ ob).
Proof. exact wrep_run_orphans. Qed.
Print Assumptions C02_wvalid_upto_orphans.

(* PARTIAL (side conditions: [wfresh_run]; [wclean_run] = nothing that may still have a flat node is ever forgotten) *)
Theorem C02_wvalid_upto_partial : forall ops, wfresh_run ops winit = true -> wclean_run ops winit = true ->
  let W := wrun ops winit in
  Rep (wmem (wa W)) (wfile (wa W)) (wpend (wa W)) /\ Rep (wmem (wb W)) (wfile (wb W)) (wpend (wb W)).
Proof. exact wrep_run. Qed.
Print Assumptions C02_wvalid_upto_partial.

Theorem C02_wclose_valid_partial : forall ops i, wfresh_run ops winit = true -> wclean_run ops winit = true ->
  let W := wrun ops winit in
  (forall k, In k (wpend (wsel i W)) -> fst k = KG) ->
  Valid (wfile (close_file (wsel i W))).
Proof. exact wclose_valid. Qed.
Print Assumptions C02_wclose_valid_partial.

(* without [wclean_run]: the closed file is valid when every stored node is live or a pending dead group *)
Theorem C02_wclose_valid_nolinger : forall ops i, wfresh_run ops winit = true ->
  let W := wrun ops winit in let w := wsel i W in
  (forall k n, fget k (flat (wfile w)) = Some n -> In k (keys_of (wmem w)) \/ (In k (wpend w) /\ fst k = KG)) ->
  Valid (wfile (close_file w)).
Proof. exact wclose_valid_nolinger. Qed.
Print Assumptions C02_wclose_valid_nolinger.

Example C02W_nonvacuous :
  wfresh_run wops_demo winit = true /\ wclean_run wops_demo winit = true /\
  (let W := wrun wops_demo winit in
   Rep (wmem (wa W)) (wfile (wa W)) (wpend (wa W)) /\ Rep (wmem (wb W)) (wfile (wb W)) (wpend (wb W))).
Proof. split; [apply wops_demo_ok|]. split; [apply wops_demo_ok | exact wops_demo_rep]. Qed.

(* the hypothesis "only dead groups are pending" met NON-trivially (audit 2, A15): B ends with the dead group (KG,7)
   pending after a cross-workspace copy; the premises of C02_wclose_valid_partial are instantiated, its conclusion follows *)
Example C02W_dead_group_pending :
  wfresh_run wops_dead_group winit = true /\ wclean_run wops_dead_group winit = true /\
  wpend (wb (wrun wops_dead_group winit)) = [(KG, 7%N)] /\
  Valid (wfile (close_file (wsel true (wrun wops_dead_group winit)))).
Proof.
  split; [apply wops_dead_group_ok|]. split; [apply wops_dead_group_ok|]. split; [apply wops_dead_group_ok | exact wops_dead_group_valid].
Qed.
