(* C06 — Identifiers are unique within a workspace and stable across copies.
   Only statements, each closed by [exact] (short glue allowed) and followed by Print Assumptions.

   [run c init h] is the state of two workspaces after history h (any list of creations with fresh or caller-supplied
   identifiers, data, property groups, copies within / across workspaces, removals, deaths of unreferenced instances,
   listing getters, look-ups).  An [owner] is a live instance whose registration succeeded; [holds w ws u e] says that
   e is an owner of kind group/object/data/property group in workspace ws with identifier u.
   [c : cfg] says whether a refused registration undoes the parent assignment; [cur] (generated/C06Cfg.v) is what the
   checked tree does (behavioural probe on every run).                                                               *)
From GV Require Import Prelude.Base Model.Registry Proofs.RegistryProofs Proofs.RegistryTheorems.
From GV Require Import Proofs.RegistryTypes Proofs.RegistryChildren Proofs.RegistryCopy.
From GVgen Require Import C06Cfg.

(* 0. the checked tree undoes the parent assignment of a refused creation; fails on a tree without the repair *)
Theorem C06_checked_tree_is_repaired : cur = repaired.
Proof. reflexivity. Qed.
Print Assumptions C06_checked_tree_is_repaired.

(* 1. the registry invariant after ALL histories: per registry the keys are distinct; every entry points to an instance
      of that workspace and kind carrying that identifier; every live registered instance is the referent of its own
      entry (a live entry is never overwritten by insert_once nor dropped by get_clean_ref / remove_none_referents);
      identifiers in use are below the uuid4 counter *)
Theorem C06_registry_invariant : forall c h, good (run c init h).
Proof. exact reachable_good. Qed.
Print Assumptions C06_registry_invariant.

(* 2. per_kind_unique: no two live registered instances of one kind share an identifier within a workspace *)
Theorem C06_per_kind_unique : forall c h e1 e2,
  let w := run c init h in
  owner w e1 -> owner w e2 ->
  ews (E w e1) = ews (E w e2) -> ekind (E w e1) = ekind (E w e2) -> euid (E w e1) = euid (E w e2) -> e1 = e2.
Proof. exact per_kind_unique. Qed.
Print Assumptions C06_per_kind_unique.

(* the weakref_utils primitive behind it: insert_once succeeds only over an absent or dead reference *)
Theorem C06_insert_once_refuses_live_duplicates : forall alive d k v,
  (exists e, dget d k = Some e /\ alive e = true) <-> insert_once alive d k v = None.
Proof.
  intros alive d k v. unfold insert_once. destruct (dget d k) as [e|].
  - destruct (alive e) eqn:A; split; try discriminate; try reflexivity.
    + intros _. exists e. split; [reflexivity | exact A].
    + intros [e' [H1 H2]]. inversion H1; subst. congruence.
  - split; [intros [e [H _]]; discriminate | discriminate].
Qed.
Print Assumptions C06_insert_once_refuses_live_duplicates.

(* FULL STRENGTH, REFUTED in every variant: uniqueness across kinds.  The registries are per kind: a group may be
   created under the identifier of a live object (open finding cross-kind-identifier-shared) ... *)
Theorem C06_cross_kind_unique_refuted : forall c, ~ cross_kind_unique_full c.
Proof. exact cross_kind_unique_refuted. Qed.
Print Assumptions C06_cross_kind_unique_refuted.

(* ... and get_entity then answers with the group: the object is masked *)
Theorem C06_cross_kind_lookup_masks_the_object :
  forall c, snd (step c (run c init h_cross) (OLookup 0 5)) = Found 7.
Proof. exact cross_kind_lookup_masks_the_object. Qed.
Print Assumptions C06_cross_kind_lookup_masks_the_object.

(* 3. lookup_returns_owner (PARTIAL: side condition = no owner of a kind that find_entity asks earlier shares the
      identifier; exactly the condition the refutation above violates) *)
Theorem C06_lookup_returns_owner : forall c h e,
  let w := run c init h in
  owner w e -> ekind (E w e) <> KType ->
  (forall e', holds w (ews (E w e)) (euid (E w e)) e' -> lookup_rank (ekind (E w e)) <= lookup_rank (ekind (E w e'))) ->
  step c w (OLookup (ews (E w e)) e) = (fst (get_entity w (ews (E w e)) (euid (E w e))), Found e).
Proof. exact lookup_returns_owner. Qed.
Print Assumptions C06_lookup_returns_owner.

(* whatever a look-up returns is a live registered holder of that identifier in that workspace *)
Theorem C06_lookup_result_is_an_owner : forall c h ws u x,
  let w := run c init h in snd (get_entity w ws u) = Some x -> holds w ws u x.
Proof. exact lookup_result_is_an_owner. Qed.
Print Assumptions C06_lookup_result_is_an_owner.

(* 4. the identifier rule used for every piece of a copy (the entity, each copied data child; property groups use the
      same rule on their own registry): if the identifier is held in the target workspace the copy gets the next
      uuid4(), which no instance carries (copy_same_ws_fresh: the source itself holds it there); if nobody holds it the
      identifier is kept (copy_other_ws_keeps_when_free) *)
Theorem C06_copy_identifier_rule : forall c h ws u,
  let w := run c init h in
  ((exists e, holds w ws u e) -> snd (copy_uid w ws u) = fresh w /\ forall e, euid (E w e) <> fresh w)
  /\ ((forall e, ~ holds w ws u e) -> snd (copy_uid w ws u) = u).
Proof. exact copy_identifier_rule. Qed.
Print Assumptions C06_copy_identifier_rule.

Theorem C06_copy_same_ws_fresh : forall c h e,
  let w := run c init h in
  owner w e -> ekind (E w e) <> KType ->
  snd (copy_uid w (ews (E w e)) (euid (E w e))) = fresh w /\ forall e', euid (E w e') <> fresh w.
Proof.
  intros c h e w Ho Hk. apply (copy_identifier_rule c h (ews (E w e)) (euid (E w e))).
  exists e. apply holds_self; assumption.
Qed.
Print Assumptions C06_copy_same_ws_fresh.

Theorem C06_copy_other_ws_keeps_when_free : forall c h ws u,
  let w := run c init h in
  (forall e, ~ holds w ws u e) -> snd (copy_uid w ws u) = u.
Proof. intros c h ws u w. apply (copy_identifier_rule c h ws u). Qed.
Print Assumptions C06_copy_other_ws_keeps_when_free.

(* 5. one_type_per_class.  Function level: EntityType.find_or_create returns the live type registered under the class's
      identifier and creates nothing (C06_type_reused).  State level, PROVED AS AN INVARIANT of every reachable state
      further down: every live group/object's type IS that registered live type (C06_typed_invariant), hence two live
      entities of one class and workspace share ONE type instance (C06_one_type_per_class).  Bounds: the three default
      classes (root, container group, points); data types are not in the model. *)
Theorem C06_type_reused : forall c h ws cls t,
  let w := run c init h in
  In (tuid cls, t) (R w ws KType) -> alive w t = true ->
  snd (find_or_create_type w ws cls) = t /\ n (fst (find_or_create_type w ws cls)) = n w.
Proof. intros c h ws cls t w. apply type_reused. apply reachable_good. Qed.
Print Assumptions C06_type_reused.

(* 6. refused creation.  FULL STRENGTH, REFUTED for the pinned constructor order (parent assignment before
      registration): the refused object stays in root.children ... *)
Theorem C06_refused_creation_no_side_effect_refuted : ~ refused_creation_no_side_effect_full pinned.
Proof. exact refused_creation_no_side_effect_refuted. Qed.
Print Assumptions C06_refused_creation_no_side_effect_refuted.

(* ... with the rollback the refused instance is in no children / property-group list of its parent and is dead *)
Theorem C06_refused_creation_rolled_back : forall c w ws k cls par u ty props w' x,
  rollback c = true -> construct c w ws k cls par u ty props = (w', Refused, x) ->
  x = n w /\ ~ In x (ech (E w' par)) /\ ~ In x (epgs (E w' par)) /\ alive w' x = false.
Proof. exact refused_rollback_detached. Qed.
Print Assumptions C06_refused_creation_rolled_back.

(* ------------------------------------------------------------------------------------------------------------------
   7. END TO END.  (a) children and property-group lists only name existing instances (all histories). *)
Theorem C06_children_name_existing_instances : forall c h, chb (run c init h).
Proof. exact reachable_chb. Qed.
Print Assumptions C06_children_name_existing_instances.

(* (b) one type per class, as an invariant of reachable states: two live groups / objects of one class and workspace hold
       the same type instance, which is alive and is the one registered under the class's identifier *)
Theorem C06_one_type_per_class : forall c h e1 e2,
  let w := run c init h in
  e1 < n w -> e2 < n w -> alive w e1 = true -> alive w e2 = true ->
  is_go (ekind (E w e1)) -> is_go (ekind (E w e2)) ->
  ews (E w e1) = ews (E w e2) -> ecls (E w e1) = ecls (E w e2) ->
  etype (E w e1) = etype (E w e2)
  /\ alive w (etype (E w e1)) = true /\ ekind (E w (etype (E w e1))) = KType.
Proof. exact one_type_per_class. Qed.
Print Assumptions C06_one_type_per_class.

Theorem C06_typed_invariant : forall c h, good (run c init h) /\ typed (run c init h).
Proof. exact reachable_typed. Qed.
Print Assumptions C06_typed_invariant.

(* (c) refusal at operation level, with the rollback repair: a creation under the identifier of a live registered instance
       of the same kind, class and workspace returns Refused; exactly one instance was allocated and it is dead; every
       earlier record (children lists included), every registry, the flat containers AND the child links of the file, the uuid4 counter and the liveness of every earlier entity
       are unchanged *)
Theorem C06_refused_create_unchanged : forall c h ws (isobj : bool) parent e0,
  rollback c = true ->
  let w := run c init h in
  owner w e0 -> ews (E w e0) = ws ->
  ekind (E w e0) = (if isobj then KObject else KGroup) -> ecls (E w e0) = (if isobj then 2 else 1) ->
  usable w parent KGroup = true -> ews (E w parent) = ws ->
  let r := step c w (OCreate ws isobj parent (USame e0)) in
  snd r = Refused /\ n (fst r) = S (n w) /\ alive (fst r) (n w) = false
  /\ (forall y, y < n w -> E (fst r) y = E w y)
  /\ (forall ws' k', R (fst r) ws' k' = R w ws' k')
  /\ (forall ws', flat (fst r) ws' = flat w ws' /\ links (fst r) ws' = links w ws') /\ fresh (fst r) = fresh w
  /\ (forall y, y < n w -> ekind (E w y) <> KType -> alive (fst r) y = alive w y).
Proof. exact refused_create_unchanged. Qed.
Print Assumptions C06_refused_create_unchanged.

(* (d) the copy rule for the operation OCopy as a whole (the entity, each copied data child, each property group): every
       registered instance the copy creates lives in the target workspace and carries either a brand-new identifier or
       the identifier of one of its source pieces that nobody held there ([nohold]; for a property group: no property
       group held it -- its registry is the only one asked, which is the open cross-kind finding) *)
Theorem C06_copy_end_to_end : forall c h e target,
  let w := run c init h in
  let w' := fst (step c w (OCopy e target)) in
  forall x, n w <= x < n w' -> ekind (E w' x) <> KType -> ereg (E w' x) = true ->
    ews (E w' x) = ews (E w target)
    /\ (fresh w <= euid (E w' x)
        \/ exists s, In s (pieces w e (ekind (E w' x))) /\ euid (E w' x) = euid (E w s)
                     /\ nohold w (ews (E w target)) (euid (E w s)) (ekind (E w' x))).
Proof. exact copy_end_to_end. Qed.
Print Assumptions C06_copy_end_to_end.

(* when every source piece holds its identifier in the target workspace, everything the copy registers is fresh.
   CONDITIONAL (audit 2, A15): the premise is a HYPOTHESIS.  It is what one expects of a same-workspace copy
   (ews e = ews target, source and children live and registered), but it is NOT derived here from `ews e = ews target`:
   that needs an invariant "the children and property groups of a live registered entity are live, registered, of the same
   workspace and of the right kind" (true with rollback c = true as far as the correspondence shows; not proved).  So
   "same workspace => all fresh" is proved at rule level only (C06_copy_same_ws_fresh: copy_uid, holder given) and for
   the whole copy under this premise; the implementation side is the oracle key same-ws-copy-reuses-identifier. *)
Theorem C06_copy_all_fresh_when_held : forall c h e target,
  let w := run c init h in
  let w' := fst (step c w (OCopy e target)) in
  (forall k s, In s (pieces w e k) -> exists y, holds w (ews (E w target)) (euid (E w s)) y /\ (k = KPG -> ekind (E w y) = KPG)) ->
  forall x, n w <= x < n w' -> ekind (E w' x) <> KType -> ereg (E w' x) = true ->
    fresh w <= euid (E w' x) /\ forall y, euid (E w y) <> euid (E w' x).
Proof. exact copy_all_fresh_when_held. Qed.
Print Assumptions C06_copy_all_fresh_when_held.

(* another workspace: an identifier is only ever kept when it was free in the target *)
Theorem C06_copy_kept_only_when_free : forall c h e target,
  let w := run c init h in
  let w' := fst (step c w (OCopy e target)) in
  forall x, n w <= x < n w' -> ekind (E w' x) <> KType -> ereg (E w' x) = true -> euid (E w' x) < fresh w ->
    exists s, In s (pieces w e (ekind (E w' x))) /\ euid (E w' x) = euid (E w s)
              /\ nohold w (ews (E w target)) (euid (E w s)) (ekind (E w' x)).
Proof. exact copy_kept_only_when_free. Qed.
Print Assumptions C06_copy_kept_only_when_free.

(* ------------------------------------------------------------------------------------------------------------------
   non-vacuity *)
Example C06_nonvacuous_copy :
  forall c, let w := run c init h_copy in
  n w = 15
  /\ map (fun e => uidrep w (euid (E w e))) [5; 6; 7; 8; 9; 10; 12; 13; 14] = [5; 6; 7; 8; 9; 10; 5; 6; 7]
  /\ etype (E w 5) = etype (E w 8) /\ etype (E w 12) = 11.
Proof. exact copy_example. Qed.

Example C06_nonvacuous_refused_repaired :
  let w := run repaired init h_dup in
  let w' := fst (step repaired w (OCreate 0 true 1 (USame 5))) in
  snd (step repaired w (OCreate 0 true 1 (USame 5))) = Refused
  /\ ech (E w' 1) = ech (E w 1) /\ ech (E w 1) = [5] /\ alive w' 6 = false /\ flat w' 0 = flat w 0.
Proof. exact refused_creation_repaired_example. Qed.

Example C06_nonvacuous_refused_hypotheses :
  let w := run repaired init h_dup in
  owner w 5 /\ ews (E w 5) = 0 /\ ekind (E w 5) = KObject /\ ecls (E w 5) = 2 /\ usable w 1 KGroup = true /\ ews (E w 1) = 0.
Proof. vm_compute. repeat split; try reflexivity; lia. Qed.

Example C06_nonvacuous_copy_pieces :
  forall c, let w := run c init [OCreate 0 true 1 UFresh; OData 5 UFresh; OPg 5 [6] UFresh] in
  pieces w 5 KObject = [5; 6; 7] /\ pieces w 5 KPG = [7]
  /\ owner w 5 /\ owner w 6 /\ owner w 7 /\ ekind (E w 7) = KPG.
Proof. intros [[]]; vm_compute; repeat split; try reflexivity; lia. Qed.
