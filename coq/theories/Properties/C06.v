(* C06 placeholder *)
From GV Require Import Prelude.Base Model.Registry.
From GVgen Require Import C06Cfg.
Theorem C06_placeholder : forall alive d k v d', insert_once alive d k v = Some d' -> dget d k = None \/ exists e, dget d k = Some e /\ alive e = false.
Proof. intros alive d k v d'. unfold insert_once. destruct (dget d k) as [e|]; [|auto]. destruct (alive e) eqn:A; [discriminate|]. intros _. right. exists e. auto. Qed.
Print Assumptions C06_placeholder.
