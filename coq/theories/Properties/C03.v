(* C03 — No accepted attribute change is lost (write-through completeness of every property setter).
   Only statements, each closed by [exact]/short glue and followed by Print Assumptions.
   The tables (T_funcs, T_classes, T_pairs) are regenerated from the geoh5py source on every run. *)
From GV Require Import Prelude.Base Model.Setters Model.SettersListed Model.SettersWriter Proofs.SettersProofs Proofs.SettersWriterProofs.
From GVgen Require Import Tables_C03.
From Coq Require Import String.

(* Generic soundness of the analysis, unbounded in the entity state, the values stored and the number of loop
   iterations: on a path that passes [fp_ok], from any entity that is on file and whose watched fields agree with the
   file, every unrolling leaves every watched field in memory equal to what the file holds.
   PARTIAL in one respect: [name_safe] - the entity is not (and is not being) named like the project; see
   C03_project_name_refuted for what happens otherwise. *)
Theorem C03_write_through_sound : forall watch p u vals e,
  fp_ok watch p = true -> unroll p u -> onf e = true -> name_safe e vals -> in_sync watch e ->
  in_sync watch (run u 0 vals e).
Proof. exact write_through_sound. Qed.
Print Assumptions C03_write_through_sound.

(* ... and the value both hold is the one of the last store (the assigned value, as formatted by the setter). *)
Theorem C03_assigned_value_is_stored : forall watch p u vals e f i,
  fp_ok watch p = true -> unroll p u -> onf e = true -> name_safe e vals -> in_sync watch e -> In f watch -> last_store f u 0 = Some i ->
  mem (run u 0 vals e) f = vals i /\ sto (run u 0 vals e) f = vals i.
Proof. exact assigned_value_is_stored. Qed.
Print Assumptions C03_assigned_value_is_stored.

(* The same for a row of the extracted table: every normally-ending path of a setter that passes the table check. *)
Theorem C03_pair_sound : forall q, In q T_pairs -> pair_ok T_funcs T_classes q = true ->
  forall p, In p (pair_paths T_funcs T_classes false q) ->
  forall u vals e, unroll p u -> onf e = true -> name_safe e vals -> in_sync (pair_watch T_classes q) e ->
  in_sync (pair_watch T_classes q) (run u 0 vals e).
Proof.
  intros q _ Hok. unfold pair_ok in Hok. apply andb_true_iff in Hok as [Hok _]. apply andb_true_iff in Hok as [Hs _].
  exact (pair_sound T_funcs T_classes q Hs).
Qed.
Print Assumptions C03_pair_sound.

(* Diagnostics printed into the build log (so that a broken table theorem names the offending rows, file:line):
   pairs that fail the check and are not listed; listed pairs that no longer fail. Both are [] when the theorems hold. *)
Definition C03_unlisted_failures :=
  map (fun q => (q_cname q, q_attr q, q_name q, match find_func T_funcs (q_fid q) with Some f => f_loc f | None => "?"%string end))
      (filter (fun q => q_scope q && negb (pair_ok T_funcs T_classes q) && negb (listed_as C03_listed q)) T_pairs).
Definition C03_stale_listed :=
  map (fun q => (q_cname q, q_attr q, q_name q))
      (filter (fun q => q_scope q && listed_as C03_listed q && pair_ok T_funcs T_classes q) T_pairs).
Eval vm_compute in (C03_unlisted_failures, C03_stale_listed).

(* The complete, finite table (every (concrete class, assignable attribute) pair in scope; the row count is printed
   in the evidence): each pair passes the check or its setter is listed as refuted.  By computation. *)
Theorem C03_all_setters_ok : forall q, In q T_pairs -> q_scope q = true ->
  pair_ok T_funcs T_classes q = true \/ listed_as C03_listed q = true.
Proof.
  assert (H : forallb (fun q => negb (q_scope q) || pair_ok T_funcs T_classes q || listed_as C03_listed q) T_pairs = true)
    by (vm_compute; reflexivity).
  rewrite forallb_forall in H. intros q Hq Hs. specialize (H q Hq). rewrite Hs in H.
  change (negb true) with false in H. rewrite orb_false_l in H.
  apply orb_true_iff in H. exact H.
Qed.
Print Assumptions C03_all_setters_ok.

(* The list is exact.  (a) every listed name matches a pair of the current table; (b) EVERY in-scope pair it matches
   fails the check (so the short key is precise: no class for which the setter works hides behind it), with a
   computed witness of loss (memory and file differ after a normally-ending path) or of refusal (no normally-ending
   path touches the attribute).  A repaired setter makes this theorem fail: the list cannot go stale. *)
Theorem C03_listed_exact :
  (forall n, In n C03_listed -> exists q, In q T_pairs /\ q_scope q = true /\ listed_as [n] q = true) /\
  (forall q, In q T_pairs -> q_scope q = true -> listed_as C03_listed q = true ->
     pair_ok T_funcs T_classes q = false /\
     (pair_lost T_funcs T_classes q = true \/ pair_refused T_funcs T_classes q = true)).
Proof.
  split.
  - assert (H : forallb (fun n => existsb (fun q => q_scope q && listed_as [n] q) T_pairs) C03_listed = true)
      by (vm_compute; reflexivity).
    rewrite forallb_forall in H. intros n Hn. specialize (H n Hn). apply existsb_exists in H as [q [Hq H]].
    apply andb_true_iff in H as [H1 H2]. exists q. auto.
  - assert (H : forallb (fun q => negb (q_scope q && listed_as C03_listed q)
                                 || (negb (pair_ok T_funcs T_classes q)
                                     && (pair_lost T_funcs T_classes q || pair_refused T_funcs T_classes q))) T_pairs = true)
      by (vm_compute; reflexivity).
    rewrite forallb_forall in H. intros q Hq Hs Hl. specialize (H q Hq). rewrite Hs, Hl in H.
    change (negb (true && true)) with false in H. rewrite orb_false_l in H.
    apply andb_true_iff in H as [H1 H2]. split; [apply negb_true_iff; exact H1 | apply orb_true_iff; exact H2].
Qed.
Print Assumptions C03_listed_exact.

(* What a computed loss means in the model: a concrete in-sync, on-file entity and a normally-ending unrolled path of
   the setter after which memory and file differ on an inspected field. *)
Theorem C03_lost_witness : forall q, pair_lost T_funcs T_classes q = true ->
  exists p u, In p (pair_paths T_funcs T_classes false q) /\ unroll p u /\ no_bad u = true /\
              onf e0 = true /\ in_sync (check_fields T_funcs T_classes q) e0 /\
              ~ in_sync (check_fields T_funcs T_classes q) (run u 0 vals0 e0).
Proof. exact (pair_lost_witness T_funcs T_classes). Qed.
Print Assumptions C03_lost_witness.

(* REFUTED: the property at full strength (every pair passes) is false of today's source. *)
Definition C03_full : Prop := forall q, In q T_pairs -> q_scope q = true -> pair_ok T_funcs T_classes q = true.

Theorem C03_full_refuted : ~ C03_full.
Proof.
  intros H.
  assert (E : existsb (fun q => q_scope q && negb (pair_ok T_funcs T_classes q)) T_pairs = true) by (vm_compute; reflexivity).
  apply existsb_exists in E as [q [Hq E]]. apply andb_true_iff in E as [Hs E].
  rewrite (H q Hq Hs) in E. discriminate.
Qed.
Print Assumptions C03_full_refuted.

(* OLD-CODE refutation (about the model parameter [nrule], not about today's source): under the former
   H5Writer.fetch_handle shortcut `if entity.name == base: return base_handle` an entity with [nrule e = true] that is
   given the project's name loses the write.  Witness: the path of Entity.name (store the name, persist
   "attributes") passes the check, [e_ws] is on file and in sync with nrule = true, the value stored is the project's
   name - afterwards memory and file differ.  This is why the generic theorem carries [name_safe]. *)
Definition C03_any_value : Prop := forall watch p u vals e,
  fp_ok watch p = true -> unroll p u -> onf e = true -> in_sync watch e -> in_sync watch (run u 0 vals e).

Theorem C03_project_name_refuted_old_rule : nrule e_ws = true /\ ~ C03_any_value.
Proof.
  split; [reflexivity|]. intros H.
  specialize (H [NAME] [X (FStore NAME); X (FPersist [NAME])] [FStore NAME; FPersist [NAME]] vals_ws e_ws).
  assert (S : in_sync [NAME] (run [FStore NAME; FPersist [NAME]] 0 vals_ws e_ws)).
  { apply H; try reflexivity. repeat constructor. intros f _. reflexivity. }
  specialize (S NAME (or_introl eq_refl)). vm_compute in S. discriminate.
Qed.
Print Assumptions C03_project_name_refuted_old_rule.

(* TODAY'S SOURCE: the extractor finds the shortcut guarded (`not isinstance(entity, (Entity, EntityType)) and ...`), so the
   generated flag is false, every entity of the current tree ([nrule e = T_name_rule]) is name_safe for any values, and the
   write-through theorem holds without that hypothesis.  (A tree that re-introduces the shortcut makes this fail.) *)
Theorem C03_name_safe_current : T_name_rule = false /\ forall e vals, nrule e = T_name_rule -> name_safe e vals.
Proof. split; [reflexivity|]. intros e vals H. left. rewrite H. reflexivity. Qed.
Print Assumptions C03_name_safe_current.

Theorem C03_write_through_sound_current : forall watch p u vals e,
  nrule e = T_name_rule -> fp_ok watch p = true -> unroll p u -> onf e = true -> in_sync watch e ->
  in_sync watch (run u 0 vals e).
Proof.
  intros watch p u vals e Hr Hok Hu Hon Hs.
  exact (write_through_sound watch p u vals e Hok Hu Hon (proj2 C03_name_safe_current e vals Hr) Hs).
Qed.
Print Assumptions C03_write_through_sound_current.

(* ------------------------------------------------------------------ the writer side (Model/SettersWriter.v) *)
(* H5Writer.write_attributes, one key: for every well-formed non-None value of every Python/numpy scalar type (bool,
   np.bool_, np.int8, wider numpy integers and int within the int64 range, float, np.floating, text without an embedded
   NUL - see [wf]), whatever the attribute held before, the branch chain extracted from the source stores a value that
   reads back equal.  ([AModify]/[GExists] do not occur in today's chain; they let the table express a changed chain.) *)
Theorem C03_scalar_write_faithful : forall old v, wf v ->
  exists st, write_scalar T_scalar_chain old v = Some st /\ faithful st v.
Proof. intros old v. apply scalar_write_faithful. vm_compute. reflexivity. Qed.
Print Assumptions C03_scalar_write_faithful.

(* The dataset writers (value map, colour map, array attributes, data values / metadata / options): the table names
   exactly these four routines (an extractor that returns nothing cannot satisfy this), and after each ran with value v
   (None included) the file holds exactly v, whatever it held before. *)
Theorem C03_dataset_writers_exact :
  map fst T_writers = ["write_array_attribute"; "write_color_map"; "write_data_values"; "write_value_map"]%string /\
  forall name steps, In (name, steps) T_writers ->
  forall (A : Type) (old v : option A), wfinal steps old v = Some v.
Proof.
  split; [reflexivity|].
  assert (H : forallb (fun p => writer_ok (snd p)) T_writers = true) by (vm_compute; reflexivity).
  rewrite forallb_forall in H. intros name steps Hin A old v. apply dataset_write_exact. exact (H _ Hin).
Qed.
Print Assumptions C03_dataset_writers_exact.

(* None on a scalar attribute.  OLD CODE (model parameter skip_none = true, i.e. `... or value is None: continue`):
   clearing an attribute that holds something leaves the old value on file - refuted with the witness end_of_hole = 100
   stored, then None assigned. *)
Theorem C03_scalar_none_refuted_old_skip :
  ~ (forall old, write_attr T_scalar_chain true old None = Some None).
Proof.
  intros H. specialize (H (Some {| h_type := HInt64; h_int := 100%Z; h_frac := false; h_txt := 0%N |})).
  vm_compute in H. discriminate.
Qed.
Print Assumptions C03_scalar_none_refuted_old_skip.

(* TODAY'S SOURCE (generated flag T_skip_none, false since the None case deletes the attribute before `continue`):
   writing None over any old value leaves the attribute absent, so a reader gets None back.  (Fails on a tree that
   skips None again.) *)
Theorem C03_scalar_none_clears_current :
  T_skip_none = false /\ forall old, write_attr T_scalar_chain T_skip_none old None = Some None.
Proof. split; [reflexivity|]. intros old. reflexivity. Qed.
Print Assumptions C03_scalar_none_clears_current.

(* non-vacuity: the hypotheses of the soundness theorem are met by a non-trivial path (a loop whose body stores and
   relies on the persistence call after the loop), and the on-file hypothesis is needed. *)
Example C03_nonvacuous :
  let p := [X (FStore 1%N); L [[FStore 2%N]; []]; X (FPersist [1%N; 2%N]); X (FStore 3%N)] in
  fp_ok [1%N; 2%N] p = true /\ unroll p [FStore 1%N; FStore 2%N; FStore 2%N; FPersist [1%N; 2%N]; FStore 3%N]
  /\ in_sync [1%N; 2%N] e0 /\ onf e0 = true /\ name_safe e0 vals0 /\ name_safe e_ws (fun _ => 1%N)
  /\ fp_ok [1%N; 2%N; 3%N] p = false
  /\ in_syncb [1%N] (run [FStore 1%N; FPersist [1%N]] 0 vals0
                         {| mem := fun _ => 0%N; sto := fun _ => 0%N; onf := false; nrule := false; wsname := 0%N |}) = false.
Proof.
  split; [reflexivity|]. split.
  { constructor. apply (un_iter [[FStore 2%N]; []] [FStore 2%N]); [left; reflexivity|].
    apply (un_iter [[FStore 2%N]; []] [FStore 2%N]); [left; reflexivity|]. apply un_done. repeat constructor. }
  split; [intros f _; reflexivity|]. split; [reflexivity|]. split; [left; reflexivity|].
  split; [right; split; [discriminate | intros _; discriminate]|].
  split; reflexivity.
Qed.
