(* C18 — Drillhole positions follow the survey.
   Only statements, each closed by [exact] (short glue allowed) and followed by Print Assumptions.
   [ang] is the type of an (azimuth, dip) pair and [dir] its direction vector (the trigonometry is a parameter);
   [augment s] is the survey table with its first row repeated at depth 0, exactly as the code builds it. *)
From GV Require Import Prelude.Base Model.GridIndex Model.Desurvey Proofs.DesurveyProofs.
From Coq Require Import QArith.
Close Scope Q_scope.

(* the position computed for depth zero is the collar *)
Theorem C18_collar_at_zero : forall (ang : Type) (dir : ang -> V3) collar (s : list (Q * ang)),
  survey_ok s -> exists p, desurvey dir collar s 0%Q = Some p /\ veq p collar.
Proof. exact collar_at_zero. Qed.
Print Assumptions C18_collar_at_zero.

(* within leg k (after station k, up to and including station k+1) the position is
   location_k + (d - depth_k) * deviation_k *)
Theorem C18_leg_formula : forall (ang : Type) (dir : ang -> V3) collar (s : list (Q * ang)) d k tk tk1 l v p,
  survey_ok s ->
  nth_error (depths_of (augment s)) k = Some tk -> nth_error (depths_of (augment s)) (S k) = Some tk1 ->
  (tk < d)%Q -> (d <= tk1)%Q ->
  nth_error (legs dir (augment s)) k = Some (l, v) -> nth_error (locations dir collar s) k = Some p ->
  desurvey dir collar s d = Some (vadd p (vscale (d - tk)%Q v)).
Proof.
  intros ang dir collar s d k tk tk1 l v p [Hne Hs] Hk Hk1 Hlt Hle Hleg Hloc.
  destruct (augment_shape ang s Hne) as [a [_ [_ Hd]]].
  assert (H1 : sortedQ (depths_of (augment s))) by (rewrite Hd; exact Hs).
  unfold desurvey. exact (desurvey_on_leg ang dir collar (augment s) d k tk tk1 l v p H1 Hk Hk1 Hlt Hle Hleg Hloc).
Qed.
Print Assumptions C18_leg_formula.

(* the deviation of leg k is the mean of the two station directions; where the two directions coincide it is that
   direction, so the position moves by exactly the depth difference along it *)
Theorem C18_leg_direction : forall (ang : Type) (dir : ang -> V3) (t : list (Q * ang)) k t0 a0 t1 a1,
  nth_error t k = Some (t0, a0) -> nth_error t (S k) = Some (t1, a1) ->
  exists v, nth_error (legs dir t) k = Some ((t1 - t0)%Q, v)
    /\ veq v (vmean (dir a0) (dir a1))
    /\ (veq (dir a0) (dir a1) -> veq v (dir a0)).
Proof.
  intros ang dir t k t0 a0 t1 a1 H0 H1. eexists. split; [apply legs_nth; eassumption|]. split.
  - apply dev_mean.
  - apply dev_same.
Qed.
Print Assumptions C18_leg_direction.

(* the code before fixes/C18-divide-uninitialised.patch: "every leg moves along the mean of its two station directions" *)
Definition C18_old_leg_direction_full : Prop := forall g din dout len, veq (dev_old g din dout len) (vmean din dout).

(* REFUTED (pre-repair code): a zero-length leg takes the first station's direction even when the uninitialised entry of
   np.divide(where=) holds a finite number g (with NaN there every location becomes NaN); it matters for the last leg,
   whose deviation is continued beyond the final survey *)
Theorem C18_divide_old_code_refuted : ~ C18_old_leg_direction_full.
Proof. intros H. exact (proj2 (dev_old_zero_leg_witness 0%Q) (H 0%Q (0, 0, 1)%Q (0, 0, -1)%Q 0%Q)). Qed.
Print Assumptions C18_divide_old_code_refuted.

(* continuity at every station, part 1: leg k ends where leg k+1 starts *)
Theorem C18_continuous_legs : forall (ang : Type) (dir : ang -> V3) collar (s : list (Q * ang)) k p l v,
  nth_error (locations dir collar s) k = Some p -> nth_error (legs dir (augment s)) k = Some (l, v) ->
  exists p', nth_error (locations dir collar s) (S k) = Some p' /\ veq p' (vadd p (vscale l v)).
Proof. intros ang dir collar s k p l v. apply locations_step. Qed.
Print Assumptions C18_continuous_legs.

(* continuity, part 2: desurveying a station's own depth gives that station's location, also when several stations
   share the depth (the value of the leg formula from the left equals the value at the station) *)
Theorem C18_continuous_at_station : forall (ang : Type) (dir : ang -> V3) collar (s : list (Q * ang)) k tk pk,
  survey_ok s ->
  nth_error (depths_of (augment s)) k = Some tk -> nth_error (locations dir collar s) k = Some pk ->
  exists p, desurvey dir collar s tk = Some p /\ veq p pk.
Proof.
  intros ang dir collar s k tk pk [Hne Hs] Hk Hpk.
  destruct (augment_shape ang s Hne) as [a [_ [Hlen Hd]]].
  assert (H1 : sortedQ (depths_of (augment s))) by (rewrite Hd; exact Hs).
  assert (H2 : 2 <= length (augment s)) by (rewrite Hlen; destruct s; [contradiction|simpl; lia]).
  unfold desurvey. exact (desurvey_on_station ang dir collar (augment s) k tk pk H1 H2 Hk Hpk).
Qed.
Print Assumptions C18_continuous_at_station.

(* beyond the final survey the path continues the direction of the last leg
   (the mean of the last two station directions; the last station's own direction when the table has one row) *)
Theorem C18_beyond_last : forall (ang : Type) (dir : ang -> V3) collar (s : list (Q * ang)) d n tn l v p,
  survey_ok s -> length s = S n ->
  nth_error (depths_of (augment s)) (S n) = Some tn -> (tn < d)%Q ->
  nth_error (legs dir (augment s)) n = Some (l, v) -> nth_error (locations dir collar s) (S n) = Some p ->
  desurvey dir collar s d = Some (vadd p (vscale (d - tn)%Q v)).
Proof.
  intros ang dir collar s d n tn l v p [Hne Hs] Hn Hk Hlt Hleg Hloc.
  destruct (augment_shape ang s Hne) as [a [_ [Hlen Hd]]].
  assert (H1 : sortedQ (depths_of (augment s))) by (rewrite Hd; exact Hs).
  assert (H2 : length (augment s) = S (S n)) by (rewrite Hlen, Hn; reflexivity).
  unfold desurvey. exact (desurvey_on_beyond ang dir collar (augment s) d n tn l v p H1 H2 Hk Hlt Hleg Hloc).
Qed.
Print Assumptions C18_beyond_last.

(* non-vacuity: a table with a repeated depth, first station at depth 0 *)
Example C18_nonvacuous :
  let s := [ (0, (0, -90)); (10, (90, 0)); (10, (0, 0)); (20, (0, -90)) ]%Q in
  let collar := (1, 2, 3)%Q in
  survey_okb s = true
  /\ vlist_eqb (locations dir_exact collar s) [ (1, 2, 3); (1, 2, 3); (6, 2, -2); (6, 2, -2); (6, 7, -7) ]%Q = true
  /\ list_eqb opt_veqb (map (desurvey dir_exact collar s) [ 0; 5; 10; 15; 20; 25 ]%Q)
       (map (@Some V3) [ (1, 2, 3); (7 # 2, 2, 1 # 2); (6, 2, -2); (6, 9 # 2, (-9) # 2); (6, 7, -7); (6, 19 # 2, (-19) # 2) ]%Q) = true.
Proof. vm_compute. repeat split. Qed.
