(* C18 — Drillhole positions follow the survey.
   Only statements, each closed by [exact] (short glue allowed) and followed by Print Assumptions.
   [ang] is the type of an (azimuth, dip) pair and [dir] its direction vector (the trigonometry is a parameter);
   [augment s] is the survey table with its first row repeated at depth 0, exactly as the code builds it. *)
From GV Require Import Prelude.Base Model.GridIndex Model.Desurvey Model.HoleData Proofs.DesurveyProofs Proofs.HoleDataProofs.
From Coq Require Import QArith.
Close Scope Q_scope.

(* the position computed for depth zero is the collar *)
Theorem C18_collar_at_zero : forall (ang : Type) (dir : ang -> V3) collar (s : list (Q * ang)),
  survey_ok s -> exists p, desurvey dir collar s 0%Q = Some p /\ veq p collar.
Proof. exact collar_at_zero. Qed.
Print Assumptions C18_collar_at_zero.

(* within leg k (after station k, up to and including station k+1) the position is
   location_k + (d - depth_k) * deviation_k *)
Theorem C18_leg_formula : forall (ang : Type) (dir : ang -> V3) collar (s : list (Q * ang)) d k tk tk1 l v p,
  survey_ok s ->
  nth_error (depths_of (augment s)) k = Some tk -> nth_error (depths_of (augment s)) (S k) = Some tk1 ->
  (tk < d)%Q -> (d <= tk1)%Q ->
  nth_error (legs dir (augment s)) k = Some (l, v) -> nth_error (locations dir collar s) k = Some p ->
  desurvey dir collar s d = Some (vadd p (vscale (d - tk)%Q v)).
Proof.
  intros ang dir collar s d k tk tk1 l v p [Hne Hs] Hk Hk1 Hlt Hle Hleg Hloc.
  destruct (augment_shape ang s Hne) as [a [_ [_ Hd]]].
  assert (H1 : sortedQ (depths_of (augment s))) by (rewrite Hd; exact Hs).
  unfold desurvey. exact (desurvey_on_leg ang dir collar (augment s) d k tk tk1 l v p H1 Hk Hk1 Hlt Hle Hleg Hloc).
Qed.
Print Assumptions C18_leg_formula.

(* the deviation of leg k is the mean of the two station directions; where the two directions coincide it is that
   direction, so the position moves by exactly the depth difference along it *)
Theorem C18_leg_direction : forall (ang : Type) (dir : ang -> V3) (t : list (Q * ang)) k t0 a0 t1 a1,
  nth_error t k = Some (t0, a0) -> nth_error t (S k) = Some (t1, a1) ->
  exists v, nth_error (legs dir t) k = Some ((t1 - t0)%Q, v)
    /\ veq v (vmean (dir a0) (dir a1))
    /\ (veq (dir a0) (dir a1) -> veq v (dir a0)).
Proof.
  intros ang dir t k t0 a0 t1 a1 H0 H1. eexists. split; [apply legs_nth; eassumption|]. split.
  - apply dev_mean.
  - apply dev_same.
Qed.
Print Assumptions C18_leg_direction.

(* the code before fixes/C18-divide-uninitialised.patch: "every leg moves along the mean of its two station directions" *)
Definition C18_old_leg_direction_full : Prop := forall g din dout len, veq (dev_old g din dout len) (vmean din dout).

(* REFUTED (pre-repair code): a zero-length leg takes the first station's direction even when the uninitialised entry of
   np.divide(where=) holds a finite number g (with NaN there every location becomes NaN); it matters for the last leg,
   whose deviation is continued beyond the final survey *)
Theorem C18_divide_old_code_refuted : ~ C18_old_leg_direction_full.
Proof. intros H. exact (proj2 (dev_old_zero_leg_witness 0%Q) (H 0%Q (0, 0, 1)%Q (0, 0, -1)%Q 0%Q)). Qed.
Print Assumptions C18_divide_old_code_refuted.

(* continuity at every station, part 1: leg k ends where leg k+1 starts *)
Theorem C18_continuous_legs : forall (ang : Type) (dir : ang -> V3) collar (s : list (Q * ang)) k p l v,
  nth_error (locations dir collar s) k = Some p -> nth_error (legs dir (augment s)) k = Some (l, v) ->
  exists p', nth_error (locations dir collar s) (S k) = Some p' /\ veq p' (vadd p (vscale l v)).
Proof. intros ang dir collar s k p l v. apply locations_step. Qed.
Print Assumptions C18_continuous_legs.

(* continuity, part 2: desurveying a station's own depth gives that station's location, also when several stations
   share the depth (the value of the leg formula from the left equals the value at the station) *)
Theorem C18_continuous_at_station : forall (ang : Type) (dir : ang -> V3) collar (s : list (Q * ang)) k tk pk,
  survey_ok s ->
  nth_error (depths_of (augment s)) k = Some tk -> nth_error (locations dir collar s) k = Some pk ->
  exists p, desurvey dir collar s tk = Some p /\ veq p pk.
Proof.
  intros ang dir collar s k tk pk [Hne Hs] Hk Hpk.
  destruct (augment_shape ang s Hne) as [a [_ [Hlen Hd]]].
  assert (H1 : sortedQ (depths_of (augment s))) by (rewrite Hd; exact Hs).
  assert (H2 : 2 <= length (augment s)) by (rewrite Hlen; destruct s; [contradiction|simpl; lia]).
  unfold desurvey. exact (desurvey_on_station ang dir collar (augment s) k tk pk H1 H2 Hk Hpk).
Qed.
Print Assumptions C18_continuous_at_station.

(* beyond the final survey the path continues the direction of the last leg
   (the mean of the last two station directions; the last station's own direction when the table has one row) *)
Theorem C18_beyond_last : forall (ang : Type) (dir : ang -> V3) collar (s : list (Q * ang)) d n tn l v p,
  survey_ok s -> length s = S n ->
  nth_error (depths_of (augment s)) (S n) = Some tn -> (tn < d)%Q ->
  nth_error (legs dir (augment s)) n = Some (l, v) -> nth_error (locations dir collar s) (S n) = Some p ->
  desurvey dir collar s d = Some (vadd p (vscale (d - tn)%Q v)).
Proof.
  intros ang dir collar s d n tn l v p [Hne Hs] Hn Hk Hlt Hleg Hloc.
  destruct (augment_shape ang s Hne) as [a [_ [Hlen Hd]]].
  assert (H1 : sortedQ (depths_of (augment s))) by (rewrite Hd; exact Hs).
  assert (H2 : length (augment s) = S (S n)) by (rewrite Hlen, Hn; reflexivity).
  unfold desurvey. exact (desurvey_on_beyond ang dir collar (augment s) d n tn l v p H1 H2 Hk Hlt Hleg Hloc).
Qed.
Print Assumptions C18_beyond_last.

(* ------------------------------------------------------------------ depth / interval data additions *)
(* [pos] is the hole's desurvey function (fixed while data are added); histories are sequences of add_data calls,
   each validate_depth_data / validate_interval_data followed by sort_depths *)

(* after every history: every vertex that carries a DEPTH value sits at the position of that depth, every cell joins
   the positions of (depths equal to) its FROM and TO values, DEPTH/FROM/TO stay aligned with vertices / cells *)
Theorem C18_vertex_at_depth : forall (pos : Q -> V3) ops, Forall op_ok ops ->
  let h := hrun pos empty_hole ops in
  (forall dv i d, h_depth h = Some dv -> nth_error dv i = Some (Some d) -> nth_error (h_verts h) i = Some (pos d))
  /\ (forall dv, h_depth h = Some dv -> length dv = length (h_verts h))
  /\ match h_ft h with
     | None => h_cells h = []
     | Some (froms, tos) =>
         length froms = length (h_cells h) /\ length tos = length (h_cells h)
         /\ forall c a b f t, nth_error (h_cells h) c = Some (a, b) -> nth_error froms c = Some f -> nth_error tos c = Some t ->
              (exists u, (u == f)%Q /\ nth_error (h_verts h) a = Some (pos u))
              /\ (exists u, (u == t)%Q /\ nth_error (h_verts h) b = Some (pos u))
     end.
Proof.
  intros pos ops Hops h. destruct (hrun_inv pos ops empty_hole (inv_empty pos) Hops) as [Hv [Hc Hl]].
  split; [exact Hv|]. split; [intros dv H; apply (Hl dv H)|exact Hc].
Qed.
Print Assumptions C18_vertex_at_depth.

(* the same for histories of add_data calls that each carry ANY NUMBER of depth / from-to data sets (validated one after
   the other, sort_depths once at the end of the call) *)
Theorem C18_vertex_at_depth_calls : forall (pos : Q -> V3) calls, Forall (Forall op_ok) calls ->
  let h := hrunc pos empty_hole calls in
  (forall dv i d, h_depth h = Some dv -> nth_error dv i = Some (Some d) -> nth_error (h_verts h) i = Some (pos d))
  /\ (forall dv, h_depth h = Some dv -> length dv = length (h_verts h))
  /\ match h_ft h with
     | None => h_cells h = []
     | Some (froms, tos) =>
         length froms = length (h_cells h) /\ length tos = length (h_cells h)
         /\ forall c a b f t, nth_error (h_cells h) c = Some (a, b) -> nth_error froms c = Some f -> nth_error tos c = Some t ->
              (exists u, (u == f)%Q /\ nth_error (h_verts h) a = Some (pos u))
              /\ (exists u, (u == t)%Q /\ nth_error (h_verts h) b = Some (pos u))
     end.
Proof.
  intros pos calls Hc h. destruct (hrunc_inv pos calls empty_hole (inv_empty pos) Hc) as [Hv [Hj Hl]].
  split; [exact Hv|]. split; [intros dv H; apply (Hl dv H)|exact Hj].
Qed.
Print Assumptions C18_vertex_at_depth_calls.

(* ON THE SURVEYED PATH: the two theorems above with [pos] instantiated by the hole's own desurvey function
   ([pos_of dir collar s d] = the value of [desurvey dir collar s d], which is defined for every depth as soon as the table
   has a row).  Every vertex that carries DEPTH d sits exactly where Drillhole.desurvey puts depth d, and every cell joins
   the desurveyed positions of (depths equal to) its FROM and TO — for all collars, tables, and histories of calls. *)
Theorem C18_vertex_on_surveyed_path :
  forall (ang : Type) (dir : ang -> V3) collar (s : list (Q * ang)) calls,
    s <> [] -> Forall (Forall op_ok) calls ->
    let h := hrunc (pos_of dir collar s) empty_hole calls in
    (forall dv i d, h_depth h = Some dv -> nth_error dv i = Some (Some d) ->
       exists p, desurvey dir collar s d = Some p /\ nth_error (h_verts h) i = Some p)
    /\ (forall froms tos c a b f t, h_ft h = Some (froms, tos) ->
         nth_error (h_cells h) c = Some (a, b) -> nth_error froms c = Some f -> nth_error tos c = Some t ->
         (exists u p, (u == f)%Q /\ desurvey dir collar s u = Some p /\ nth_error (h_verts h) a = Some p)
         /\ (exists u p, (u == t)%Q /\ desurvey dir collar s u = Some p /\ nth_error (h_verts h) b = Some p)).
Proof.
  intros ang dir collar s calls Hne Hc h.
  destruct (hrunc_inv (pos_of dir collar s) calls empty_hole (inv_empty _) Hc) as [Hv [Hj _]].
  assert (Hpos : forall d, exists p, desurvey dir collar s d = Some p /\ pos_of dir collar s d = p).
  { intros d. destruct (desurvey_total ang dir collar s d Hne) as [p Hp]. exists p. split; [exact Hp|].
    unfold pos_of. rewrite Hp. reflexivity. }
  split.
  - intros dv i d Hd Hi. destruct (Hpos d) as [p [Hp Ep]]. exists p. split; [exact Hp|]. rewrite <- Ep. exact (Hv dv i d Hd Hi).
  - intros froms tos c a b f t Hft Hcell Hf Ht. unfold cells_join in Hj. fold h in Hj. rewrite Hft in Hj.
    destruct Hj as [_ [_ Hj]]. destruct (Hj c a b f t Hcell Hf Ht) as [[u [Hu Ha]] [w [Hw Hb]]].
    destruct (Hpos u) as [p [Hp Ep]]. destruct (Hpos w) as [q [Hq Eq]].
    split; [exists u, p|exists w, q]; (split; [assumption|split; [assumption|congruence]]).
Qed.
Print Assumptions C18_vertex_on_surveyed_path.

(* ... combined with the leg formula: a vertex whose DEPTH d lies in leg k (depth_k < d <= depth_{k+1}) sits at
   location_k + (d - depth_k) * deviation_k, deviation_k being the mean of the two station directions *)
Theorem C18_vertex_in_leg :
  forall (ang : Type) (dir : ang -> V3) collar (s : list (Q * ang)) calls dv i d k tk tk1 l v p,
    survey_ok s -> Forall (Forall op_ok) calls ->
    let h := hrunc (pos_of dir collar s) empty_hole calls in
    h_depth h = Some dv -> nth_error dv i = Some (Some d) ->
    nth_error (depths_of (augment s)) k = Some tk -> nth_error (depths_of (augment s)) (S k) = Some tk1 ->
    (tk < d)%Q -> (d <= tk1)%Q ->
    nth_error (legs dir (augment s)) k = Some (l, v) -> nth_error (locations dir collar s) k = Some p ->
    nth_error (h_verts h) i = Some (vadd p (vscale (d - tk)%Q v)).
Proof.
  intros ang dir collar s calls dv i d k tk tk1 l v p Hok Hc h Hd Hi Hk Hk1 Hlt Hle Hleg Hloc.
  destruct (C18_vertex_on_surveyed_path ang dir collar s calls (proj1 Hok) Hc) as [Hv _].
  destruct (Hv dv i d Hd Hi) as [q [Hq Hn]].
  rewrite (C18_leg_formula ang dir collar s d k tk tk1 l v p Hok Hk Hk1 Hlt Hle Hleg Hloc) in Hq.
  inversion Hq; subst q. exact Hn.
Qed.
Print Assumptions C18_vertex_in_leg.

(* ------------------------------------------------------------------ the cached path (Drillhole._locations) is never stale *)
(* histories of collar changes, survey changes, position queries and add_data calls on one hole: the implementation
   (cache reset by the collar and surveys setters, filled by the first use) returns exactly what the cache-free
   specification returns, in which the path is recomputed from the CURRENT collar and surveys at every use.
   SCOPE: histories are sequences of API CALLS ([d_api]).  Not calls, and excluded: (1) writing into the array the `collar`
   getter hands out, `well.collar["x"] = v`: modelled (op DCollarX) and REFUTED below; (2) writing into the array `locations`
   returns (`l = well.locations; l[:] = 7` overwrites the cache itself): not modelled.  Also outside the theorems: survey
   tables are stored as float32 by the library while the model computes over exact rationals (the correspondence uses values
   exactly representable in float32), and np.argsort's order of tied entries (modelled as stable; see C18_sort_keeps_rows). *)
Theorem C18_path_cache_coherent : forall (ang : Type) (dir : ang -> V3) collar (s : list (Q * ang)) ops,
  Forall (d_api ang) ops ->
  snd (drun dir (dfresh collar s) ops) = snd (drun_spec dir (dfresh collar s) ops).
Proof.
  intros ang dir collar s ops Ha. apply drun_spec_eq; [exact Ha|left; reflexivity|left; reflexivity|repeat split].
Qed.
Print Assumptions C18_path_cache_coherent.

(* after ANY history of API calls a query returns the desurvey of the current collar and surveys (so, by
   C18_collar_at_zero, depth 0 is the CURRENT collar), and an add_data call places its vertices with the current path *)
Theorem C18_current_path_after_history : forall (ang : Type) (dir : ang -> V3) collar (s : list (Q * ang)) ops ds subs,
  Forall (d_api ang) ops ->
  let h := fst (drun dir (dfresh collar s) ops) in
  snd (dstep dir h (DQuery ds)) = Some (OQuery (map (desurvey dir (d_collar h) (d_surveys h)) ds))
  /\ d_data (fst (dstep dir h (DCall subs))) = hcall (pos_of dir (d_collar h) (d_surveys h)) (d_data h) subs.
Proof.
  intros ang dir collar s ops ds subs Ha h. apply dstep_current. apply drun_coherent; [exact Ha|]. left. reflexivity.
Qed.
Print Assumptions C18_current_path_after_history.

Definition C18_path_cache_coherent_full : Prop := forall (ang : Type) (dir : ang -> V3) collar (s : list (Q * ang)) ops,
  snd (drun dir (dfresh collar s) ops) = snd (drun_spec dir (dfresh collar s) ops).

(* REFUTED: query, then `well.collar["x"] = 100` (accepted), then query depth 0: the hole reports collar (100, 0, 0) but the
   position at depth 0 is still the old collar (open finding collar-inplace-stale) *)
Theorem C18_collar_inplace_refuted : ~ C18_path_cache_coherent_full.
Proof.
  intros H.
  specialize (H azdip dir_exact (0, 0, 0)%Q [ (0, (0, -90)); (10, (0, -90)) ]%Q
                [DQuery [0%Q]; DCollarX false 100%Q; DQuery [0%Q]]).
  vm_compute in H. discriminate.
Qed.
Print Assumptions C18_collar_inplace_refuted.

Example C18_cache_nonvacuous :
  let s := [ (0, (30, 0)); (50, (90, 0)) ]%Q in
  let ops := [ DQuery [0; 10]%Q; DSetCollar (-50, 25, 10)%Q; DQuery [0; 10]%Q;
               DSetSurveys [ (0, (0, -90)) ]%Q; DCall [AddDepth 0 [5]%Q [Some 1%Q] (1 # 100)%Q]; DQuery [0]%Q ] in
  let s' := [ (0, (90, 0)); (50, (90, 0)) ]%Q in
  dh_agree (100, 200, 300)%Q s' (DQuery [0; 10]%Q :: DSetCollar (-50, 25, 10)%Q :: DQuery [0; 10]%Q
                               :: DSetSurveys [ (0, (0, -90)) ]%Q :: DCall [AddDepth 0 [5]%Q [Some 1%Q] (1 # 100)%Q]
                               :: DQuery [0]%Q :: nil)
    [ OQuery [Some (100, 200, 300); Some (110, 200, 300)]%Q;
      OQuery [Some (-50, 25, 10); Some (-40, 25, 10)]%Q;
      OCall [ (Some 5, (-50, 25, 5), [Some 1]) ]%Q [];
      OQuery [Some (-50, 25, 10)]%Q ] = true.
Proof. vm_compute. reflexivity. Qed.

(* sort_depths moves whole rows: every vertex keeps its position, its DEPTH and the value of every vertex child *)
Theorem C18_sort_keeps_rows : forall (pos : Q -> V3) h, inv_weak pos h ->
  forall i, i < length (h_verts h) ->
  exists k, nth_error (h_verts (sort_depths h)) k = nth_error (h_verts h) i
    /\ (forall dv, h_depth h = Some dv -> exists dv', h_depth (sort_depths h) = Some dv' /\ onth dv' k = onth dv i)
    /\ (forall c name vals, nth_error (h_vdata h) c = Some (name, vals) ->
          exists vals', nth_error (h_vdata (sort_depths h)) c = Some (name, vals') /\ onth vals' k = onth vals i).
Proof. exact sort_depths_rows. Qed.
Print Assumptions C18_sort_keeps_rows.

(* the full statement: every value of a depth call is attached, after the call, to a vertex within the tolerance *)
Definition C18_values_attached_full : Prop :=
  forall (pos : Q -> V3) ops name depth values tol j d v,
    Forall op_ok ops -> depth <> [] -> length values = length depth -> (0 < tol)%Q ->
    nth_error depth j = Some d -> nth_error values j = Some (Some v) ->
    attached (hstep pos (hrun pos empty_hole ops) (AddDepth name depth values tol)) name d v tol.

(* REFUTED: two depths of one call collocate with the same existing vertex; the earlier value is overwritten
   (open finding depth-value-lost-collision) *)
Theorem C18_values_attached_refuted : ~ C18_values_attached_full.
Proof.
  intros H.
  assert (Hops : Forall op_ok collision_before) by (repeat constructor; discriminate).
  specialize (H collision_pos collision_before 1 collision_depth collision_values (1 # 100)%Q 1 (29 # 2)%Q (-18)%Q
                Hops ltac:(discriminate) eq_refl eq_refl eq_refl eq_refl).
  apply attached_attachedb in H. rewrite (proj1 collision_witness) in H. discriminate.
Qed.
Print Assumptions C18_values_attached_refuted.

(* PARTIAL: when no two entries of the call collocate with the same existing vertex, every value of the call is attached
   to a vertex whose DEPTH is within the tolerance of its depth — right after the call (through sort_depths) and after
   every later add_data call.  Missing for the full property: colliding entries; interval values (oracle + model only). *)
Theorem C18_values_stay_attached_partial :
  forall (pos : Q -> V3) ops name depth values tol j d v later,
    Forall op_ok ops -> Forall op_ok later -> depth <> [] -> length values = length depth -> (0 < tol)%Q ->
    no_collision (hrun pos empty_hole ops) depth tol ->
    nth_error depth j = Some d -> nth_error values j = Some (Some v) ->
    attached (hrun pos (hstep pos (hrun pos empty_hole ops) (AddDepth name depth values tol)) later) name d v tol.
Proof. exact values_stay_attached. Qed.
Print Assumptions C18_values_stay_attached_partial.

(* PARTIAL, multi-data-set calls: the depth data set may sit anywhere in its call ([pre] before it, [post] after it);
   the side condition is evaluated on the state its validation sees *)
Theorem C18_values_stay_attached_calls_partial :
  forall (pos : Q -> V3) calls pre post name depth values tol j d v later,
    Forall (Forall op_ok) calls -> Forall op_ok pre -> Forall op_ok post -> Forall (Forall op_ok) later ->
    depth <> [] -> length values = length depth -> (0 < tol)%Q ->
    no_collision (fold_left (happly pos) pre (hrunc pos empty_hole calls)) depth tol ->
    nth_error depth j = Some d -> nth_error values j = Some (Some v) ->
    attached (hrunc pos (hcall pos (hrunc pos empty_hole calls) (pre ++ AddDepth name depth values tol :: post)) later) name d v tol.
Proof. exact values_stay_attached_calls. Qed.
Print Assumptions C18_values_stay_attached_calls_partial.

(* PARTIAL, from-to data: when no two intervals of the data set collocate with the same existing cell, every value is
   attached to a cell whose (FROM, TO) is within the tolerance of its interval, after the call and after every later call.
   Refuted without the side condition by the oracle (open finding interval-value-lost-collision). *)
Theorem C18_interval_values_stay_attached_partial :
  forall (pos : Q -> V3) calls pre post name fts values tol j f t v later,
    Forall (Forall op_ok) calls -> Forall op_ok pre ->
    length values = length fts -> (0 < tol)%Q ->
    no_collision_c (fold_left (happly pos) pre (hrunc pos empty_hole calls)) fts tol ->
    nth_error fts j = Some (f, t) -> nth_error values j = Some (Some v) ->
    cattached (hrunc pos (hcall pos (hrunc pos empty_hole calls) (pre ++ AddInterval name fts values tol :: post)) later)
              name f t v tol.
Proof. exact interval_values_stay_attached_calls. Qed.
Print Assumptions C18_interval_values_stay_attached_partial.

(* non-vacuity of the surveyed-path corollaries and of the interval theorem: a real table (vertical, then east), a call with
   a depth set and a from-to set; depth 15 lies in leg 2 (10 < 15 <= 20): vertex at loc_2 + 5 * mean(down, east) *)
Example C18_on_path_nonvacuous :
  let s := [ (0, (0, -90)); (10, (0, -90)); (20, (90, 0)) ]%Q in
  let collar := (1, 2, 3)%Q in
  let calls := [ [AddDepth 0 [15; 5]%Q [Some 1; Some 2]%Q (1 # 100)%Q;
                  AddInterval 1 [(12, 14); (2, 4)]%Q [Some 7; Some 8]%Q (1 # 100)%Q];
                 [AddInterval 2 [(2, 4); (30, 31)]%Q [Some 9; Some 10]%Q (1 # 100)%Q] ] in
  let h := hrunc (pos_of dir_exact collar s) empty_hole calls in
  survey_okb s = true /\ Forall (Forall op_ok) calls
  /\ h_depth h = Some [Some 5; Some 15; None; None; None; None; None; None]%Q
  /\ option_eqb veqb (nth_error (h_verts h) 1) (Some (1 + 5 * (1 # 2), 2, 3 - 10 - 5 * (1 # 2))%Q) = true
  /\ nth_error (legs dir_exact (augment s)) 2 = Some ((20 - 10)%Q, dev (dir_exact (0, -90)%Q) (dir_exact (90, 0)%Q))
  /\ no_collision_c (hcall (pos_of dir_exact collar s) empty_hole (hd [] calls)) [(2, 4); (30, 31)]%Q (1 # 100)%Q.
Proof.
  split; [reflexivity|]. split; [repeat constructor; discriminate|].
  split; [vm_compute; reflexivity|]. split; [vm_compute; reflexivity|]. split; [reflexivity|].
  unfold no_collision_c. vm_compute. repeat constructor. intros [].
Qed.

(* non-vacuity: two depth data sets in ONE call, the first unsorted, the second sharing depths with it *)
Example C18_multi_nonvacuous :
  let pos := collision_pos in
  let a := AddDepth 0 [75; 15; 45; 105; 30]%Q [Some (15 # 2); Some (3 # 2); Some (9 # 2); Some (21 # 2); Some 3]%Q (1 # 100)%Q in
  let depth := [15; 60; 30; 90; 105]%Q in
  let b := AddDepth 1 depth [Some (-15); Some (-60); Some (-30); Some (-90); Some (-105)]%Q (1 # 100)%Q in
  no_collision (fold_left (happly pos) [a] empty_hole) depth (1 # 100)%Q
  /\ attachedb (hcall pos empty_hole [a; b]) 1 15%Q (-15)%Q (1 # 100)%Q = true
  /\ attachedb (hcall pos empty_hole [a; b]) 0 75%Q (15 # 2)%Q (1 # 100)%Q = true.
Proof.
  split; [|split; vm_compute; reflexivity].
  unfold no_collision. vm_compute. repeat (constructor; [simpl; intuition discriminate|]). constructor.
Qed.

(* non-vacuity of the partial theorem: a history with unsorted and collocated (but not colliding) additions *)
Example C18_data_nonvacuous :
  let pos := collision_pos in
  let ops := [AddDepth 0 [10; 5; 20]%Q [Some 1; Some 2; Some 3]%Q (1 # 100)%Q;
              AddInterval 1 [(1, 2); (2, 4)]%Q [Some 7; Some 8]%Q (1 # 100)%Q] in
  let depth := [5 + (1 # 256); 7; 30]%Q in
  Forall op_ok ops /\ no_collision (hrun pos empty_hole ops) depth (1 # 100)%Q
  /\ attachedb (hstep pos (hrun pos empty_hole ops) (AddDepth 2 depth [Some 10; Some 20; Some 30]%Q (1 # 100)%Q))
               2 (5 + (1 # 256))%Q 10%Q (1 # 100)%Q = true
  /\ attachedb (hstep pos (hrun pos empty_hole ops) (AddDepth 2 depth [Some 10; Some 20; Some 30]%Q (1 # 100)%Q))
               0 10%Q 1%Q (1 # 100)%Q = true.
Proof.
  split; [repeat constructor; discriminate|]. split; [|split; vm_compute; reflexivity].
  unfold no_collision. vm_compute. repeat constructor. intros [].
Qed.

(* non-vacuity: a table with a repeated depth, first station at depth 0 *)
Example C18_nonvacuous :
  let s := [ (0, (0, -90)); (10, (90, 0)); (10, (0, 0)); (20, (0, -90)) ]%Q in
  let collar := (1, 2, 3)%Q in
  survey_okb s = true
  /\ vlist_eqb (locations dir_exact collar s) [ (1, 2, 3); (1, 2, 3); (6, 2, -2); (6, 2, -2); (6, 7, -7) ]%Q = true
  /\ list_eqb opt_veqb (map (desurvey dir_exact collar s) [ 0; 5; 10; 15; 20; 25 ]%Q)
       (map (@Some V3) [ (1, 2, 3); (7 # 2, 2, 1 # 2); (6, 2, -2); (6, 9 # 2, (-9) # 2); (6, 7, -7); (6, 19 # 2, (-19) # 2) ]%Q) = true.
Proof. vm_compute. repeat split. Qed.
