(* C09 / C12 at world level: frame across workspaces, scalar attributes are never rewritten, shape of copies.
   Only statements, each closed by [exact] and followed by Print Assumptions. *)
From GV Require Import Prelude.Base Model.WsX Model.WsXSpec Proofs.WsXWorld.

(* an operation of one workspace leaves the other workspace -- tree, file, registries -- EQUAL (any state, any outcome) *)
Theorem C09_wstep_on_other : forall W i o, wsel (negb i) (fst (wstep W (On i o))) = wsel (negb i) W.
Proof. exact wstep_on_other. Qed.
Print Assumptions C09_wstep_on_other.

(* a cross-workspace copy leaves the SOURCE workspace equal: the source entity, its children, the source file *)
Theorem C09_wstep_copyx_source : forall W i e q ids, wsel i (fst (wstep W (CopyX i e q ids))) = wsel i W.
Proof. exact wstep_copyx_source. Qed.
Print Assumptions C09_wstep_copyx_source.

(* in the target, every flat node outside the new parent and the nodes the copy creates is unchanged; so is the Root link *)
Theorem C09_wstep_copyx_target : forall W i e q ids x,
  ~ In x (q :: copyx_keys (wsel i W) (wsel (negb i) W) e ids) ->
  fget x (flat (wfile (wsel (negb i) (fst (wstep W (CopyX i e q ids)))))) = fget x (flat (wfile (wsel (negb i) W))).
Proof. exact wstep_copyx_target_frame. Qed.
Print Assumptions C09_wstep_copyx_target.

Theorem C09_wstep_copyx_rootlink : forall W i e q ids,
  rootlink (wfile (wsel (negb i) (fst (wstep W (CopyX i e q ids))))) = rootlink (wfile (wsel (negb i) W)).
Proof. exact wstep_copyx_target_rootlink. Qed.
Print Assumptions C09_wstep_copyx_rootlink.

(* the footprint of an operation contains a parent's WHOLE node; sharper: apart from the target of a Set* no existing
   node's name / flag / array token is ever rewritten (parents only gain or lose links and group members).
   Hypotheses: identifiers are unique in the flat containers and no pending identifier is live -- both hold in every state
   reached without stale identifier re-use (next theorem); without them the statement is false of the model
   (a shadowed duplicate entry would surface after a delete; a swept identifier that is live would be re-written). *)
Theorem C09_step_scalars : forall w o x n n',
  NoDup (map fst (flat (wfile w))) -> (forall k, In k (wpend w) -> ~ In k (keys_of (wmem w))) ->
  fget x (flat (wfile w)) = Some n -> fget x (flat (wfile (fst (step w o)))) = Some n' ->
  ~ In x (content_targets w o) ->
  aname (fattrs n') = aname (fattrs n) /\ adel (fattrs n') = adel (fattrs n) /\ aarr (fattrs n') = aarr (fattrs n).
Proof. exact step_scalars. Qed.
Print Assumptions C09_step_scalars.

Theorem C09_step_scalars_run : forall ops o x n n', fresh_run ops init = true ->
  let w := run ops init in
  fget x (flat (wfile w)) = Some n -> fget x (flat (wfile (fst (step w o)))) = Some n' ->
  ~ In x (content_targets w o) ->
  aname (fattrs n') = aname (fattrs n) /\ adel (fattrs n') = adel (fattrs n) /\ aarr (fattrs n') = aarr (fattrs n).
Proof. exact step_scalars_run. Qed.
Print Assumptions C09_step_scalars_run.

(* C12 flavour: a copy has the shape of its source -- same kinds, names, flags, array tokens, children order, and property
   groups with the same names and members at the same positions.  Hypotheses: kinds nest as the API allows
   ([well_kinded]), the source's groups are well-formed, the copy has unique identifiers (automatic when the drawn
   identifiers are fresh: second theorem). *)
Theorem C09_copy_x_shape : forall used pgused t ids t' u' pu' rest,
  copy_x used pgused t ids = Some (t', u', pu', rest) ->
  well_kinded t -> (forall r, In r (rows t) -> pgs_ok r) -> NoDup (keys_of t') ->
  erase t' = erase t.
Proof. exact copy_x_shape. Qed.
Print Assumptions C09_copy_x_shape.

Theorem C09_copy_x_shape_fresh : forall used pgused t ids t' u' pu' rest,
  copy_x used pgused t ids = Some (t', u', pu', rest) ->
  well_kinded t -> (forall r, In r (rows t) -> pgs_ok r) ->
  cx_pre used pgused (map snd (keys_of t)) (all_pg_ids t) ids ->
  erase t' = erase t.
Proof. exact copy_x_shape_fresh. Qed.
Print Assumptions C09_copy_x_shape_fresh.

Theorem C09_copy_sub_shape : forall t ids t' rest,
  copy_sub t ids = Some (t', rest) ->
  well_kinded t -> (forall r, In r (rows t) -> pgs_ok r) -> NoDup (keys_of t') ->
  erase t' = erase t.
Proof. exact copy_sub_shape. Qed.
Print Assumptions C09_copy_sub_shape.

(* the premises hold in every state reached by a fresh two-workspace history, for every subtree (audit 2, A15) *)
Theorem C09_well_kinded_run : forall ops i e s, wfresh_run ops winit = true ->
  find e (wmem (wsel i (wrun ops winit))) = Some s -> well_kinded s.
Proof. exact well_kinded_run. Qed.
Print Assumptions C09_well_kinded_run.

Theorem C09_pgs_ok_run : forall ops i e s, wfresh_run ops winit = true ->
  find e (wmem (wsel i (wrun ops winit))) = Some s -> forall r, In r (rows s) -> pgs_ok r.
Proof. exact pgs_ok_run. Qed.
Print Assumptions C09_pgs_ok_run.

(* hence, for sources taken from reachable states, only the uniqueness of the copy's identifiers remains as a premise
   (it follows from fresh drawn identifiers, C09_copy_x_shape_fresh) *)
Theorem C09_copy_x_shape_run : forall ops i e s used pgused ids t' u' pu' rest, wfresh_run ops winit = true ->
  find e (wmem (wsel i (wrun ops winit))) = Some s ->
  copy_x used pgused s ids = Some (t', u', pu', rest) -> NoDup (keys_of t') ->
  erase t' = erase s.
Proof. exact copy_x_shape_run. Qed.
Print Assumptions C09_copy_x_shape_run.

Theorem C09_copy_sub_shape_run : forall ops i e s ids t' rest, wfresh_run ops winit = true ->
  find e (wmem (wsel i (wrun ops winit))) = Some s ->
  copy_sub s ids = Some (t', rest) -> NoDup (keys_of t') ->
  erase t' = erase s.
Proof. exact copy_sub_shape_run. Qed.
Print Assumptions C09_copy_sub_shape_run.

(* non-vacuity by INSTANTIATING the premises of C09_copy_x_shape_run (not by evaluating its conclusion): the second copy of
   the demo history -- the source G1 is found in the state reached after 7 fresh steps, the copy is what copy_x computes with
   the identifiers in use in B (every identifier re-drawn), its keys are distinct; the shape equality is then the theorem's *)
Example C09W_nonvacuous :
  match find (KG, 1%N) (wmem (wa (wrun (firstn 7 wops_demo) winit))) with
  | Some s =>
      match copy_x (map snd (keys_of (wmem (wb (wrun (firstn 7 wops_demo) winit)))))
                   (all_pg_ids (wmem (wb (wrun (firstn 7 wops_demo) winit)))) s [30; 31; 32; 33; 34]%N with
      | Some (t', _, _, _) => keys_of t' = [(KG, 30%N); (KO, 31%N); (KD, 32%N); (KD, 33%N)] /\ erase t' = erase s
      | None => False
      end
  | None => False
  end.
Proof. exact wops_demo_shape_inst. Qed.
