(* C09 / C12 at world level: frame across workspaces, scalar attributes are never rewritten, shape of copies.
   Only statements, each closed by [exact] and followed by Print Assumptions. *)
From GV Require Import Prelude.Base Model.WsX Model.WsXSpec Proofs.WsXWorld.

(* an operation of one workspace leaves the other workspace -- tree, file, registries -- EQUAL (any state, any outcome) *)
Theorem C09_wstep_on_other : forall W i o, wsel (negb i) (fst (wstep W (On i o))) = wsel (negb i) W.
Proof. exact wstep_on_other. Qed.
Print Assumptions C09_wstep_on_other.

(* a cross-workspace copy leaves the SOURCE workspace equal: the source entity, its children, the source file *)
Theorem C09_wstep_copyx_source : forall W i e q ids, wsel i (fst (wstep W (CopyX i e q ids))) = wsel i W.
Proof. exact wstep_copyx_source. Qed.
Print Assumptions C09_wstep_copyx_source.

(* in the target, every flat node outside the new parent and the nodes the copy creates is unchanged; so is the Root link *)
Theorem C09_wstep_copyx_target : forall W i e q ids x,
  ~ In x (q :: copyx_keys (wsel i W) (wsel (negb i) W) e ids) ->
  fget x (flat (wfile (wsel (negb i) (fst (wstep W (CopyX i e q ids)))))) = fget x (flat (wfile (wsel (negb i) W))).
Proof. exact wstep_copyx_target_frame. Qed.
Print Assumptions C09_wstep_copyx_target.

Theorem C09_wstep_copyx_rootlink : forall W i e q ids,
  rootlink (wfile (wsel (negb i) (fst (wstep W (CopyX i e q ids))))) = rootlink (wfile (wsel (negb i) W)).
Proof. exact wstep_copyx_target_rootlink. Qed.
Print Assumptions C09_wstep_copyx_rootlink.

(* the footprint of an operation contains a parent's WHOLE node; sharper: apart from the target of a Set* no existing
   node's name / flag / array token is ever rewritten (parents only gain or lose links and group members).
   Hypotheses: identifiers are unique in the flat containers and no pending identifier is live -- both hold in every state
   reached without stale identifier re-use (next theorem); without them the statement is false of the model
   (a shadowed duplicate entry would surface after a delete; a swept identifier that is live would be re-written). *)
Theorem C09_step_scalars : forall w o x n n',
  NoDup (map fst (flat (wfile w))) -> (forall k, In k (wpend w) -> ~ In k (keys_of (wmem w))) ->
  fget x (flat (wfile w)) = Some n -> fget x (flat (wfile (fst (step w o)))) = Some n' ->
  ~ In x (content_targets w o) ->
  aname (fattrs n') = aname (fattrs n) /\ adel (fattrs n') = adel (fattrs n) /\ aarr (fattrs n') = aarr (fattrs n).
Proof. exact step_scalars. Qed.
Print Assumptions C09_step_scalars.

Theorem C09_step_scalars_run : forall ops o x n n', fresh_run ops init = true ->
  let w := run ops init in
  fget x (flat (wfile w)) = Some n -> fget x (flat (wfile (fst (step w o)))) = Some n' ->
  ~ In x (content_targets w o) ->
  aname (fattrs n') = aname (fattrs n) /\ adel (fattrs n') = adel (fattrs n) /\ aarr (fattrs n') = aarr (fattrs n).
Proof. exact step_scalars_run. Qed.
Print Assumptions C09_step_scalars_run.

(* C12 flavour: a copy has the shape of its source -- same kinds, names, flags, array tokens, children order, and property
   groups with the same names and members at the same positions.  Hypotheses: kinds nest as the API allows
   ([well_kinded]), the source's groups are well-formed, the copy has unique identifiers (automatic when the drawn
   identifiers are fresh: second theorem). *)
Theorem C09_copy_x_shape : forall used pgused t ids t' u' pu' rest,
  copy_x used pgused t ids = Some (t', u', pu', rest) ->
  well_kinded t -> (forall r, In r (rows t) -> pgs_ok r) -> NoDup (keys_of t') ->
  erase t' = erase t.
Proof. exact copy_x_shape. Qed.
Print Assumptions C09_copy_x_shape.

Theorem C09_copy_x_shape_fresh : forall used pgused t ids t' u' pu' rest,
  copy_x used pgused t ids = Some (t', u', pu', rest) ->
  well_kinded t -> (forall r, In r (rows t) -> pgs_ok r) ->
  cx_pre used pgused (map snd (keys_of t)) (all_pg_ids t) ids ->
  erase t' = erase t.
Proof. exact copy_x_shape_fresh. Qed.
Print Assumptions C09_copy_x_shape_fresh.

Theorem C09_copy_sub_shape : forall t ids t' rest,
  copy_sub t ids = Some (t', rest) ->
  well_kinded t -> (forall r, In r (rows t) -> pgs_ok r) -> NoDup (keys_of t') ->
  erase t' = erase t.
Proof. exact copy_sub_shape. Qed.
Print Assumptions C09_copy_sub_shape.

(* non-vacuity: the copies of the demo history re-draw identifiers and have the shape of their sources *)
Example C09W_nonvacuous :
  copyx_keys (wa (wrun (firstn 7 wops_demo) winit)) (wb (wrun (firstn 7 wops_demo) winit)) (KG, 1%N) [30; 31; 32; 33; 34]%N
  = [(KG, 30%N); (KO, 31%N); (KD, 32%N); (KD, 33%N)] /\
  match find (KG, 1%N) (wmem (wa (wrun (firstn 7 wops_demo) winit))),
        find (KG, 30%N) (wmem (wb (wrun (firstn 8 wops_demo) winit))) with
  | Some s, Some c => erase c = erase s
  | _, _ => False
  end.
Proof. split; [apply wops_demo_ids | exact wops_demo_shape]. Qed.
