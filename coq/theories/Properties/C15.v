(* C15 — ui.json validation accepts exactly the valid values, statelessly.  (stub: statements are added below) *)
From Coq Require Import String.
From GV Require Import Prelude.Base Model.PyVal Model.UiRules Model.Enforcers Proofs.PyValProofs.
From GVgen Require Import PyLite_SharedUtils PyLite_UiUtils PyLite_Validators.

Theorem C15_stub : forall (a : pv), bind (Ok a) (fun x => Ok x) = Ok a.
Proof. intros; reflexivity. Qed.
Print Assumptions C15_stub.
