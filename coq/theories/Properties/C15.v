(* C15 — ui.json validation accepts exactly the valid values, statelessly.
   Only statements, each closed by [exact] and followed by Print Assumptions.

   requires_value, the six validate bodies and `iterable` are the PyLite translations of the current source
   (coq/generated/PyLite_UiUtils.v, PyLite_Validators.v, PyLite_SharedUtils.v, regenerated on every run);
   EnforcerPool / Parameter / Association-, PropertyGroup-, ShapeValidator / InputValidation.validate(_data) are the
   hand models of Model/Enforcers.v (tied by correspondence).  Those models carry their state explicitly (the pool's
   `_errors` list, the parameter's stored value, the rule table `self.validations`); every call takes the state the previous
   call left and returns the next one, and the statelessness theorems quantify over whole histories threaded that way
   (and, for the pool, over arbitrary left-over `_errors`).  They are true because the repaired code resets / does not
   write that state - the `*_old_code_refuted` theorems show the same statements false for the code before the repairs. *)
From Coq Require Import String.
From GV Require Import Prelude.Base Model.PyVal Model.UiRules Model.Enforcers Model.UiForms Model.UiCodec Model.IfValidate Model.FormParams
     Proofs.PyValProofs Proofs.UiRulesProofs Proofs.EnforcersProofs Proofs.ValidatorsProofs Proofs.OneOfProofs Proofs.FormParamsProofs.
From GVgen Require Import PyLite_SharedUtils PyLite_UiUtils PyLite_Validators PyLite_Validation Table_UiValidations.
Local Open Scope string_scope.

(* ---- the required / optional / enabled / dependency / group rules that decide whether None is allowed ---- *)

(* requires_value never raises on a well-formed ui.json, whatever the number of parameters and group members ... *)
Theorem C15_requires_value_total : forall d p,
  wf_ui d = true -> dict_has (PStr p) d = true -> exists b, requires_value (PDict d) (PStr p) = Ok (PBool b).
Proof. exact requires_value_total. Qed.
Print Assumptions C15_requires_value_total.

(* ... and it computes the groupOptional > dependency > optional hierarchy of its docstring (every switch combination:
   the statement is universally quantified, not enumerated) *)
Theorem C15_requires_value_spec : forall d p v,
  wf_ui d = true -> dict_find (PStr p) d = Some v -> requires_value (PDict d) (PStr p) = Ok (PBool (rv_spec d v)).
Proof. exact requires_value_spec. Qed.
Print Assumptions C15_requires_value_spec.

(* non-vacuity: a well-formed dictionary with a switched-off group, a "disabled" dependency and an optional parameter *)
Example C15_wf_ui_nonvacuous :
  let d := [ (PStr "sw",  PDict [(PStr "label", PStr "s"); (PStr "value", PBool false)]);
             (PStr "g1",  PDict [(PStr "label", PStr "a"); (PStr "value", PInt 1); (PStr "group", PStr "G");
                                 (PStr "groupOptional", PBool true); (PStr "enabled", PBool false)]);
             (PStr "g2",  PDict [(PStr "label", PStr "b"); (PStr "value", PInt 2); (PStr "group", PStr "G")]);
             (PStr "dep", PDict [(PStr "label", PStr "c"); (PStr "value", PInt 3); (PStr "dependency", PStr "sw");
                                 (PStr "dependencyType", PStr "disabled"); (PStr "optional", PBool true)]) ] in
  wf_ui d = true /\ requires_value (PDict d) (PStr "g2") = Ok (PBool false)
  /\ requires_value (PDict d) (PStr "dep") = Ok (PBool true) /\ requires_value (PDict d) (PStr "sw") = Ok (PBool true).
Proof. vm_compute. repeat split; reflexivity. Qed.

(* ---- the validator chain accepts exactly the values that satisfy the declared constraints ---- *)

(* accepted iff: None only where required/optional allow it, type, well-formed identifier, membership of the parent or
   workspace, property-group type, choice list, shape; a rejection is always a validation error *)
Theorem C15_accept_iff : forall W o name v rules, wf_rules v rules = true ->
  (iv_validate W o name v (PDict rules) = Ok PNone <-> chain_ok W o name v rules = true)
  /\ (chain_ok W o name v rules = false -> exists k, iv_validate W o name v (PDict rules) = Raise (Validation k)).
Proof. exact accept_iff. Qed.
Print Assumptions C15_accept_iff.

Example C15_accept_iff_nonvacuous :
  let rules := [(PStr "types", PList [PType TStr; PType TUuid; PType TEntity]); (PStr "uuid", PNone);
                (PStr "association", PEnt KEntity 32%N); (PStr "optional", PBool false)] in
  let W := {| w_ents := [(32%N, KEntity); (48%N, KEntity)]; w_desc := [(32%N, [48%N])] |} in
  let o := {| ignore_requirements := false; ignore_list := [] |} in
  wf_rules (PUuid 48%N) rules = true /\ chain_ok W o (PStr "q") (PUuid 48%N) rules = true
  /\ chain_ok W o (PStr "q") (PUuid 49%N) rules = false /\ chain_ok W o (PStr "q") PNone rules = false.
Proof. vm_compute. repeat split; reflexivity. Qed.

(* an EnforcerPool accepts iff the rule of every enforcer holds *)
Theorem C15_pool_accept_iff : forall es v,
  (forall e, In e es -> exists b, enf_rule e v = Ok b) ->
  (pool_verdict pool_enforce (fresh_pool es) v = Ok tt <-> forall e, In e es -> enf_rule e v = Ok true).
Proof. exact pool_accept_iff. Qed.
Print Assumptions C15_pool_accept_iff.

(* the group rule "at least one": validate_data on a table of one_of rules accepts iff every group has a member whose
   value is not None (any number of parameters and groups); C15_accept_iff covers the other rules of a parameter *)
Theorem C15_one_of_accept_iff : forall W o spec data,
  ignore_list o = [] -> NoDup (map fst spec) -> (forall p g, In (p, g) spec -> dict_has (PStr p) data = true) ->
  snd (iv_validate_data W o (PDict (one_of_table spec)) (PDict data))
  = if one_of_ok spec data then Ok PNone else Raise (Validation VAtLeastOne).
Proof. exact one_of_accept_iff. Qed.
Print Assumptions C15_one_of_accept_iff.

Example C15_one_of_nonvacuous :
  let spec := [("a", "g1"); ("b", "g1"); ("c", "g2")] in
  NoDup (map fst spec)
  /\ one_of_ok spec [(PStr "a", PNone); (PStr "b", PStr "x"); (PStr "c", PInt 0)] = true
  /\ one_of_ok spec [(PStr "a", PStr "x"); (PStr "b", PStr "x"); (PStr "c", PNone)] = false
  /\ snd (iv_validate_data no_world no_opts (PDict (one_of_table spec)) (PDict [(PStr "a", PStr "x"); (PStr "b", PNone); (PStr "c", PNone)]))
     = Raise (Validation VAtLeastOne).
Proof.
  split; [repeat constructor; simpl; intuition discriminate | vm_compute; repeat split; reflexivity].
Qed.

(* ---- the verdict never depends on earlier validation calls ---- *)

(* DEFINITIONAL: pool_enforce never reads p_errs - it is the transcription of the repaired first line `self._errors = []` - so
   the next two theorems are one-line consequences of that transcription (whatever the `_errors` list holds when enforce() starts).
   Their content is the tie (pool histories with len(_errors) observed after every call) and C15_pool_old_code_refuted. *)
Theorem C15_pool_stateless_any_state : forall p v, snd (pool_enforce p v) = snd (pool_enforce (fresh_pool (p_enf p)) v).
Proof. exact pool_stateless_any_state. Qed.
Print Assumptions C15_pool_stateless_any_state.

Theorem C15_param_stateless_any_state : forall p v,
  snd (param_set p v) = snd (param_set {| pm_pool := fresh_pool (p_enf (pm_pool p)); pm_val := PNone |} v).
Proof. exact param_stateless_any_state. Qed.
Print Assumptions C15_param_stateless_any_state.

Theorem C15_pool_stateless : PoolStateless pool_enforce.
Proof. exact pool_stateless. Qed.
Print Assumptions C15_pool_stateless.

Theorem C15_param_stateless : ParamStateless param_set.
Proof. exact param_stateless. Qed.
Print Assumptions C15_param_stateless.

Theorem C15_validate_data_stateless : forall W o, IvStateless (iv_validate_data W o).
Proof. exact validate_data_stateless. Qed.
Print Assumptions C15_validate_data_stateless.

(* ---- a rejected value leaves the stored data and the rule table unchanged ---- *)

Theorem C15_param_rejected_unchanged : ParamRejectKeeps param_set.
Proof. exact param_reject_keeps. Qed.
Print Assumptions C15_param_rejected_unchanged.

Theorem C15_param_accepted_stored : forall p v, snd (param_set p v) = Ok tt -> pm_val (fst (param_set p v)) = v.
Proof. exact param_accept_stores. Qed.
Print Assumptions C15_param_accepted_stored.

Theorem C15_validate_data_keeps_table : forall W o vals data, fst (iv_validate_data W o vals data) = vals.
Proof. exact validate_data_keeps_table. Qed.
Print Assumptions C15_validate_data_keeps_table.

(* ---- what the repairs changed: the same statements are false of the pre-repair transcriptions ---- *)

(* [enforce 3; enforce "a"] on a pool with a type and a value enforcer: the stale aggregate is raised again *)
Theorem C15_pool_old_code_refuted : ~ PoolStateless pool_enforce_old.
Proof. exact pool_old_refuted. Qed.
Print Assumptions C15_pool_old_code_refuted.

(* the rejected 5 became the value of a StringParameter *)
Theorem C15_param_old_code_refuted : ~ ParamRejectKeeps param_set_old.
Proof. exact param_old_refuted. Qed.
Print Assumptions C15_param_old_code_refuted.

(* [all None; all None]: the second call was accepted because the first one popped the one_of rule *)
Theorem C15_oneof_old_code_refuted : ~ IvStateless (iv_validate_data_gen true no_world no_opts).
Proof. exact oneof_old_refuted. Qed.
Print Assumptions C15_oneof_old_code_refuted.

(* ---- FormParameter members (forms.py / descriptors.py): state = stored values + extra members + active members ---- *)

(* a rejected member value leaves the stored values, the extra members and the active list exactly as they were *)
Theorem C15_form_rejected_member_unchanged : forall f m v e,
  snd (form_set f m v) = Raise e -> fview (fst (form_set f m v)) = fview f.
Proof. exact form_set_reject_keeps. Qed.
Print Assumptions C15_form_rejected_member_unchanged.

(* an accepted one is marked active (the value itself always is) and touches nothing else *)
Theorem C15_form_accepted_member_marked : forall f m v p, assoc_s m (f_members f) = Some p -> snd (form_set f m v) = Ok tt ->
  f_active (fst (form_set f m v)) = (if String.eqb m "value" then f_active f else (f_active f ++ [m])%list)
  /\ f_extra (fst (form_set f m v)) = f_extra f.
Proof. exact form_set_accept. Qed.
Print Assumptions C15_form_accepted_member_marked.

(* the verdict for a member depends only on the enforcers behind it, whatever was set or rejected on the form before *)
Theorem C15_form_member_stateless : forall f g m v p q,
  assoc_s m (f_members f) = Some p -> assoc_s m (f_members g) = Some q -> p_enf (pm_pool p) = p_enf (pm_pool q) ->
  snd (form_set f m v) = snd (form_set g m v).
Proof. exact form_set_stateless. Qed.
Print Assumptions C15_form_member_stateless.

(* ==== discriminates seeded variants (NOT statements about geoh5py: the variant below was never in the source) ==== *)

(* were the member marked active before its value is validated (seeded change C15-r3-1), the first statement above would be false:
   C15_form_rejected_member_unchanged is not true by accident of the model's shape *)
Theorem C15_form_mark_first_variant_differs :
  ~ (forall f m v e, snd (form_set_gen true f m v) = Raise e -> fview (fst (form_set_gen true f m v)) = fview f).
Proof. exact form_set_mark_first_refuted. Qed.
Print Assumptions C15_form_mark_first_variant_differs.
