(* C13 — Spatial selection returns exactly what lies inside the box.
   Statements only, each closed by [exact] / short glue and followed by Print Assumptions.
   Model: Model/Extent.v (+ the masked copy of Model/Geometry.v); vocabulary ([selection], [cell_final_mask],
   [contiguous], ...) from Proofs/GeometryProofs.v and Proofs/ExtentProofs.v.  Coordinates are integers.          *)
From GV Require Import Prelude.Base Model.Geometry Model.Extent Proofs.GeometryProofs Proofs.ExtentProofs.

(* ------------------------------------------------------------------ the box test: closed box, z ignored by 2-D extents *)
Theorem C13_box_test_2d : forall x y z lx hx ly hy,
  in_box (coords (x, y, z)) [(lx, hx); (ly, hy)] = true <-> (lx <= x <= hx /\ ly <= y <= hy)%Z.
Proof. exact in_box_2d. Qed.
Print Assumptions C13_box_test_2d.

Theorem C13_box_test_3d : forall x y z lx hx ly hy lz hz,
  in_box (coords (x, y, z)) [(lx, hx); (ly, hy); (lz, hz)] = true <-> (lx <= x <= hx /\ ly <= y <= hy /\ lz <= z <= hz)%Z.
Proof. exact in_box_3d. Qed.
Print Assumptions C13_box_test_3d.

(* mask_exact: entry i of the mask is the box test of point i, complemented by inverse; one entry per point *)
Theorem C13_mask_exact : forall ps e inv,
  length (mask_by_extent ps e inv) = length ps /\
  forall i, nth_error (mask_by_extent ps e inv) i = option_map (fun p => xorb inv (in_box (coords p) e)) (nth_error ps i).
Proof. intros ps e inv. split; [apply mask_by_extent_length|intros i; apply mask_by_extent_nth]. Qed.
Print Assumptions C13_mask_exact.

(* ------------------------------------------------------------------ point clouds *)
Theorem C13_points_mask_exact : forall o e inv m, points_mask o e inv = Ok (Some m) -> m = mask_by_extent (verts o) e inv.
Proof. exact points_mask_some. Qed.
Print Assumptions C13_points_mask_exact.

(* none_iff (points): nothing is returned exactly when the (valid) box misses the bounding box *)
Theorem C13_points_none_iff : forall o e inv,
  points_mask o e inv = Ok None <->
  exists bb, obj_extent (verts o) = Ok bb /\ valid_ext e = true /\ boxes_meet bb e = false.
Proof. exact points_mask_none_iff. Qed.
Print Assumptions C13_points_none_iff.

(* ... and then no vertex lies in the box, so returning nothing loses nothing (for inverse = false) *)
Theorem C13_bbox_miss_sound : forall ps bb e p,
  obj_extent ps = Ok bb -> boxes_meet bb e = false -> In p ps -> in_box (coords p) e = false.
Proof. exact bbox_miss_no_vertex. Qed.
Print Assumptions C13_bbox_miss_sound.

(* ------------------------------------------------------------------ curves and surfaces *)
(* cell_selection_exact: a vertex is kept iff some cell uses it and all vertices of that cell qualify; the cells the copy keeps
   (those all of whose vertices are kept) are exactly the cells all of whose vertices qualify *)
Theorem C13_cell_selection_exact : forall o e inv m, wf o -> cell_obj_mask o e inv = Ok (Some m) ->
  length m = length (verts o) /\
  (forall i, nth_error m i = Some true <->
     exists c, In c (cells o) /\ In i c /\
               Forall (fun v => option_map (qualifies e inv) (nth_error (verts o) v) = Some true) c) /\
  cell_mask m (cells o) = cell_mask (mask_by_extent (verts o) e inv) (cells o).
Proof.
  intros o e inv m W H. apply (cell_obj_mask_some o e inv m W) in H. subst m.
  split; [apply cell_final_mask_length|]. split; [intros i; apply cell_final_mask_true; exact W|apply cell_mask_final; exact W].
Qed.
Print Assumptions C13_cell_selection_exact.

(* none_iff (cell objects): nothing is returned exactly when the box misses the bounding box or no (non-empty) cell has all its
   vertices qualifying *)
Theorem C13_cell_none_iff : forall o e inv, wf o ->
  (cell_obj_mask o e inv = Ok None <->
   exists bb, obj_extent (verts o) = Ok bb /\ valid_ext e = true /\
     (boxes_meet bb e = false \/
      forall c, In c (cells o) ->
        ~ Forall (fun v => option_map (qualifies e inv) (nth_error (verts o) v) = Some true) c \/ c = [])).
Proof. exact cell_obj_mask_none_iff. Qed.
Print Assumptions C13_cell_none_iff.

(* the inverse option applies the complementary test *)
Theorem C13_inverse_is_complement : forall e p, qualifies e true p = negb (qualifies e false p).
Proof. exact qualifies_inverse. Qed.
Print Assumptions C13_inverse_is_complement.

(* ------------------------------------------------------------------ copying by extent *)
(* copy_by_extent_same_coords: the copy is the C07 selection for the returned mask (C07_selection_* then give: same coordinates
   for every kept vertex and cell, cells re-indexed onto existing vertices, data entries following their vertices / cells),
   and it is consistent *)
Theorem C13_copy_by_extent_is_selection : forall o e inv o', wf o -> copy_from_extent o e inv = CCopy o' ->
  wf o' /\ exists m, obj_mask o e inv = Ok (Some m) /\ selection m (cell_mask m (cells o)) o o'.
Proof.
  intros o e inv o' W H. destruct (copy_from_extent_selection o e inv o' W H) as [m [M S]].
  split; [eapply selection_wf; eauto|]. exists m. auto.
Qed.
Print Assumptions C13_copy_by_extent_is_selection.

(* spelled out for cells: every cell of the copy comes from exactly one source cell (in order), connects the same coordinates
   and references existing vertices *)
Theorem C13_copy_by_extent_same_coords : forall o e inv o' q c', wf o -> copy_from_extent o e inv = CCopy o' ->
  nth_error (cells o') q = Some c' ->
  exists m j c, obj_mask o e inv = Ok (Some m) /\
    nth_error (cell_mask m (cells o)) j = Some true /\ rank (cell_mask m (cells o)) j = q /\
    nth_error (cells o) j = Some c /\
    map (nth_error (verts o')) c' = map (nth_error (verts o)) c /\ cell_ok (length (verts o')) c'.
Proof.
  intros o e inv o' q c' W H Hq. destruct (copy_from_extent_selection o e inv o' W H) as [m [M S]].
  destruct (selection_cell_from _ _ _ _ _ _ S Hq) as [j [c (H1 & H2 & H3 & H4 & H5)]].
  exists m, j, c. repeat split; auto.
  pose proof (selection_wf _ _ _ _ W S) as (Wc' & _ & _). rewrite Forall_forall in Wc'. apply Wc'. eapply nth_error_In; eauto.
Qed.
Print Assumptions C13_copy_by_extent_same_coords.

(* nothing is copied exactly when no mask is returned, and a returned mask always yields a copy *)
Theorem C13_copy_none_iff : forall o e inv, copy_from_extent o e inv = CNone <-> obj_mask o e inv = Ok None.
Proof. exact copy_from_extent_none. Qed.
Print Assumptions C13_copy_none_iff.

(* (objects without text data: the masked copy of a text array from which nothing is dropped raises in Data.copy) *)
Theorem C13_copy_total : forall o e inv m, wf o -> no_text (kids o) -> obj_mask o e inv = Ok (Some m) ->
  exists o', copy_from_extent o e inv = CCopy o'.
Proof. exact copy_from_extent_total. Qed.
Print Assumptions C13_copy_total.

(* curves and surfaces keep precisely the vertices their kept cells use: no vertex of the copy is an orphan *)
Theorem C13_copy_no_orphans : forall o e inv o' j, wf o -> ok o <> OPoints -> copy_from_extent o e inv = CCopy o' ->
  j < length (verts o') -> exists c', In c' (cells o') /\ In j c'.
Proof. exact copy_no_orphans. Qed.
Print Assumptions C13_copy_no_orphans.

(* ------------------------------------------------------------------ Grid2D: index part of copy_from_extent (inverse = false) *)
(* PARTIAL (pinned index computation; needs contiguity): the sub-grid starts at the first selected column/row and, when the
   selected columns and rows are contiguous (always the case for an axis-aligned grid and a box), its counts are
   last - first + 1: the smallest rectangle covering the selected cells *)
Theorem C13_subgrid_minimal : forall nu sel g lastu lastv,
  grid_select false nu sel = Some g ->
  contiguous (col_any sel nu) -> contiguous (row_any sel) ->
  nth_error (col_any sel nu) lastu = Some true -> (forall i, lastu < i -> nth_error (col_any sel nu) i <> Some true) ->
  nth_error (row_any sel) lastv = Some true -> (forall i, lastv < i -> nth_error (row_any sel) i <> Some true) ->
  nth_error (col_any sel nu) (sg_u0 g) = Some true /\ (forall i, i < sg_u0 g -> nth_error (col_any sel nu) i = Some false) /\
  nth_error (row_any sel) (sg_v0 g) = Some true /\ (forall i, i < sg_v0 g -> nth_error (row_any sel) i = Some false) /\
  sg_nu g = lastu - sg_u0 g + 1 /\ sg_nv g = lastv - sg_v0 g + 1.
Proof. exact grid_select_minimal. Qed.
Print Assumptions C13_subgrid_minimal.

(* REFUTED without contiguity (possible for rotated grids, whose selected centroids need not fill whole columns): the count is
   the number of selected columns, not the width of their bounding interval *)
Definition C13_subgrid_minimal_full (fill : bool) : Prop := forall nu sel g lastu,
  grid_select fill nu sel = Some g ->
  nth_error (col_any sel nu) lastu = Some true -> (forall i, lastu < i -> nth_error (col_any sel nu) i <> Some true) ->
  sg_nu g = lastu - sg_u0 g + 1.

Theorem C13_subgrid_minimal_refuted : ~ C13_subgrid_minimal_full false.
Proof.
  intros A. destruct grid_select_gap as [g (G & U0 & NU & L)].
  assert (H : sg_nu g = 2 - sg_u0 g + 1).
  { apply (A 3 gap_rows g 2 G L). intros i Hi E.
    assert (i < length (col_any gap_rows 3)) by (apply nth_error_Some; congruence). simpl in H. lia. }
  rewrite NU, U0 in H. discriminate.
Qed.
Print Assumptions C13_subgrid_minimal_refuted.

(* REPAIRED code (fixes/C13-grid-subgrid-gap.patch fills the span between the first and last selected column / row): the
   sub-grid is the bounding rectangle of the selected cells for every selection, no contiguity needed *)
Theorem C13_subgrid_minimal_repaired : forall nu sel g lastu lastv,
  grid_select true nu sel = Some g ->
  nth_error (col_any sel nu) lastu = Some true -> (forall i, lastu < i -> nth_error (col_any sel nu) i <> Some true) ->
  nth_error (row_any sel) lastv = Some true -> (forall i, lastv < i -> nth_error (row_any sel) i <> Some true) ->
  nth_error (col_any sel nu) (sg_u0 g) = Some true /\ (forall i, i < sg_u0 g -> nth_error (col_any sel nu) i = Some false) /\
  nth_error (row_any sel) (sg_v0 g) = Some true /\ (forall i, i < sg_v0 g -> nth_error (row_any sel) i = Some false) /\
  sg_nu g = lastu - sg_u0 g + 1 /\ sg_nv g = lastv - sg_v0 g + 1.
Proof. exact grid_select_minimal_repaired. Qed.
Print Assumptions C13_subgrid_minimal_repaired.

(* every selected cell lies in a selected column and row, i.e. inside that rectangle *)
Theorem C13_subgrid_covers : forall rows nu j row i,
  i < nu -> nth_error rows j = Some row -> nth i row false = true ->
  nth_error (col_any rows nu) i = Some true /\ nth_error (row_any rows) j = Some true.
Proof. exact selected_cell_covered. Qed.
Print Assumptions C13_subgrid_covers.

(* ------------------------------------------------------------------ unrotated, undipped Grid2D: selection matrix and copied values
   (exact integer arithmetic in half units; for rotated / dipped grids the matrix stays an input of grid_select) *)

(* the selection matrix computed from the cell-centre formula: nv rows of nu entries, entry (j, i) = the closed-box test of
   origin + ((i + 1/2) du, (j + 1/2) dv, 0) *)
Theorem C13_grid_selection_matrix : forall e2 ox oy oz du dv nu nv i j, i < nu -> j < nv ->
  nth_error (grid_sel e2 (grid_centres2 ox oy oz du dv nu nv)) j <> None /\
  forall row, nth_error (grid_sel e2 (grid_centres2 ox oy oz du dv nu nv)) j = Some row ->
    length row = nu /\ nth_error row i = Some (in_box (coords (grid_centre2 ox oy oz du dv i j)) e2).
Proof. exact grid_sel_nth. Qed.
Print Assumptions C13_grid_selection_matrix.

(* the values of the copied sub-grid, row-major: cell (a, b) of the copy sits on source cell (u0 + a, v0 + b) and carries the
   source value when that centre is selected, the no-data value otherwise (repaired index computation = the checked tree;
   any selection matrix, so also the rotated case once the matrix is given) *)
Theorem C13_grid_copy_values : forall nu sel g (vrows : list (list (option Z))),
  grid_select true nu sel = Some g ->
  length vrows = length sel -> Forall (fun r => length r = nu) vrows ->
  grid_copy_values sel g (concat vrows) =
  concat (map (fun b => map (fun a => if nth (sg_u0 g + a) (nth (sg_v0 g + b) sel []) false
                                      then nth (sg_u0 g + a) (nth (sg_v0 g + b) vrows []) None
                                      else None)
                            (seq 0 (sg_nu g))) (seq 0 (sg_nv g))).
Proof. exact grid_copy_values_spec. Qed.
Print Assumptions C13_grid_copy_values.

(* ------------------------------------------------------------------ every object selected through its locations
   GridObject.mask_by_extent (block models, octrees, 2-D grids: centroids), Drillhole.mask_by_extent (the collar) and
   Points.mask_by_extent (vertices) are the same function of a location list: [located_mask].  Whatever the list (for
   block models and octrees: the centroids C17's theorems describe), the elements selected are exactly those whose
   coordinates lie in the closed box (outside it when inverse), and nothing is returned exactly when the box misses the
   bounding box of the locations *)
Theorem C13_located_mask_exact : forall locs e inv m, located_mask locs e inv = Ok (Some m) ->
  length m = length locs /\
  forall i p, nth_error locs i = Some p -> nth_error m i = Some (xorb inv (in_box (coords p) e)).
Proof. exact located_mask_exact. Qed.
Print Assumptions C13_located_mask_exact.

Theorem C13_located_none_iff : forall locs e inv,
  located_mask locs e inv = Ok None <->
  exists bb, obj_extent locs = Ok bb /\ valid_ext e = true /\ boxes_meet bb e = false.
Proof. exact located_mask_none_iff. Qed.
Print Assumptions C13_located_none_iff.

(* instances: block model / octree centroids, and the drillhole collar (a hole is selected by its collar alone) *)
Theorem C13_grid_object_mask_exact : forall centroids e inv m, grid_object_mask centroids e inv = Ok (Some m) ->
  length m = length centroids /\
  forall i p, nth_error centroids i = Some p -> nth_error m i = Some (xorb inv (in_box (coords p) e)).
Proof. exact located_mask_exact. Qed.
Print Assumptions C13_grid_object_mask_exact.

Theorem C13_drillhole_mask_exact : forall collar e inv m, drillhole_mask collar e inv = Ok (Some m) ->
  m = [xorb inv (in_box (coords collar) e)].
Proof.
  intros collar e inv m H. apply located_mask_some in H. subst m. reflexivity.
Qed.
Print Assumptions C13_drillhole_mask_exact.

(* copy_from_extent of a block model / octree (GridObject.copy with the centroid mask): a child with one value per cell keeps
   the source value inside the mask and holds the kind's no-data value outside (nan / INTEGER_NDV / False / ""), whatever the
   data kind; with the repaired blank array (np.full_like(values, child.nan_value)) no kind makes the copy fail *)
Theorem C13_grid_object_copy_values : forall fill k m v v', length m = length v -> grid_child_copy fill k m v = Ok v' ->
  length v' = length v /\
  forall i b x, nth_error m i = Some b -> nth_error v i = Some x -> nth_error v' i = Some (if b then x else ndv k).
Proof. exact grid_child_copy_spec. Qed.
Print Assumptions C13_grid_object_copy_values.

Theorem C13_grid_object_copy_total_repaired : forall k m v, exists v', grid_child_copy true k m v = Ok v'.
Proof. exact grid_child_copy_total. Qed.
Print Assumptions C13_grid_object_copy_total_repaired.

(* the extent used by every selection is exactly the bounding box of the CURRENT locations: it contains them all
   (C13_bbox_miss_sound uses that) and each bound is attained by one of them; in the model it is recomputed from the
   object's vertices at every query, so nothing a caller does to a returned extent, and no earlier query, can change it *)
Theorem C13_extent_is_bounding_box : forall ps lx hx ly hy lz hz, obj_extent ps = Ok [(lx, hx); (ly, hy); (lz, hz)] ->
  (forall p, In p ps -> in_box (coords p) [(lx, hx); (ly, hy); (lz, hz)] = true) /\
  (exists p, In p ps /\ fst (fst p) = lx) /\ (exists p, In p ps /\ fst (fst p) = hx) /\
  (exists p, In p ps /\ snd (fst p) = ly) /\ (exists p, In p ps /\ snd (fst p) = hy) /\
  (exists p, In p ps /\ snd p = lz) /\ (exists p, In p ps /\ snd p = hz).
Proof.
  intros ps lx hx ly hy lz hz H. split; [intros p Hp; eapply obj_extent_contains; eauto|apply obj_extent_attained; exact H].
Qed.
Print Assumptions C13_extent_is_bounding_box.

(* ------------------------------------------------------------------ groups: the copy by extent of a group holds exactly the copies
   of the children whose own selection is not empty, in order, and there is no group copy when there is none *)
(* (list-level lemma, definitional for [group_copy_from_extent]; the statement on the composed operation follows) *)
Theorem C13_group_copy : forall (A : Type) (copies : list (option A)),
  let kept := flat_map (fun c => match c with Some x => [x] | None => [] end) copies in
  (group_copy_from_extent copies = None <-> forall c, In c copies -> c = None) /\
  (forall l, group_copy_from_extent copies = Some l -> l = kept /\ l <> []) /\
  (forall x, In x kept <-> In (Some x) copies).
Proof. intros A. exact (@group_copy_spec A). Qed.
Print Assumptions C13_group_copy.

(* Group.copy_from_extent composed with its children's own copy_from_extent (objects of the C07/C13 model): a copy is
   returned iff no child's copy raises and some child has a selection, and it holds exactly the copies of those children, in
   order; None iff every child returns None; when a child's copy raises, the group's raises the same error and the group
   copy made so far is removed again by the repaired code (cleanup = true) and left behind by the pinned code *)
Theorem C13_group_copy_from_extent : forall cleanup children e inv,
  let rs := map (fun o => child_copy_res o e inv) children in
  (forall l, group_copy_run cleanup rs = GCopy l ->
     (forall o, In o children -> forall er, copy_from_extent o e inv <> CErr er) /\ l <> [] /\
     l = flat_map (fun o => match copy_from_extent o e inv with CCopy c => [c] | _ => [] end) children) /\
  (group_copy_run cleanup rs = GNone ->
     forall o, In o children -> copy_from_extent o e inv = CNone) /\
  (forall er stray, group_copy_run cleanup rs = GFail er stray ->
     stray = negb cleanup /\ exists o, In o children /\ copy_from_extent o e inv = CErr er).
Proof. exact group_copy_children. Qed.
Print Assumptions C13_group_copy_from_extent.

(* Drillhole.copy_from_extent, repaired: the hole is copied (as a whole) exactly when its collar is selected *)
Theorem C13_drillhole_copy_repaired : forall collar nv e inv,
  drillhole_copy_from_extent true collar nv e inv =
  match drillhole_mask collar e inv with
  | Err er => Err er
  | Ok None => Ok None
  | Ok (Some _) => if xorb inv (in_box (coords collar) e) then Ok (Some true) else Ok None
  end.
Proof. exact drillhole_copy_fixed. Qed.
Print Assumptions C13_drillhole_copy_repaired.

(* REFUTED for the pinned code: a hole with depth data whose collar lies in the box is not copied (ValueError), and a hole
   without vertices is copied although its collar is not selected (inverse) *)
Theorem C13_drillhole_copy_refuted :
  ~ (forall collar nv e inv, drillhole_copy_from_extent false collar nv e inv = drillhole_copy_from_extent true collar nv e inv).
Proof.
  intros H. specialize (H (1, 1, 0)%Z (Some 3) [(0, 2); (0, 2)]%Z false). vm_compute in H. discriminate.
Qed.
Print Assumptions C13_drillhole_copy_refuted.

(* ------------------------------------------------------------------ non-vacuity *)
(* a surface whose first triangle lies in the 2-D box [0,1]x[0,1] (points on the boundary count; z is ignored) and whose second
   does not; vertex 4 qualifies but is an orphan: the mask keeps 0,1,2 only; the inverse keeps nothing (no triangle wholly outside) *)
Definition ex13 : obj :=
  {| ok := OSurface; verts := [(0,0,5); (1,0,-7); (0,1,0); (2,2,0); (1,1,9)]%Z; cells := [[0;1;2];[1;2;3]];
     kids := [{| kid_id := 1; kassoc := ACell; kkind := KFloat; kvals := Some [Some 7; Some 8]%Z |}] |}.

Example C13_nonvacuous :
  wf ex13 /\
  obj_mask ex13 [(0,1);(0,1)]%Z false = Ok (Some [true; true; true; false; false]) /\
  obj_mask ex13 [(0,1);(0,1)]%Z true = Ok None /\
  obj_mask ex13 [(5,6);(0,1)]%Z false = Ok None /\
  copy_from_extent ex13 [(0,1);(0,1)]%Z false =
    CCopy {| ok := OSurface; verts := [(0,0,5); (1,0,-7); (0,1,0)]%Z; cells := [[0;1;2]];
             kids := [{| kid_id := 1; kassoc := ACell; kkind := KFloat; kvals := Some [Some 7]%Z |}] |}.
Proof.
  split; [split; [repeat constructor|split; [repeat constructor|discriminate]]|].
  repeat split; vm_compute; reflexivity.
Qed.

(* an axis-aligned selection: rows 1-2, columns 1-3 of a 4 x 3 grid *)
(* the refuting selection (columns 0 and 2 of one row) under the repaired computation: 3 columns from column 0 *)
Example C13_grid_gap_repaired :
  exists g, grid_select true 3 gap_rows = Some g /\ sg_u0 g = 0 /\ sg_nu g = 3 /\ sg_nv g = 1.
Proof. eexists. split; [vm_compute; reflexivity|]. simpl. auto. Qed.

(* a 3 x 2 unrotated grid (origin (0,0,0), cells 2 x 1) and the box x in [2.5, 6], y in [0, 1] (half units: [5,12] x [0,2]):
   columns 1-2 of row 0 are selected; the copy is 2 x 1 and keeps their values *)
Example C13_grid_axis_aligned :
  let sel := grid_sel [(5,12);(0,2)]%Z (grid_centres2 0 0 0 2 1 3 2) in
  sel = [[false; true; true]; [false; false; false]] /\
  exists g, grid_select true 3 sel = Some g /\ sg_u0 g = 1 /\ sg_v0 g = 0 /\ sg_nu g = 2 /\ sg_nv g = 1 /\
            grid_copy_values sel g (concat [[Some 10; Some 11; Some 12]; [Some 13; Some 14; Some 15]]%Z) = [Some 11; Some 12]%Z.
Proof. split; [vm_compute; reflexivity|]. eexists. split; [vm_compute; reflexivity|]. vm_compute. auto. Qed.

Example C13_located_nonvacuous :
  grid_object_mask [(1,1,1); (3,1,1); (1,3,1)]%Z [(0,2);(0,2)]%Z false = Ok (Some [true; false; false]) /\
  drillhole_mask (5,5,0)%Z [(0,2);(0,2)]%Z false = Ok None /\
  drillhole_mask (1,1,0)%Z [(0,2);(0,2)]%Z true = Ok (Some [false]) /\
  group_copy_from_extent [None; Some 7; None; Some 9] = Some [7; 9] /\ group_copy_from_extent [@None nat; None] = None.
Proof. repeat split; vm_compute; reflexivity. Qed.

Example C13_grid_nonvacuous :
  let sel := [[false;false;false;false];[false;true;true;true];[false;true;true;true]] in
  exists g, grid_select false 4 sel = Some g /\ sg_u0 g = 1 /\ sg_v0 g = 1 /\ sg_nu g = 3 /\ sg_nv g = 2 /\
            contiguous (col_any sel 4) /\ contiguous (row_any sel).
Proof.
  eexists. split; [vm_compute; reflexivity|]. simpl. repeat split; auto.
  - exact (contiguous_block 1 3 0).
  - exact (contiguous_block 1 2 0).
Qed.
