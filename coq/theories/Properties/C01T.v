(* C01, entity-TYPE clauses — typed layer Model/WsT.v.
   Only statements, each closed by [exact] and followed by Print Assumptions. *)
From GV Require Import Prelude.Base Model.WsT Model.WsTSpec Proofs.WsTProofs.

(* PARTIAL (SUFFICIENT side condition [fresh_types_run]: no entity over a stale entity node, and no caller-supplied TYPE
   identifier that is stale on file -- it is live, hence shared, or no node carries it): after any such history close +
   open succeeds and every entity has the parent, class, type identifier, primitive type and type name it had.
   The condition is sufficient, not necessary: it also rejects the harmless re-use of a stale node whose primitive type and
   name happen to equal the new type's; what is proved about its sharpness is one excluded witness (C01T_reopen_refuted).
   Driver convention of the model (Model/WsT.v header): [RemoveWs] is `ws.remove_entity(ws.get_entity(u)[0])`, no reference to
   the removed entity held by the caller. *)
Theorem C01T_reopen_partial : forall ops, fresh_types_run ops init = true ->
  let s := run ops init in
  snd (step s Reopen) = Done /\ mem_view (fst (step s Reopen)) = mem_view s.
Proof. exact reopen_types. Qed.
Print Assumptions C01T_reopen_partial.

(* the stored attributes of every live entity's type are those of the live type object, after every such history *)
Theorem C01T_attrs_sync : forall ops, fresh_types_run ops init = true -> TInv (run ops init) /\ attrs_sync (run ops init).
Proof. intros ops H. exact (inv_sync_run ops init tinv_init sync_init H). Qed.
Print Assumptions C01T_attrs_sync.

(* REFUTED without the side condition: write_entity_type returns a stale node under Types untouched (witness
   [ops_stale_type]: float data under type 10, removed through its parent, integer data under type 10: re-opened as float
   under the old type name) -- known finding stale-type-reused *)
Definition C01T_reopen_full : Prop := C01_types_full.
Theorem C01T_reopen_refuted : ~ C01T_reopen_full.
Proof. exact C01_types_full_refuted. Qed.
Print Assumptions C01T_reopen_refuted.

Example C01T_nonvacuous :
  fresh_types_run ops_demo_t init = true /\
  map (fun n => snd (step (run (firstn n ops_demo_t) init) (nth n ops_demo_t Reopen))) (seq 0 15)
  = [Done; Done; Done; Done; Done; Done; Done; Done; Done; Done; Done; Done; Done; Done; Done] /\
  fresh_types_run ops_stale_type init = false.
Proof. split; [apply ops_demo_t_ok | split; [apply ops_demo_t_ok | apply ops_stale_type_flags]]. Qed.
