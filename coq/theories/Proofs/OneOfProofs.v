(* The at-least-one rule of InputValidation.validate_data (Model/Enforcers.v): accepted iff every one_of group has a member
   that is not None  (property C15). *)
From Coq Require Import String Ascii.
From GV Require Import Prelude.Base Model.PyVal Model.UiRules Model.Enforcers Proofs.PyValProofs Proofs.UiRulesProofs
     Proofs.EnforcersProofs Proofs.ValidatorsProofs.
From GVgen Require Import PyLite_SharedUtils PyLite_UiUtils PyLite_Validators.
Local Open Scope string_scope. Local Open Scope list_scope.


(* ---------------------------------------------------------------- dictionaries with string keys *)
Lemma dict_find_set_same d s v : dict_find (PStr s) (dict_set d (PStr s) v) = Some v.
Proof.
  induction d as [|[k w] r IH]; [simpl; rewrite String.eqb_refl; reflexivity|].
  cbn [dict_set]. destruct (py_eq (PStr s) k) eqn:E; cbn [dict_find]; rewrite E; [reflexivity | exact IH].
Qed.
Lemma dict_find_set_other d s t v : String.eqb t s = false -> forallb (fun kv : pv * pv => is_pstr (fst kv)) d = true ->
  dict_find (PStr t) (dict_set d (PStr s) v) = dict_find (PStr t) d.
Proof.
  intros Hne. induction d as [|[k w] r IH]; simpl; intros Hk; [rewrite Hne; reflexivity|].
  apply andb_true_iff in Hk as [K1 K2]. destruct k; try discriminate. simpl.
  destruct (String.eqb s s0) eqn:E; simpl.
  - apply String.eqb_eq in E. subst s0. rewrite Hne. reflexivity.
  - destruct (String.eqb t s0); [reflexivity | apply IH; exact K2].
Qed.
Lemma keys_ok_dict_set d s v : keys_ok d -> keys_ok (dict_set d (PStr s) v).
Proof.
  intros [K1 K2]. split.
  - clear K2. induction d as [|[k w] r IH]; [reflexivity|]. cbn [forallb fst dict_set] in *. apply andb_true_iff in K1 as [A B].
    destruct (py_eq (PStr s) k); cbn [forallb fst]; rewrite A; [exact B | apply IH; exact B].
  - assert (Fresh : forall r, forallb (fun kv : pv * pv => is_pstr (fst kv)) r = true -> forall s0, String.eqb s s0 = false ->
              existsb (fun k2 => py_eq (PStr s0) k2 || py_eq k2 (PStr s0)) (map fst r) = false ->
              existsb (fun k2 => py_eq (PStr s0) k2 || py_eq k2 (PStr s0)) (map fst (dict_set r (PStr s) v)) = false).
    { induction r as [|[k2 w2] r IHr]; intros B s0 E C.
      - cbn. rewrite (String.eqb_sym s0 s), E. reflexivity.
      - cbn [forallb fst] in B. apply andb_true_iff in B as [B1 B2]. destruct k2 as [ | | | | s1 | | | | | | | ]; try discriminate.
        cbn [map fst existsb] in C. apply orb_false_iff in C as [C1 C2].
        cbn [dict_set]. destruct (py_eq (PStr s) (PStr s1)); cbn [map fst existsb]; rewrite C1; [exact C2 | apply IHr; assumption]. }
    induction d as [|[k w] r IH]; [reflexivity|].
    cbn [forallb fst map keys_distinct] in K1, K2. apply andb_true_iff in K1 as [A B]. apply andb_true_iff in K2 as [C D].
    destruct k as [ | | | | s0 | | | | | | | ]; try discriminate.
    cbn [dict_set]. destruct (py_eq (PStr s) (PStr s0)) eqn:E; cbn [map fst keys_distinct].
    + rewrite C, D. reflexivity.
    + rewrite (IH B D), andb_true_r. apply negb_true_iff. apply negb_true_iff in C. apply Fresh; assumption.
Qed.

(* ---------------------------------------------------------------- one group, one parameter *)
Lemma AtLeastOne_eq name m valid :
  AtLeastOneValidator_validate name (PDict m) valid
  = if existsb truthy (map snd m) then Ok PNone else Raise (Validation VAtLeastOne).
Proof.
  unfold AtLeastOneValidator_validate. cbn [dict_values bind]. rewrite any_res_pure. cbn [bind].
  destruct (existsb truthy (map snd m)); reflexivity.
Qed.

Lemma group_validate W o name m : ignore_list o = [] ->
  iv_validate W o name (PDict m) (PDict [(PStr "one_of", PNone)])
  = if existsb truthy (map snd m) then Ok PNone else Raise (Validation VAtLeastOne).
Proof.
  intros Hi. unfold iv_validate, validator_order. rewrite Hi.
  cbn -[AtLeastOneValidator_validate]. rewrite AtLeastOne_eq.
  destruct (existsb truthy (map snd m)); reflexivity.
Qed.

Lemma validate_no_rules W o name v : iv_validate W o name v (PDict []) = Ok PNone.
Proof. reflexivity. Qed.

(* what the loop records for parameter p of group g *)
Definition add_flag (og : list (pv * pv)) (g p : string) (b : bool) : list (pv * pv) :=
  match dict_find (PStr g) og with
  | Some (PDict m) => dict_set og (PStr g) (PDict (dict_set m (PStr p) (PBool b)))
  | _ => dict_set og (PStr g) (PDict [(PStr p, PBool b)])
  end.
Definition all_dicts (og : list (pv * pv)) : Prop := forall k v, In (k, v) og -> exists m, v = PDict m.

Lemma one_of_step W o data vals og p g :
  dict_has (PStr p) data = true -> all_dicts og ->
  iv_step false W o (PDict data) (vals, PDict og) (PStr p, PDict [(PStr "one_of", PStr g)])
  = Ok (vals, PDict (add_flag og g p (provided data p))).
Proof.
  intros Hp Hall. unfold iv_step. cbn [in_keys hashable]. rewrite Hp. cbn [negb bind contains hashable dict_has dict_find py_eq String.eqb Ascii.eqb Bool.eqb].
  cbn [getitem hashable dict_find py_eq String.eqb Ascii.eqb Bool.eqb delitem dict_has dict_del bind].
  unfold dict_has in Hp. destruct (dict_find (PStr p) data) as [dv|] eqn:Ed; [|discriminate]. cbn [bind].
  cbn [dict_get hashable bind]. unfold add_flag, provided. rewrite ?Ed.
  assert (B : negb (is_none dv) = match dv with PNone => false | _ => true end) by (destruct dv; reflexivity).
  destruct (dict_find (PStr g) og) as [cur|] eqn:Eg.
  - destruct (dict_find_in _ _ _ Eg) as [k2 Hin]. destruct (Hall _ _ Hin) as [m ->].
    cbn [is_none dict_update fold_left fst snd bind setitem hashable]. rewrite B.
    cbn [contains hashable dict_has dict_find bind dict_get]. rewrite ?Ed. cbn [bind]. rewrite ?validate_no_rules. reflexivity.
  - cbn [is_none bind setitem hashable]. rewrite B.
    cbn [contains hashable dict_has dict_find bind dict_get]. rewrite ?Ed. cbn [bind]. rewrite ?validate_no_rules. reflexivity.
Qed.

(* ---------------------------------------------------------------- the loop collects, per group, the flags of its members *)
Definition flags (data : list (pv * pv)) (ms : list (string * string)) : list (pv * pv) :=
  map (fun pg => (PStr (fst pg), PBool (provided data (fst pg)))) ms.
Definition members (spec : list (string * string)) (g : string) : list (string * string) :=
  filter (fun pg => String.eqb (snd pg) g) spec.
Definition Inv (data : list (pv * pv)) (done : list (string * string)) (og : list (pv * pv)) : Prop :=
  keys_ok og /\ all_dicts og /\
  forall g, dict_find (PStr g) og = match members done g with [] => None | ms => Some (PDict (flags data ms)) end.

Lemma in_dict_set d key x k v : In (k, v) (dict_set d key x) -> In (k, v) d \/ v = x.
Proof.
  induction d as [|[k2 w] r IH]; cbn [dict_set]; intros H.
  - destruct H as [E|[]]. inversion E. right; reflexivity.
  - destruct (py_eq key k2).
    + destruct H as [E|H]; [inversion E; right; reflexivity | left; right; exact H].
    + destruct H as [E|H]; [left; left; exact E | destruct (IH H) as [X|X]; [left; right; exact X | right; exact X]].
Qed.

Lemma flags_fresh data ms p : ~ In p (map fst ms) ->
  existsb (fun k2 => py_eq (PStr p) k2 || py_eq k2 (PStr p)) (map fst (flags data ms)) = false.
Proof.
  induction ms as [|[q g] r IH]; intros H; [reflexivity|]. cbn [flags map fst existsb py_eq].
  assert (E : String.eqb p q = false) by (apply String.eqb_neq; intros ->; apply H; left; reflexivity).
  rewrite E, (String.eqb_sym q p), E. cbn [orb]. apply IH. intros X. apply H. right. exact X.
Qed.

Lemma members_app spec x g : members (spec ++ [x]) g = members spec g ++ (if String.eqb (snd x) g then [x] else []).
Proof. unfold members. rewrite filter_app. cbn [filter]. destruct (String.eqb (snd x) g); reflexivity. Qed.

Lemma members_sub spec g p : In p (map fst (members spec g)) -> In p (map fst spec).
Proof. unfold members. intros H. apply in_map_iff in H as (x & <- & Hx). apply filter_In in Hx as [Hx _]. apply in_map. exact Hx. Qed.

Lemma inv_step data done og p g :
  Inv data done og -> ~ In p (map fst done) -> Inv data (done ++ [(p, g)]) (add_flag og g p (provided data p)).
Proof.
  intros (K & A & F) Hp. unfold add_flag. pose proof (F g) as Fg.
  assert (Hfresh : ~ In p (map fst (members done g))) by (intros X; apply Hp; apply (members_sub _ _ _ X)).
  assert (New : exists m', (match dict_find (PStr g) og with
                            | Some (PDict m) => dict_set og (PStr g) (PDict (dict_set m (PStr p) (PBool (provided data p))))
                            | _ => dict_set og (PStr g) (PDict [(PStr p, PBool (provided data p))]) end) = dict_set og (PStr g) (PDict m')
                           /\ m' = flags data (members done g ++ [(p, g)])).
  { destruct (members done g) as [|x ms] eqn:Em; rewrite Fg.
    - eexists. split; reflexivity.
    - eexists. split; [reflexivity|]. rewrite dict_set_fresh by (apply flags_fresh; rewrite <- Em in *; exact Hfresh).
      unfold flags. rewrite map_app. reflexivity. }
  destruct New as (m' & Enew & Em'). rewrite Enew. split; [|split].
  - apply keys_ok_dict_set. exact K.
  - intros k v Hin. apply in_dict_set in Hin as [Hin|Hin]; [apply (A _ _ Hin) | subst v; eexists; reflexivity].
  - intros g2. rewrite members_app. cbn [snd]. destruct (String.eqb g g2) eqn:E.
    + apply String.eqb_eq in E. subst g2. rewrite dict_find_set_same. rewrite Em'.
      destruct (members done g ++ [(p, g)]) eqn:X; [destruct (members done g); discriminate | reflexivity].
    + rewrite dict_find_set_other; [rewrite app_nil_r; apply F | rewrite String.eqb_sym; exact E | apply K].
Qed.

Lemma one_of_loop W o data vals : forall rest done og,
  Inv data done og -> NoDup (map fst (done ++ rest)) ->
  (forall p g, In (p, g) rest -> dict_has (PStr p) data = true) ->
  exists og', fold_res (iv_step false W o (PDict data)) (one_of_table rest) (vals, PDict og) = Ok (vals, PDict og')
              /\ Inv data (done ++ rest) og'.
Proof.
  induction rest as [|[p g] r IH]; intros done og HI Hnd Hdata.
  - exists og. rewrite app_nil_r. split; [reflexivity | exact HI].
  - cbn [one_of_table map fst snd fold_res].
    rewrite one_of_step; [| apply (Hdata p g); left; reflexivity | apply HI]. cbn [bind].
    assert (Hp : ~ In p (map fst done)).
    { rewrite map_app in Hnd. apply NoDup_remove_2 in Hnd. intros X. apply Hnd. apply in_or_app. left; exact X. }
    destruct (IH (done ++ [(p, g)]) (add_flag og g p (provided data p))) as (og' & E & HI').
    + apply inv_step; assumption.
    + rewrite <- app_assoc. exact Hnd.
    + intros p2 g2 H2. apply (Hdata p2 g2). right; exact H2.
    + exists og'. split; [exact E | rewrite <- app_assoc in HI'; exact HI'].
Qed.

(* ---------------------------------------------------------------- the check over the collected groups *)
Definition group_has_one (gv : pv * pv) : bool :=
  match snd gv with PDict m => existsb truthy (map snd m) | _ => false end.

Lemma groups_check_eq W o og : ignore_list o = [] -> all_dicts og ->
  iv_groups_check W o og = if forallb group_has_one og then Ok PNone else Raise (Validation VAtLeastOne).
Proof.
  intros Hi. unfold iv_groups_check. induction og as [|[k v] r IH]; intros Hall; [reflexivity|].
  destruct (Hall k v (or_introl eq_refl)) as [m ->]. cbn [fold_res fst snd]. rewrite (group_validate W o k m Hi).
  cbn [forallb group_has_one snd]. destruct (existsb truthy (map snd m)); cbn [bind andb]; [|reflexivity].
  apply IH. intros k2 v2 H2. apply (Hall k2 v2). right; exact H2.
Qed.

Lemma flags_any data ms : existsb truthy (map snd (flags data ms)) = existsb (fun pg => provided data (fst pg)) ms.
Proof. induction ms as [|[p g] r IH]; [reflexivity|]. cbn [flags map snd existsb truthy fst]. fold (flags data r). rewrite IH. reflexivity. Qed.

Lemma members_any data spec g :
  existsb (fun pg => provided data (fst pg)) (members spec g) = group_satisfied spec data g.
Proof.
  unfold members, group_satisfied. induction spec as [|[p g2] r IH]; [reflexivity|]. cbn [filter existsb fst snd].
  destruct (String.eqb g2 g); cbn [existsb andb fst]; rewrite IH; reflexivity.
Qed.

Lemma dict_find_some_in s d v : forallb (fun kv : pv * pv => is_pstr (fst kv)) d = true ->
  dict_find (PStr s) d = Some v -> In (PStr s, v) d.
Proof.
  induction d as [|[k w] r IH]; cbn [dict_find forallb fst]; intros Hk H; [discriminate|].
  apply andb_true_iff in Hk as [K1 K2]. destruct k as [ | | | | s1 | | | | | | | ]; try discriminate. cbn [py_eq] in H.
  destruct (String.eqb s s1) eqn:E.
  - apply String.eqb_eq in E. subst. inversion H; subst. left; reflexivity.
  - right. apply IH; assumption.
Qed.

Lemma inv_check data spec og : Inv data spec og -> forallb group_has_one og = one_of_ok spec data.
Proof.
  intros (K & A & F). apply eq_true_iff_eq. split; intros H.
  - unfold one_of_ok. rewrite forallb_forall. intros [p g] Hin. cbn [snd].
    assert (Hm : members spec g <> []).
    { unfold members. intros X. assert (In (p, g) (filter (fun pg => String.eqb (snd pg) g) spec)) as Y
        by (apply filter_In; split; [exact Hin | cbn; apply String.eqb_refl]). rewrite X in Y. exact Y. }
    pose proof (F g) as Fg. destruct (members spec g) as [|x ms] eqn:Em; [contradiction|].
    apply (dict_find_some_in g og _ (proj1 K)) in Fg.
    rewrite forallb_forall in H. specialize (H _ Fg). unfold group_has_one in H. cbn [snd] in H.
    rewrite flags_any in H. rewrite <- Em in H. rewrite members_any in H. exact H.
  - rewrite forallb_forall. intros [k v] Hin. unfold group_has_one. cbn [snd].
    assert (Hk : is_pstr k = true) by (destruct K as [K1 _]; rewrite forallb_forall in K1; apply (K1 _ Hin)).
    destruct k as [ | | | | g | | | | | | | ]; try discriminate.
    pose proof (dict_find_first og (PStr g) v K Hin) as Fv. rewrite (F g) in Fv.
    destruct (members spec g) as [|x ms] eqn:Em; [discriminate|]. assert (Ev : v = PDict (flags data (x :: ms))) by (inversion Fv; reflexivity). subst v. cbv iota.
    rewrite flags_any, <- Em, members_any.
    assert (Hx : In x spec /\ String.eqb (snd x) g = true).
    { assert (In x (members spec g)) as Y by (rewrite Em; left; reflexivity). unfold members in Y. apply filter_In in Y. exact Y. }
    destruct Hx as [Hx Eg]. apply String.eqb_eq in Eg. unfold one_of_ok in H. rewrite forallb_forall in H.
    specialize (H x Hx). rewrite Eg in H. exact H.
Qed.

(* InputValidation.validate_data on a table of at-least-one rules accepts iff every group has a member that is not None *)
Theorem one_of_accept_iff W o spec data :
  ignore_list o = [] -> NoDup (map fst spec) -> (forall p g, In (p, g) spec -> dict_has (PStr p) data = true) ->
  snd (iv_validate_data W o (PDict (one_of_table spec)) (PDict data))
  = if one_of_ok spec data then Ok PNone else Raise (Validation VAtLeastOne).
Proof.
  intros Hi Hnd Hdata. unfold iv_validate_data, iv_validate_data_gen.
  destruct (one_of_loop W o data (PDict (one_of_table spec)) spec [] []) as (og & E & HI).
  - split; [split; reflexivity | split; [intros k v [] | intros g; reflexivity]].
  - exact Hnd.
  - exact Hdata.
  - rewrite E. cbn [snd]. rewrite (groups_check_eq W o og Hi (proj1 (proj2 HI))). rewrite (inv_check data spec og HI). reflexivity.
Qed.
