(* Proofs about the workspace/file model: frame (C09), the representation invariant (C01/C02), the loader. *)
From GV Require Import Prelude.Base Model.WsX Model.WsXSpec Proofs.WsXFile Proofs.WsXTree.
From Coq Require Import Permutation.
