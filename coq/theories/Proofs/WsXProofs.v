(* Proofs about the workspace/file model: frame (C09), the representation invariant (C01/C02), the loader. *)
From GV Require Import Prelude.Base Model.WsX Model.WsXSpec Proofs.WsXFile Proofs.WsXTree.
From Coq Require Import Permutation.

(* ======================================================================================================== *)
(* Part A — frame properties, unconditional                                                                  *)
(* ======================================================================================================== *)

Definition frame_ok (t : tree) : Prop :=
  forall p f y, y <> p -> ~ In y (keys_of t) -> fget y (flat (save_tree p t f)) = fget y (flat f).

Lemma save_kids_frame k l y : Forall frame_ok l -> y <> k -> ~ In y (flat_map keys_of l) ->
  forall f, fget y (flat (save_kids k l f)) = fget y (flat f).
Proof.
  intros H Hk. induction H as [|c r Hc Hr IHr]; intros Hl f; [reflexivity|].
  simpl in Hl. unfold save_kids in *. simpl. rewrite IHr.
  - apply Hc; [exact Hk | intros Hy; apply Hl; apply in_or_app; left; exact Hy].
  - intros Hy. apply Hl. apply in_or_app. right. exact Hy.
Qed.

Lemma save_tree_frame t : frame_ok t.
Proof.
  induction t as [k a l IH] using tree_ind'. intros p f y Hp Hy. rewrite save_tree_eq.
  rewrite w_link_frame by exact Hp. rewrite keys_of_eq in Hy.
  assert (Hk : y <> k) by (intros ->; apply Hy; left; reflexivity).
  rewrite save_kids_frame; [apply w_entity_frame; exact Hk | exact IH | exact Hk |].
  intros Hl. apply Hy. right. exact Hl.
Qed.

Lemma save_kids_frame' k l y f : y <> k -> ~ In y (flat_map keys_of l) ->
  fget y (flat (save_kids k l f)) = fget y (flat f).
Proof.
  intros Hk Hl. apply save_kids_frame; [|exact Hk | exact Hl].
  apply Forall_forall. intros c _. apply save_tree_frame.
Qed.

Lemma save_kids_rootlink k l : (forall c p f, In c l -> rootlink (save_tree p c f) = rootlink f) ->
  forall f, rootlink (save_kids k l f) = rootlink f.
Proof.
  induction l as [|c r IH]; intros H f; [reflexivity|].
  unfold save_kids in *. simpl. rewrite IH.
  - apply H. left. reflexivity.
  - intros c' p' f' Hc'. apply H. right. exact Hc'.
Qed.

Lemma save_tree_rootlink t : forall p f, rootlink (save_tree p t f) = rootlink f.
Proof.
  induction t as [k a l IH] using tree_ind'. intros p f. rewrite save_tree_eq, w_link_rootlink.
  rewrite save_kids_rootlink; [apply w_entity_rootlink|].
  rewrite Forall_forall in IH. intros c p' f' Hc. apply IH. exact Hc.
Qed.

Definition rm_frame_ok (t : tree) : Prop :=
  forall p ppgs f y, y <> p -> ~ In y (keys_of t) -> fget y (flat (fst (rm_ws p ppgs t f))) = fget y (flat f).

Lemma rm_list_frame k l y : Forall rm_frame_ok l -> y <> k -> ~ In y (flat_map keys_of l) ->
  forall st, fget y (flat (fst (fst (rm_list k l st)))) = fget y (flat (fst st)).
Proof.
  intros H Hk. induction H as [|c r Hc Hr IHr]; intros Hl st; [reflexivity|].
  simpl in Hl. simpl. destruct st as [f pgs]. pose proof (Hc k pgs f y Hk) as Hc'.
  destruct (rm_ws k pgs c f) as [f' ok]. simpl in Hc'.
  assert (E : fget y (flat f') = fget y (flat f)).
  { apply Hc'. intros Hy. apply Hl. apply in_or_app. left. exact Hy. }
  destruct ok; simpl; [|exact E].
  rewrite IHr; [exact E|]. intros Hy. apply Hl. apply in_or_app. right. exact Hy.
Qed.

Lemma kd_wscrub_frame p k ppgs f y : y <> p -> fget y (flat (kd_wscrub p k ppgs f)) = fget y (flat f).
Proof. intros H. unfold kd_wscrub. destruct (fst k); try reflexivity. apply w_scrub_frame. exact H. Qed.
Lemma kd_wscrub_rootlink p k ppgs f : rootlink (kd_wscrub p k ppgs f) = rootlink f.
Proof. unfold kd_wscrub. destruct (fst k); try reflexivity. apply w_scrub_rootlink. Qed.
Lemma kd_wscrub_nodup p k ppgs f : NoDup (map fst (flat f)) -> NoDup (map fst (flat (kd_wscrub p k ppgs f))).
Proof. intros H. unfold kd_wscrub. destruct (fst k); try exact H. apply w_scrub_nodup. exact H. Qed.

Lemma rm_ws_frame t : rm_frame_ok t.
Proof.
  induction t as [k a l IH] using tree_ind'. intros p ppgs f y Hp Hy. rewrite rm_ws_eq.
  destruct (negb (adel a)); [reflexivity|]. rewrite keys_of_eq in Hy.
  assert (Hk : y <> k) by (intros ->; apply Hy; left; reflexivity).
  assert (Hl : ~ In y (flat_map keys_of l)) by (intros Hl; apply Hy; right; exact Hl).
  pose proof (rm_list_frame k l y IH Hk Hl (f, apgs a)) as E.
  destruct (rm_list k l (f, apgs a)) as [[f1 pgs1] ok]. simpl in E. destruct ok; simpl; [|exact E].
  rewrite fget_fdel_other by exact Hk. rewrite w_unlink_frame by exact Hp. rewrite kd_wscrub_frame by exact Hp. exact E.
Qed.

Definition rm_rootlink_ok (t : tree) : Prop := forall p ppgs f, rootlink (fst (rm_ws p ppgs t f)) = rootlink f.

Lemma rm_list_rootlink k l : Forall rm_rootlink_ok l -> forall st, rootlink (fst (fst (rm_list k l st))) = rootlink (fst st).
Proof.
  intros H. induction H as [|c r Hc Hr IHr]; intros st; [reflexivity|].
  simpl. destruct st as [f pgs]. pose proof (Hc k pgs f) as Hc'. destruct (rm_ws k pgs c f) as [f' ok]. simpl in Hc'.
  destruct ok; simpl; [rewrite IHr; exact Hc' | exact Hc'].
Qed.

Lemma rm_ws_rootlink t : rm_rootlink_ok t.
Proof.
  induction t as [k a l IH] using tree_ind'. intros p ppgs f. rewrite rm_ws_eq.
  destruct (negb (adel a)); [reflexivity|].
  pose proof (rm_list_rootlink k l IH (f, apgs a)) as E. destruct (rm_list k l (f, apgs a)) as [[f1 pgs1] ok]. simpl in E.
  destruct ok; simpl; [|exact E]. rewrite w_unlink_rootlink, kd_wscrub_rootlink. exact E.
Qed.

(* copies *)
Lemma put_all_frame k pgs y : y <> k -> forall f, fget y (flat (put_all k pgs f)) = fget y (flat f).
Proof.
  intros H. induction pgs as [|g r IH]; intros f; [reflexivity|].
  unfold put_all in *. simpl. rewrite IH. apply w_pg_put_frame. exact H.
Qed.
Lemma put_all_rootlink k pgs : forall f, rootlink (put_all k pgs f) = rootlink f.
Proof.
  induction pgs as [|g r IH]; intros f; [reflexivity|]. unfold put_all in *. simpl. rewrite IH. apply w_pg_put_rootlink.
Qed.
Lemma put_all_nodup k pgs : forall f, NoDup (map fst (flat f)) -> NoDup (map fst (flat (put_all k pgs f))).
Proof.
  induction pgs as [|g r IH]; intros f H; [exact H|]. unfold put_all in *. simpl. apply IH. apply w_pg_put_nodup. exact H.
Qed.

Definition copy_frame_ok (t : tree) : Prop :=
  forall p f y, y <> p -> ~ In y (keys_of t) -> fget y (flat (save_copy p t f)) = fget y (flat f).

Lemma copy_kids_frame k l y : Forall copy_frame_ok l -> y <> k -> ~ In y (flat_map keys_of l) ->
  forall f, fget y (flat (copy_kids k l f)) = fget y (flat f).
Proof.
  intros H Hk. induction H as [|c r Hc Hr IHr]; intros Hl f; [reflexivity|].
  simpl in Hl. unfold copy_kids in *. simpl. rewrite IHr.
  - apply Hc; [exact Hk | intros Hy; apply Hl; apply in_or_app; left; exact Hy].
  - intros Hy. apply Hl. apply in_or_app. right. exact Hy.
Qed.

Lemma save_copy_frame t : copy_frame_ok t.
Proof.
  induction t as [k a l IH] using tree_ind'. intros p f y Hp Hy. rewrite save_copy_eq. rewrite keys_of_eq in Hy.
  assert (Hk : y <> k) by (intros ->; apply Hy; left; reflexivity).
  rewrite put_all_frame by exact Hk.
  rewrite copy_kids_frame; [| exact IH | exact Hk | intros Hl; apply Hy; right; exact Hl].
  rewrite w_link_frame by exact Hp. apply w_entity_frame. exact Hk.
Qed.

Lemma copy_kids_rootlink k l : (forall c p f, In c l -> rootlink (save_copy p c f) = rootlink f) ->
  forall f, rootlink (copy_kids k l f) = rootlink f.
Proof.
  induction l as [|c r IH]; intros H f; [reflexivity|].
  unfold copy_kids in *. simpl. rewrite IH.
  - apply H. left. reflexivity.
  - intros c' p' f' Hc'. apply H. right. exact Hc'.
Qed.

Lemma save_copy_rootlink t : forall p f, rootlink (save_copy p t f) = rootlink f.
Proof.
  induction t as [k a l IH] using tree_ind'. intros p f. rewrite save_copy_eq, put_all_rootlink.
  rewrite copy_kids_rootlink; [rewrite w_link_rootlink; apply w_entity_rootlink|].
  rewrite Forall_forall in IH. intros c p' f' Hc. apply IH. exact Hc.
Qed.

(* the file written by close *)
Definition sweep_file (w : ws) (k : kind) : file :=
  del_all (filter (fun x => kind_eqb (fst x) k) (wpend w)) (wfile w).

Lemma do_sweep_file w k : wfile (do_sweep w k) = sweep_file w k.
Proof. reflexivity. Qed.

Lemma close_file_file w :
  wfile (close_file w) = save_kids (tkey (wmem w)) (tkids (wmem w)) (w_entity (tkey (wmem w)) (tattrs (wmem w)) (sweep_file w KG)).
Proof. unfold close_file. simpl. destruct (wmem w) as [k a l]. reflexivity. Qed.

Lemma close_file_mem w : wmem (close_file w) = wmem w.
Proof. unfold close_file. simpl. destruct (wmem w) as [k a l]. reflexivity. Qed.

Lemma close_file_pend w : wpend (close_file w) = filter (fun x => negb (kind_eqb (fst x) KG)) (wpend w).
Proof. unfold close_file. simpl. destruct (wmem w) as [k a l]. reflexivity. Qed.

Lemma reopen_file w : wfile (fst (do_reopen w)) = wfile (close_file w).
Proof.
  unfold do_reopen. destruct (rootlink (wfile (close_file w))) as [[r ad]|]; [|reflexivity].
  destruct (load _ _ _ r) as [[t sn]|]; reflexivity.
Qed.

Lemma close_file_frame w y :
  ~ In y (filter (fun x => kind_eqb (fst x) KG) (wpend w) ++ keys_of (wmem w)) ->
  fget y (flat (wfile (close_file w))) = fget y (flat (wfile w)).
Proof.
  intros H. rewrite close_file_file. destruct (wmem w) as [k a l]. simpl.
  assert (Hk : y <> k) by (intros ->; apply H; apply in_or_app; right; left; reflexivity).
  rewrite save_kids_frame'; [|exact Hk | intros Hl; apply H; apply in_or_app; right; right; exact Hl].
  rewrite w_entity_frame by exact Hk. unfold sweep_file. apply del_all_frame.
  intros Hd. apply H. apply in_or_app. left. exact Hd.
Qed.

Lemma close_file_rootlink w : rootlink (wfile (close_file w)) = rootlink (wfile w).
Proof.
  rewrite close_file_file. rewrite save_kids_rootlink by (intros; apply save_tree_rootlink).
  rewrite w_entity_rootlink. unfold sweep_file. apply del_all_rootlink.
Qed.

Theorem step_frame : forall w o x, ~ In x (footprint w o) ->
  fget x (flat (wfile (fst (step w o)))) = fget x (flat (wfile w)).
Proof.
  intros w o x Hx.
  destruct o as [k u p nm ar | e n | e b | e v | e q | e | e | k | | o g nm ms | o g | e q ids]; unfold step.
  - (* Create *) simpl in Hx. unfold do_create. destruct (find p (wmem w)); [|reflexivity].
    destruct (negb (can_hold (fst p) k) || mem_key (k, u) (keys_of (wmem w))); [reflexivity|]. simpl.
    rewrite w_link_frame by (intros ->; apply Hx; right; left; reflexivity).
    apply w_entity_frame. intros ->. apply Hx. left. reflexivity.
  - simpl in Hx. unfold do_set. destruct (find e (wmem w)); [|reflexivity].
    destruct (key_eqb e rootkey); [reflexivity|]. simpl.
    apply w_scalars_frame. intros ->. apply Hx. left. reflexivity.
  - simpl in Hx. unfold do_set. destruct (find e (wmem w)); [|reflexivity].
    destruct (key_eqb e rootkey); [reflexivity|]. simpl.
    apply w_scalars_frame. intros ->. apply Hx. left. reflexivity.
  - simpl in Hx. unfold do_set. destruct (find e (wmem w)); [|reflexivity].
    destruct (key_eqb e rootkey); [reflexivity|]. simpl.
    apply w_array_frame. intros ->. apply Hx. left. reflexivity.
  - (* Move *) unfold footprint, parent_list, subtree_keys in Hx. unfold do_move.
    destruct (find e (wmem w)) as [te|]; [|reflexivity].
    destruct (find q (wmem w)); [|reflexivity].
    destruct (parent_of e (wmem w)) as [p|]; [|reflexivity].
    destruct (negb (can_hold (fst q) (fst e)) || mem_key q (keys_of te) || key_eqb p q); [reflexivity|]. simpl.
    rewrite save_tree_frame.
    + apply w_unlink_frame. intros ->. apply Hx. left. reflexivity.
    + intros ->. apply Hx. right. left. reflexivity.
    + intros Hk. apply Hx. right. right. exact Hk.
  - (* RemoveWs *) destruct (key_eqb e rootkey); [reflexivity|].
    unfold footprint, parent_list, subtree_keys in Hx. unfold do_remove_ws.
    destruct (find e (wmem w)) as [te|]; [|reflexivity].
    destruct (parent_of e (wmem w)) as [p|]; [|reflexivity].
    match goal with |- context [rm_ws p ?pp te (wfile w)] => set (ppgs := pp) end.
    pose proof (rm_ws_frame te p ppgs (wfile w) x) as E.
    destruct (rm_ws p ppgs te (wfile w)) as [f' ok]. destruct (rm_ws_done te) as [gone b]. simpl in *.
    apply E; [intros ->; apply Hx; left; reflexivity | intros Hk; apply Hx; right; exact Hk].
  - (* RemoveParent *) destruct (key_eqb e rootkey); [reflexivity|].
    unfold footprint, parent_list in Hx. unfold do_remove_parent.
    destruct (find e (wmem w)) as [te|]; [|reflexivity].
    destruct (parent_of e (wmem w)) as [p|]; [|reflexivity]. simpl.
    assert (Hp : x <> p) by (intros ->; apply Hx; left; reflexivity).
    rewrite w_unlink_frame by exact Hp. destruct (fst e); try reflexivity. apply w_scrub_frame. exact Hp.
  - (* Sweep *) simpl. apply del_all_frame. exact Hx.
  - (* Reopen *) rewrite reopen_file. apply close_file_frame. exact Hx.
  - (* PgAdd *) simpl in Hx. unfold do_pg_add. destruct (find o (wmem w)) as [t|]; [|reflexivity].
    destruct (negb (kind_eqb (fst o) KO)); [reflexivity|].
    destruct (filter (fun m => kind_eqb (fst m) KD && mem_key m (kid_keys t)) ms); [reflexivity|]. simpl.
    apply w_pg_put_frame. intros ->. apply Hx. left. reflexivity.
  - (* PgRemove *) simpl in Hx. unfold do_pg_remove. destruct (find o (wmem w)) as [t|]; [|reflexivity].
    destruct (existsb (fun h => N.eqb (pg_id h) g) (apgs (tattrs t))); [|reflexivity]. simpl.
    apply w_pg_del_frame. intros ->. apply Hx. left. reflexivity.
  - (* Copy *) unfold footprint in Hx. unfold do_copy.
    destruct (find e (wmem w)) as [te|]; [|reflexivity].
    destruct (find q (wmem w)); [|reflexivity].
    destruct (negb (can_hold (fst q) (fst e)) || mem_key q (keys_of te) || key_eqb e rootkey); [reflexivity|].
    destruct (copy_sub te ids) as [[t' [|i r]]|]; try reflexivity.
    destruct (existsb (fun k => mem_key k (keys_of (wmem w))) (keys_of t')); [reflexivity|]. simpl.
    apply save_copy_frame; [intros ->; apply Hx; left; reflexivity | intros Hk; apply Hx; right; exact Hk].
Qed.

Theorem step_rootlink : forall w o, rootlink (wfile (fst (step w o))) = rootlink (wfile w).
Proof.
  intros w o.
  destruct o as [k u p nm ar | e n | e b | e v | e q | e | e | k | | o g nm ms | o g | e q ids]; unfold step.
  - unfold do_create. destruct (find p (wmem w)); [|reflexivity].
    destruct (negb (can_hold (fst p) k) || mem_key (k, u) (keys_of (wmem w))); [reflexivity|]. simpl.
    rewrite w_link_rootlink. apply w_entity_rootlink.
  - unfold do_set. destruct (find e (wmem w)); [|reflexivity].
    destruct (key_eqb e rootkey); [reflexivity|]. simpl. apply w_scalars_rootlink.
  - unfold do_set. destruct (find e (wmem w)); [|reflexivity].
    destruct (key_eqb e rootkey); [reflexivity|]. simpl. apply w_scalars_rootlink.
  - unfold do_set. destruct (find e (wmem w)); [|reflexivity].
    destruct (key_eqb e rootkey); [reflexivity|]. simpl. apply w_array_rootlink.
  - unfold do_move.
    destruct (find e (wmem w)) as [te|]; [|reflexivity].
    destruct (find q (wmem w)); [|reflexivity].
    destruct (parent_of e (wmem w)) as [p|]; [|reflexivity].
    destruct (negb (can_hold (fst q) (fst e)) || mem_key q (keys_of te) || key_eqb p q); [reflexivity|]. simpl.
    rewrite save_tree_rootlink. apply w_unlink_rootlink.
  - destruct (key_eqb e rootkey); [reflexivity|]. unfold do_remove_ws.
    destruct (find e (wmem w)) as [te|]; [|reflexivity].
    destruct (parent_of e (wmem w)) as [p|]; [|reflexivity].
    match goal with |- context [rm_ws p ?pp te (wfile w)] => set (ppgs := pp) end.
    pose proof (rm_ws_rootlink te p ppgs (wfile w)) as E.
    destruct (rm_ws p ppgs te (wfile w)) as [f' ok]. destruct (rm_ws_done te) as [gone b]. exact E.
  - destruct (key_eqb e rootkey); [reflexivity|]. unfold do_remove_parent.
    destruct (find e (wmem w)) as [te|]; [|reflexivity].
    destruct (parent_of e (wmem w)) as [p|]; [|reflexivity]. simpl. rewrite w_unlink_rootlink.
    destruct (fst e); try reflexivity. apply w_scrub_rootlink.
  - simpl. apply del_all_rootlink.
  - rewrite reopen_file. apply close_file_rootlink.
  - unfold do_pg_add. destruct (find o (wmem w)) as [t|]; [|reflexivity].
    destruct (negb (kind_eqb (fst o) KO)); [reflexivity|].
    destruct (filter (fun m => kind_eqb (fst m) KD && mem_key m (kid_keys t)) ms); [reflexivity|]. simpl.
    apply w_pg_put_rootlink.
  - unfold do_pg_remove. destruct (find o (wmem w)) as [t|]; [|reflexivity].
    destruct (existsb (fun h => N.eqb (pg_id h) g) (apgs (tattrs t))); [|reflexivity]. simpl. apply w_pg_del_rootlink.
  - unfold do_copy.
    destruct (find e (wmem w)) as [te|]; [|reflexivity].
    destruct (find q (wmem w)); [|reflexivity].
    destruct (negb (can_hold (fst q) (fst e)) || mem_key q (keys_of te) || key_eqb e rootkey); [reflexivity|].
    destruct (copy_sub te ids) as [[t' [|i r]]|]; try reflexivity.
    destruct (existsb (fun k => mem_key k (keys_of (wmem w))) (keys_of t')); [reflexivity|]. simpl.
    apply save_copy_rootlink.
Qed.

(* ======================================================================================================== *)
(* Rep toolkit                                                                                               *)
(* ======================================================================================================== *)

Definition addr_pres (m m' : flatmap) (c : key) : Prop :=
  forall cn, fget c m = Some cn -> exists cn', fget c m' = Some cn' /\ faddr cn' = faddr cn.

Lemma addr_pres_same m m' c : fget c m' = fget c m -> addr_pres m m' c.
Proof. intros E cn H. exists cn. rewrite E. auto. Qed.

Lemma node_matches_frame m m' r : node_matches m r -> fget (rkey r) m' = fget (rkey r) m ->
  (forall c, In c (rkids r) -> addr_pres m m' c) -> node_matches m' r.
Proof.
  intros [n [Hg [Ha [Hnd [Hk Hl]]]]] E Hp. exists n. split; [rewrite E; exact Hg|].
  split; [exact Ha|]. split; [exact Hnd|]. split; [exact Hk|].
  intros c ad Hin. destruct (Hl c ad Hin) as [cn [Hc Had]].
  assert (Hc' : In c (rkids r)).
  { apply Hk. apply in_map_iff. exists (c, ad). split; [reflexivity | exact Hin]. }
  destruct (Hp c Hc' cn Hc) as [cn' [Hc2 Had2]]. exists cn'. split; [exact Hc2 | congruence].
Qed.

Lemma node_matches_same m m' r : node_matches m r -> fget (rkey r) m' = fget (rkey r) m ->
  (forall c, In c (rkids r) -> fget c m' = fget c m) -> node_matches m' r.
Proof.
  intros H E Hk. eapply node_matches_frame; [exact H | exact E |].
  intros c Hc. apply addr_pres_same. apply Hk. exact Hc.
Qed.

Lemma in_keys_hole p a l1 te l2 x :
  In x (keys_of (Node p a (l1 ++ te :: l2))) <->
  p = x \/ In x (flat_map keys_of l1) \/ In x (keys_of te) \/ In x (flat_map keys_of l2).
Proof. rewrite keys_of_eq, flat_map_app. simpl. rewrite !in_app_iff. tauto. Qed.

Lemma in_keys_nohole p a l1 l2 x :
  In x (keys_of (Node p a (l1 ++ l2))) <-> p = x \/ In x (flat_map keys_of l1) \/ In x (flat_map keys_of l2).
Proof. rewrite keys_of_eq, flat_map_app. simpl. rewrite !in_app_iff. tauto. Qed.

Lemma in_rows_hole p a l1 te l2 r :
  In r (rows (Node p a (l1 ++ te :: l2))) <->
  (p, a, map tkey (l1 ++ te :: l2)) = r \/ In r (flat_map rows l1) \/ In r (rows te) \/ In r (flat_map rows l2).
Proof. rewrite rows_eq, flat_map_app. simpl. rewrite !in_app_iff. tauto. Qed.

Lemma in_rows_nohole p a l1 l2 r :
  In r (rows (Node p a (l1 ++ l2))) <->
  (p, a, map tkey (l1 ++ l2)) = r \/ In r (flat_map rows l1) \/ In r (flat_map rows l2).
Proof. rewrite rows_eq, flat_map_app. simpl. rewrite !in_app_iff. tauto. Qed.

Lemma nodup_hole_remove p a l1 te l2 :
  NoDup (keys_of (Node p a (l1 ++ te :: l2))) -> NoDup (keys_of (Node p a (l1 ++ l2))).
Proof.
  rewrite !keys_of_eq, !flat_map_app. simpl. intros H. inversion H as [|? ? Hn Hr]; subst.
  apply nodup_app_iff in Hr. destruct Hr as [H1 [H2 H3]].
  apply nodup_app_iff in H2. destruct H2 as [H4 [H5 H6]].
  constructor.
  - intros Hin. apply Hn. apply in_app_or in Hin. apply in_or_app.
    destruct Hin as [Hin|Hin]; [left; exact Hin | right; apply in_or_app; right; exact Hin].
  - apply nodup_app_iff. repeat split; [exact H1 | exact H5 |].
    intros x Hx Hx2. apply (H3 x Hx). apply in_or_app. right. exact Hx2.
Qed.

(* replacing the subtree at a hole by one with the same root identifier *)
Lemma rep_replace C s s' f f' P P' :
  Rep (plug C s) f P ->
  tkey s' = tkey s ->
  NoDup (keys_of s') ->
  (forall x, In x (keys_of s') -> ~ In x (ctx_keys C)) ->
  NoDup (map fst (flat f')) ->
  (forall r, In r (rows s') -> node_matches (flat f') r) ->
  (forall x, In x (ctx_keys C) -> fget x (flat f') = fget x (flat f)) ->
  addr_pres (flat f) (flat f') (tkey s) ->
  (forall k n, fget k (flat f') = Some n -> In k (keys_of s') \/ In k (ctx_keys C) \/ In k P') ->
  (forall k, In k P' -> ~ In k (keys_of s') /\ ~ In k (ctx_keys C)) ->
  rootlink f' = rootlink f ->
  (forall r, In r (rows s') -> pgs_ok r) ->
  Rep (plug C s') f' P'.
Proof.
  intros R Hk Hnd Hdis Hfnd Hrows Hctx Hap Honly Hpend Hrl Hpgs.
  destruct R as [Rroot Rnd Rfnd Rrows Ronly Rpend Rrl Rpgs].
  constructor.
  - rewrite <- Rroot. apply tkey_plug. exact Hk.
  - apply keys_plug_nodup. apply keys_plug_nodup in Rnd. destruct Rnd as [_ [Hc _]]. repeat split; assumption.
  - exact Hfnd.
  - intros r Hr. apply rows_plug_in in Hr. destruct Hr as [Hr|Hr]; [apply Hrows; exact Hr|].
    rewrite Hk in Hr. apply node_matches_frame with (m := flat f).
    + apply Rrows. apply rows_plug_in. right. exact Hr.
    + apply Hctx. eapply ctx_rows_key. exact Hr.
    + intros c Hc. destruct (ctx_rows_kids _ _ _ _ Hr Hc) as [->|Hin];
        [exact Hap | apply addr_pres_same; apply Hctx; exact Hin].
  - intros k n Hg. rewrite keys_plug_in. destruct (Honly k n Hg) as [H|[H|H]]; auto.
  - intros k Hin. rewrite keys_plug_in. destruct (Hpend k Hin). tauto.
  - destruct Rrl as [n [Hg Hl]].
    assert (Hr : addr_pres (flat f) (flat f') rootkey).
    { rewrite <- Rroot. destruct (tkey_plug_in C s) as [E|Hin];
        [rewrite <- E; exact Hap | apply addr_pres_same; apply Hctx; exact Hin]. }
    destruct (Hr n Hg) as [n' [Hg' Ha']]. exists n'. split; [exact Hg'|]. rewrite Hrl, Hl, Ha'. reflexivity.
  - intros r Hr. apply rows_plug_in in Hr. destruct Hr as [Hr|Hr]; [apply Hpgs; exact Hr|].
    rewrite Hk in Hr. apply Rpgs. apply rows_plug_in. right. exact Hr.
Qed.

Lemma rep_pend_change t f P P' : Rep t f P ->
  (forall k, In k P' -> In k P) ->
  (forall k n, fget k (flat f) = Some n -> In k P -> In k P') ->
  Rep t f P'.
Proof.
  intros [Rroot Rnd Rfnd Rrows Ronly Rpend Rrl Rpgs] H1 H2. constructor; try assumption.
  - intros k n Hg. destruct (Ronly k n Hg) as [H|H]; [left; exact H | right; eapply H2; eassumption].
  - intros k Hk. apply Rpend. apply H1. exact Hk.
Qed.

Lemma rep_pend_equiv t f P P' : Rep t f P -> (forall k, In k P <-> In k P') -> Rep t f P'.
Proof.
  intros R H. eapply rep_pend_change; [exact R | intros k; apply H | intros k n _; apply H].
Qed.

(* facts every Rep gives about the subtree at a hole *)
Lemma rep_hole_facts C s f P : Rep (plug C s) f P ->
  NoDup (keys_of s) /\
  (forall x, In x (keys_of s) -> ~ In x (ctx_keys C)) /\
  (forall r, In r (rows s) -> node_matches (flat f) r) /\
  (forall k, In k P -> ~ In k (keys_of s) /\ ~ In k (ctx_keys C)) /\
  (forall r, In r (rows s) -> pgs_ok r).
Proof.
  intros [Rroot Rnd Rfnd Rrows Ronly Rpend Rrl Rpgs]. apply keys_plug_nodup in Rnd. destruct Rnd as [H1 [H2 H3]].
  split; [exact H1|]. split; [exact H3|]. split; [intros r Hr; apply Rrows; apply rows_plug_in; left; exact Hr|].
  split; [|intros r Hr; apply Rpgs; apply rows_plug_in; left; exact Hr].
  intros k H. split; intros Hk; apply (Rpend k H); apply keys_plug_in; [left|right]; exact Hk.
Qed.

(* ---- attribute update ---- *)
Lemma rep_attrs C x a l a' f f' P n n' :
  Rep (plug C (Node x a l)) f P ->
  fget x (flat f) = Some n ->
  fget x (flat f') = Some n' -> attrs_equiv (fattrs n') a' -> faddr n' = faddr n -> flinks n' = flinks n ->
  (forall y, y <> x -> fget y (flat f') = fget y (flat f)) ->
  NoDup (map fst (flat f')) -> rootlink f' = rootlink f ->
  pgs_ok (x, a', map tkey l) ->
  Rep (plug C (Node x a' l)) f' P.
Proof.
  intros R Hn Hn' Ha' Had Hli Hfr Hfnd Hrl Hpg.
  destruct (rep_hole_facts _ _ _ _ R) as [Hnd [Hdis [Hrows [Hpend Hpgs]]]].
  assert (Hxl : ~ In x (flat_map keys_of l)) by (rewrite keys_of_eq in Hnd; inversion Hnd; assumption).
  apply rep_replace with (s := Node x a l) (f := f) (P := P); try assumption.
  - reflexivity.
  - intros r Hr. rewrite rows_eq in Hr. destruct Hr as [<-|Hr].
    + destruct (Hrows (x, a, map tkey l)) as [n0 [Hg0 [Ha0 [Hnd0 [Hk0 Hl0]]]]]; [rewrite rows_eq; left; reflexivity|].
      unfold rkey, rattrs, rkids in *. simpl in *. rewrite Hn in Hg0. inversion Hg0; subst n0.
      exists n'. unfold rkey, rattrs, rkids. simpl. rewrite Hli.
      split; [exact Hn'|]. split; [exact Ha'|]. split; [exact Hnd0|]. split; [exact Hk0|].
      { intros c ad Hin. destruct (Hl0 c ad Hin) as [cn [Hc Hcad]]. exists cn. split; [|exact Hcad].
        rewrite Hfr; [exact Hc|]. intros ->. apply Hxl. apply tkeys_sub. apply Hk0.
        apply in_map_iff. exists (x, ad). split; [reflexivity | exact Hin]. }
    + apply node_matches_same with (m := flat f).
      * apply Hrows. rewrite rows_eq. right. exact Hr.
      * apply Hfr. intros E. apply Hxl. rewrite <- E. apply rows_list_keys. exact Hr.
      * intros c Hc. apply Hfr. intros ->. apply Hxl. eapply rows_list_kids; eassumption.
  - intros y Hy. apply Hfr. intros ->. apply (Hdis x); [left; reflexivity | exact Hy].
  - intros cn Hc. simpl in Hc. rewrite Hn in Hc. inversion Hc; subst cn. exists n'. split; assumption.
  - intros k n0 Hg. destruct (key_dec k x) as [->|Hne]; [left; left; reflexivity|].
    rewrite Hfr in Hg by exact Hne. destruct (rep_only _ _ _ R k n0 Hg) as [H|H]; [|right; right; exact H].
    apply keys_plug_in in H. destruct H as [H|H]; [left; exact H | right; left; exact H].
  - intros r Hr. rewrite rows_eq in Hr. destruct Hr as [<-|Hr]; [exact Hpg | apply Hpgs; rewrite rows_eq; right; exact Hr].
Qed.

(* ---- detaching a child subtree (removal through the parent) ---- *)
Lemma rep_detach C p a l1 te l2 f P :
  Rep (plug C (Node p a (l1 ++ te :: l2))) f P ->
  (forall g, In g (apgs a) -> ~ In (tkey te) (pg_members g)) ->
  Rep (plug C (Node p a (l1 ++ l2))) (w_unlink p (tkey te) f) (P ++ keys_of te).
Proof.
  intros R Hnm. destruct (rep_hole_facts _ _ _ _ R) as [Hnd [Hdis [Hrows [Hpend Hpgs]]]].
  assert (Hpg0 : pgs_ok (p, a, map tkey (l1 ++ te :: l2))) by (apply Hpgs; rewrite rows_eq; left; reflexivity).
  assert (Hpgl : forall r, In r (flat_map rows (l1 ++ te :: l2)) -> pgs_ok r)
    by (intros r Hr; apply Hpgs; rewrite rows_eq; right; exact Hr).
  clear Hpgs.
  pose proof (nodup_hole _ _ _ _ _ Hnd) as [Hte [Hpte Hd]].
  pose proof (nodup_hole_remove _ _ _ _ _ Hnd) as Hnd'.
  assert (Hsub : forall x, In x (keys_of (Node p a (l1 ++ l2))) -> In x (keys_of (Node p a (l1 ++ te :: l2)))).
  { intros x. rewrite in_keys_hole, in_keys_nohole. tauto. }
  assert (Hp1 : ~ In p (flat_map keys_of (l1 ++ l2))) by (rewrite keys_of_eq in Hnd'; inversion Hnd'; assumption).
  assert (Hp0 : ~ In p (flat_map keys_of (l1 ++ te :: l2))) by (rewrite keys_of_eq in Hnd; inversion Hnd; assumption).
  destruct (Hrows (p, a, map tkey (l1 ++ te :: l2))) as [pn [Hg [Ha [Hlnd [Hk Hl]]]]]; [rewrite rows_eq; left; reflexivity|].
  unfold rkey, rattrs, rkids in *. simpl in *.
  pose proof (w_unlink_same p (tkey te) f pn Hg) as Hg'.
  assert (Hfr : forall y, y <> p -> fget y (flat (w_unlink p (tkey te) f)) = fget y (flat f)).
  { intros y Hy. apply w_unlink_frame. exact Hy. }
  apply rep_replace with (s := Node p a (l1 ++ te :: l2)) (f := f) (P := P).
  - exact R.
  - reflexivity.
  - exact Hnd'.
  - intros x Hx. apply Hdis. apply Hsub. exact Hx.
  - apply w_unlink_nodup. exact (rep_flatnd _ _ _ R).
  - intros r Hr. rewrite rows_eq in Hr. destruct Hr as [<-|Hr].
    + eexists. unfold rkey, rattrs, rkids. simpl. split; [exact Hg'|]. simpl.
      split; [exact Ha|]. split; [apply ldel_keys_NoDup; exact Hlnd|]. split.
      * intros c. rewrite (ldel_keys_In (tkey te) (flinks pn) c Hlnd). rewrite Hk.
        rewrite !map_app. simpl. rewrite !in_app_iff. simpl.
        assert (H1 : In c (map tkey l1) -> c <> tkey te).
        { intros Hc ->. apply (proj1 (Hd (tkey te) (tkey_in_keys te))). apply tkeys_sub. exact Hc. }
        assert (H2 : In c (map tkey l2) -> c <> tkey te).
        { intros Hc ->. apply (proj2 (Hd (tkey te) (tkey_in_keys te))). apply tkeys_sub. exact Hc. }
        split; [intros [Hne [H|[H|H]]]; [left; exact H | congruence | right; exact H]
               | intros [H|H]; [split; [apply H1; exact H | left; exact H] | split; [apply H2; exact H | right; right; exact H]]].
      * intros c ad Hin. apply ldel_In in Hin. destruct (Hl c ad Hin) as [cn [Hc Hcad]]. exists cn. split; [|exact Hcad].
        rewrite Hfr; [exact Hc|]. intros ->. apply Hp0. apply tkeys_sub. apply Hk.
        apply in_map_iff. exists (p, ad). split; [reflexivity | exact Hin].
    + assert (Hr0 : In r (flat_map rows (l1 ++ te :: l2))).
      { rewrite flat_map_app in *. simpl. apply in_app_or in Hr. apply in_or_app.
        destruct Hr as [Hr|Hr]; [left; exact Hr | right; apply in_or_app; right; exact Hr]. }
      apply node_matches_same with (m := flat f).
      * apply Hrows. right. exact Hr0.
      * apply Hfr. intros E. apply Hp0. rewrite <- E. apply rows_list_keys. exact Hr0.
      * intros c Hc. apply Hfr. intros ->. apply Hp0. eapply rows_list_kids; eassumption.
  - intros y Hy. apply Hfr. intros ->. apply (Hdis p); [left; reflexivity | exact Hy].
  - intros cn Hc. simpl in Hc. rewrite Hg in Hc. inversion Hc; subst cn. eexists. split; [exact Hg' | reflexivity].
  - intros k n0 Hk0. destruct (key_dec k p) as [->|Hne]; [left; left; reflexivity|].
    rewrite Hfr in Hk0 by exact Hne. destruct (rep_only _ _ _ R k n0 Hk0) as [H|H].
    + apply keys_plug_in in H. destruct H as [H|H]; [|right; left; exact H].
      apply in_keys_hole in H. rewrite in_keys_nohole, in_app_iff. tauto.
    + right. right. apply in_or_app. left. exact H.
  - intros k Hk0. apply in_app_or in Hk0. destruct Hk0 as [Hk0|Hk0].
    + destruct (Hpend k Hk0) as [H1 H2]. split; [intros H; apply H1; apply Hsub; exact H | exact H2].
    + split.
      * rewrite in_keys_nohole. intros [<-|[H|H]]; [exact (Hpte Hk0) | exact (proj1 (Hd k Hk0) H) | exact (proj2 (Hd k Hk0) H)].
      * apply Hdis. apply (in_keys_hole p a l1 te l2 k). right. right. left. exact Hk0.
  - apply w_unlink_rootlink.
  - intros r Hr. rewrite rows_eq in Hr. destruct Hr as [<-|Hr].
    + destruct Hpg0 as [G1 [G2 G3]]. split; [exact G1|]. split; [exact G2|].
      intros g m Hgg Hmm. destruct (G3 g m Hgg Hmm) as [Hin Hkd]. split; [|exact Hkd].
      unfold rkids in Hin. unfold rkids. simpl in Hin. simpl. rewrite map_app in Hin. rewrite map_app. simpl in Hin.
      apply in_app_or in Hin. apply in_or_app.
      destruct Hin as [Hin|[Hin|Hin]]; [left; exact Hin | exfalso; apply (Hnm g Hgg); rewrite Hin; exact Hmm | right; exact Hin].
    + apply Hpgl. rewrite flat_map_app in *. simpl. apply in_app_or in Hr. apply in_or_app.
      destruct Hr as [Hr|Hr]; [left; exact Hr | right; apply in_or_app; right; exact Hr].
Qed.

(* ---- attaching an orphan subtree under an entity of the tree (creation, second half of a move) ---- *)
Lemma rep_attach C q a l te f P0 P' :
  Rep (plug C (Node q a l)) f P0 ->
  NoDup (keys_of te) ->
  (forall r, In r (rows te) -> node_matches (flat f) r) ->
  (forall r, In r (rows te) -> pgs_ok r) ->
  (forall k, In k (keys_of te) -> In k P0) ->
  (forall k, In k P0 -> In k P' \/ In k (keys_of te)) ->
  (forall k, In k P' -> In k P0 /\ ~ In k (keys_of te)) ->
  Rep (plug C (Node q a (l ++ [te]))) (w_link q (tkey te) f) P'.
Proof.
  intros R Hte Hrte Hpte Hsub Hcov Hnew.
  destruct (rep_hole_facts _ _ _ _ R) as [Hnd [Hdis [Hrows [Hpend Hpgs]]]].
  assert (Hql : ~ In q (flat_map keys_of l)) by (rewrite keys_of_eq in Hnd; inversion Hnd; assumption).
  assert (Hfresh : forall k, In k (keys_of te) -> ~ In k (keys_of (Node q a l)) /\ ~ In k (ctx_keys C)).
  { intros k Hk. apply Hpend. apply Hsub. exact Hk. }
  destruct (Hrows (q, a, map tkey l)) as [qn [Hg [Ha [Hlnd [Hk Hl]]]]]; [rewrite rows_eq; left; reflexivity|].
  unfold rkey, rattrs, rkids in Hg, Ha, Hlnd, Hk, Hl. simpl in Hg, Ha, Hlnd, Hk, Hl.
  destruct (Hrte (tkey te, tattrs te, map tkey (tkids te))) as [en [Hge _]].
  { destruct te as [k' a' l']. rewrite rows_eq. left. reflexivity. }
  unfold rkey in Hge. simpl in Hge.
  assert (Heq : tkey te <> q).
  { intros E. apply (proj1 (Hfresh (tkey te) (tkey_in_keys te))). rewrite E. left. reflexivity. }
  assert (Hlg : lget (tkey te) (flinks qn) = None).
  { apply lget_None_notin. intros Hin. apply Hk in Hin.
    apply (proj1 (Hfresh (tkey te) (tkey_in_keys te))). right. apply tkeys_sub. exact Hin. }
  pose proof (w_link_new q (tkey te) f qn en Hg Hge Hlg) as Hg'.
  assert (Hfr : forall y, y <> q -> fget y (flat (w_link q (tkey te) f)) = fget y (flat f)).
  { intros y Hy. apply w_link_frame. exact Hy. }
  apply rep_replace with (s := Node q a l) (f := f) (P := P0).
  - exact R.
  - reflexivity.
  - rewrite keys_of_eq, flat_map_app. simpl. rewrite app_nil_r. constructor.
    + intros Hin. apply in_app_or in Hin. destruct Hin as [Hin|Hin]; [exact (Hql Hin)|].
      apply (proj1 (Hfresh q Hin)). left. reflexivity.
    + apply nodup_app_iff. repeat split.
      * rewrite keys_of_eq in Hnd. inversion Hnd; assumption.
      * exact Hte.
      * intros x Hx Hx2. apply (proj1 (Hfresh x Hx2)). right. exact Hx.
  - intros x Hx. rewrite keys_of_eq, flat_map_app in Hx. simpl in Hx. rewrite app_nil_r in Hx.
    destruct Hx as [<-|Hx]; [apply Hdis; left; reflexivity|].
    apply in_app_or in Hx. destruct Hx as [Hx|Hx]; [apply Hdis; right; exact Hx | apply Hfresh; exact Hx].
  - apply w_link_nodup. exact (rep_flatnd _ _ _ R).
  - intros r Hr. rewrite rows_eq, flat_map_app in Hr. simpl in Hr. rewrite app_nil_r in Hr.
    destruct Hr as [<-|Hr].
    + eexists. unfold rkey, rattrs, rkids. simpl. split; [exact Hg'|]. simpl.
      split; [exact Ha|]. rewrite map_app. simpl. split.
      { apply nodup_app_iff. repeat split; [exact Hlnd | constructor; [intros [] | constructor] |].
        intros x Hx [<-|[]]. apply lget_None_notin in Hlg. exact (Hlg Hx). }
      split.
      * intros c. rewrite map_app, !in_app_iff. simpl. rewrite Hk. tauto.
      * intros c ad Hin. apply in_app_or in Hin. destruct Hin as [Hin|[Hin|[]]].
        -- destruct (Hl c ad Hin) as [cn [Hc Hcad]]. exists cn. split; [|exact Hcad].
           rewrite Hfr; [exact Hc|]. intros ->. apply Hql. apply tkeys_sub. apply Hk.
           apply in_map_iff. exists (q, ad). split; [reflexivity | exact Hin].
        -- inversion Hin; subst. exists en. split; [|reflexivity]. rewrite Hfr by exact Heq. exact Hge.
    + apply in_app_or in Hr. destruct Hr as [Hr|Hr].
      * apply node_matches_same with (m := flat f).
        -- apply Hrows. rewrite rows_eq. right. exact Hr.
        -- apply Hfr. intros E. apply Hql. rewrite <- E. apply rows_list_keys. exact Hr.
        -- intros c Hc. apply Hfr. intros ->. apply Hql. eapply rows_list_kids; eassumption.
      * apply node_matches_same with (m := flat f).
        -- apply Hrte. exact Hr.
        -- apply Hfr. intros E.
           assert (Hq : In q (keys_of te)) by (rewrite <- E; apply rows_keys; exact Hr).
           apply (proj1 (Hfresh q Hq)). left. reflexivity.
        -- intros c Hc. apply Hfr. intros ->.
           assert (Hq : In q (keys_of te)) by (eapply rows_kids_keys; eassumption).
           apply (proj1 (Hfresh q Hq)). left. reflexivity.
  - intros y Hy. apply Hfr. intros ->. apply (Hdis q); [left; reflexivity | exact Hy].
  - intros cn Hc. simpl in Hc. rewrite Hg in Hc. inversion Hc; subst cn. eexists. split; [exact Hg' | reflexivity].
  - intros k n0 Hk0. destruct (key_dec k q) as [->|Hne]; [left; left; reflexivity|].
    rewrite Hfr in Hk0 by exact Hne. destruct (rep_only _ _ _ R k n0 Hk0) as [H|H].
    + apply keys_plug_in in H. destruct H as [H|H]; [|right; left; exact H].
      left. rewrite keys_of_eq in H. rewrite keys_of_eq, flat_map_app. simpl.
      destruct H as [H|H]; [left; exact H | right; apply in_or_app; left; exact H].
    + destruct (Hcov k H) as [H'|H']; [right; right; exact H'|].
      left. rewrite keys_of_eq, flat_map_app. simpl. rewrite app_nil_r. right. apply in_or_app. right. exact H'.
  - intros k Hk0. destruct (Hnew k Hk0) as [H1 H2]. destruct (Hpend k H1) as [H3 H4]. split; [|exact H4].
    rewrite keys_of_eq, flat_map_app. simpl. rewrite app_nil_r. rewrite keys_of_eq in H3.
    intros [H|H]; [apply H3; left; exact H|]. apply in_app_or in H.
    destruct H as [H|H]; [apply H3; right; exact H | exact (H2 H)].
  - apply w_link_rootlink.
  - intros r Hr. rewrite rows_eq, flat_map_app in Hr. simpl in Hr. rewrite app_nil_r in Hr. destruct Hr as [<-|Hr].
    + destruct (Hpgs (q, a, map tkey l)) as [G1 [G2 G3]]; [rewrite rows_eq; left; reflexivity|].
      split; [exact G1|]. split; [exact G2|]. intros g m Hgg Hmm. destruct (G3 g m Hgg Hmm) as [Hin Hkd]. split; [|exact Hkd].
      unfold rkids in Hin. unfold rkids. simpl in Hin. simpl. rewrite map_app. apply in_or_app. left. exact Hin.
    + apply in_app_or in Hr. destruct Hr as [Hr|Hr]; [apply Hpgs; rewrite rows_eq; right; exact Hr | apply Hpte; exact Hr].
Qed.

(* ---- deleting flat nodes of pending identifiers ---- *)
Lemma rep_delete t f P D P' : Rep t f P ->
  (forall d, In d D -> In d P) ->
  (forall k, In k P -> In k D \/ In k P') ->
  (forall k, In k P' -> In k P) ->
  Rep t (del_all D f) P'.
Proof.
  intros [Rroot Rnd Rfnd Rrows Ronly Rpend Rrl Rpgs] HD Hcov Hsub.
  assert (Hfr : forall y, In y (keys_of t) -> fget y (flat (del_all D f)) = fget y (flat f)).
  { intros y Hy. apply del_all_frame. intros Hd. exact (Rpend y (HD y Hd) Hy). }
  constructor.
  - exact Rroot.
  - exact Rnd.
  - apply del_all_nodup. exact Rfnd.
  - intros r Hr. apply node_matches_same with (m := flat f).
    + apply Rrows. exact Hr.
    + apply Hfr. apply rows_keys. exact Hr.
    + intros c Hc. apply Hfr. eapply rows_kids_keys; eassumption.
  - intros k n Hg. apply del_all_Some in Hg; [|exact Rfnd]. destruct Hg as [Hd Hg].
    destruct (Ronly k n Hg) as [H|H]; [left; exact H|].
    destruct (Hcov k H) as [H'|H']; [contradiction | right; exact H'].
  - intros k Hk. apply Rpend. apply Hsub. exact Hk.
  - destruct Rrl as [n [Hg Hl]]. exists n. split.
    + rewrite Hfr; [exact Hg|]. rewrite <- Rroot. apply tkey_in_keys.
    + rewrite del_all_rootlink. exact Hl.
  - exact Rpgs.
Qed.

(* ---- writing a fresh flat node that nothing links to ---- *)
Lemma rep_add_orphan t f P x a : Rep t f P -> fget x (flat f) = None -> ~ In x (keys_of t) ->
  Rep t (w_entity x a f) (x :: P).
Proof.
  intros [Rroot Rnd Rfnd Rrows Ronly Rpend Rrl Rpgs] Hx Hnx.
  assert (Hfr : forall y, In y (keys_of t) -> fget y (flat (w_entity x a f)) = fget y (flat f)).
  { intros y Hy. apply w_entity_frame. intros ->. exact (Hnx Hy). }
  constructor.
  - exact Rroot.
  - exact Rnd.
  - apply w_entity_nodup. exact Rfnd.
  - intros r Hr. apply node_matches_same with (m := flat f).
    + apply Rrows. exact Hr.
    + apply Hfr. apply rows_keys. exact Hr.
    + intros c Hc. apply Hfr. eapply rows_kids_keys; eassumption.
  - intros k n Hg. destruct (key_dec k x) as [->|Hne]; [right; left; reflexivity|].
    rewrite w_entity_frame in Hg by exact Hne.
    destruct (Ronly k n Hg) as [H|H]; [left; exact H | right; right; exact H].
  - intros k [<-|Hk]; [exact Hnx | apply Rpend; exact Hk].
  - destruct Rrl as [n [Hg Hl]]. exists n. split.
    + rewrite Hfr; [exact Hg|]. rewrite <- Rroot. apply tkey_in_keys.
    + rewrite w_entity_rootlink. exact Hl.
  - exact Rpgs.
Qed.

(* ---- re-visiting stored entities rewrites nothing ---- *)
Definition stored (m : flatmap) (t : tree) : Prop :=
  forall r, In r (rows t) ->
  exists n, fget (rkey r) m = Some n /\ forall c, In c (rkids r) -> exists ad, lget c (flinks n) = Some ad.

Lemma node_matches_stored m t : (forall r, In r (rows t) -> node_matches m r) -> stored m t.
Proof.
  intros H r Hr. destruct (H r Hr) as [n [Hg [_ [_ [Hk _]]]]]. exists n. split; [exact Hg|].
  intros c Hc. apply lget_In_Some. apply Hk. exact Hc.
Qed.

Lemma save_kids_fix k l f : (forall c, In c l -> save_tree k c f = f) -> save_kids k l f = f.
Proof.
  induction l as [|c r IH]; intros H; [reflexivity|].
  unfold save_kids in *. simpl. rewrite (H c (or_introl eq_refl)). apply IH.
  intros c' Hc'. apply H. right. exact Hc'.
Qed.

Lemma save_tree_stored t : forall p f, stored (flat f) t -> save_tree p t f = w_link p (tkey t) f.
Proof.
  induction t as [k a l IH] using tree_ind'. intros p f Hs. rewrite save_tree_eq. simpl.
  destruct (Hs (k, a, map tkey l)) as [n [Hg Hk]]; [rewrite rows_eq; left; reflexivity|].
  unfold rkey, rkids in Hg, Hk. simpl in Hg, Hk.
  rewrite (w_entity_old k a f n Hg). rewrite save_kids_fix; [reflexivity|].
  intros c Hc. rewrite Forall_forall in IH. rewrite (IH c Hc).
  - destruct (Hk (tkey c)) as [ad Had]; [apply in_map; exact Hc|].
    destruct (Hs (tkey c, tattrs c, map tkey (tkids c))) as [cn [Hgc _]].
    { rewrite rows_eq. right. apply in_flat_map. exists c. split; [exact Hc|].
      destruct c as [k' a' l']. rewrite rows_eq. left. reflexivity. }
    unfold rkey in Hgc. simpl in Hgc. eapply w_link_old; eassumption.
  - intros r Hr. apply Hs. rewrite rows_eq. right. apply in_flat_map. exists c. split; assumption.
Qed.

Lemma save_kids_stored k a l f : stored (flat f) (Node k a l) -> save_kids k l (w_entity k a f) = f.
Proof.
  intros Hs.
  destruct (Hs (k, a, map tkey l)) as [n [Hg Hk]]; [rewrite rows_eq; left; reflexivity|].
  unfold rkey, rkids in Hg, Hk. simpl in Hg, Hk.
  rewrite (w_entity_old k a f n Hg). apply save_kids_fix.
  intros c Hc. rewrite save_tree_stored.
  - destruct (Hk (tkey c)) as [ad Had]; [apply in_map; exact Hc|].
    destruct (Hs (tkey c, tattrs c, map tkey (tkids c))) as [cn [Hgc _]].
    { rewrite rows_eq. right. apply in_flat_map. exists c. split; [exact Hc|].
      destruct c as [k' a' l']. rewrite rows_eq. left. reflexivity. }
    unfold rkey in Hgc. simpl in Hgc. eapply w_link_old; eassumption.
  - intros r Hr. apply Hs. rewrite rows_eq. right. apply in_flat_map. exists c. split; assumption.
Qed.

(* the save_entity that follows a move only adds the link under the new parent *)
Lemma move_file C p a l1 te l2 f P q :
  Rep (plug C (Node p a (l1 ++ te :: l2))) f P ->
  save_tree q te (w_unlink p (tkey te) f) = w_link q (tkey te) (w_unlink p (tkey te) f).
Proof.
  intros R. destruct (rep_hole_facts _ _ _ _ R) as [Hnd [Hdis [Hrows [Hpend Hpgs]]]].
  pose proof (nodup_hole _ _ _ _ _ Hnd) as [Hte [Hpte Hd]].
  apply save_tree_stored. intros r Hr.
  destruct (node_matches_stored (flat f) te) with (r := r) as [n [Hg Hk]]; [|exact Hr|].
  - intros r' Hr'. apply Hrows. apply in_rows_hole. right. right. left. exact Hr'.
  - exists n. split; [|exact Hk]. rewrite w_unlink_frame; [exact Hg|].
    intros E. apply Hpte. rewrite <- E. apply rows_keys. exact Hr.
Qed.

(* closing a file that represents the tree only sweeps the dead groups *)
Lemma close_file_rep_file w P : Rep (wmem w) (wfile w) P -> (forall k, In k (wpend w) -> In k P) ->
  wfile (close_file w) = sweep_file w KG /\ Rep (wmem w) (sweep_file w KG) P.
Proof.
  intros R Hin.
  assert (R' : Rep (wmem w) (sweep_file w KG) P).
  { unfold sweep_file. apply rep_delete with (P := P); [exact R | | intros k Hk; right; exact Hk | intros k Hk; exact Hk].
    intros d Hd. apply filter_In in Hd. apply Hin. apply Hd. }
  split; [|exact R'].
  rewrite close_file_file. destruct (wmem w) as [k a l]. simpl. apply save_kids_stored.
  apply node_matches_stored. exact (rep_rows _ _ _ R').
Qed.

Theorem step_frame_rep_gen : forall w o x P, Rep (wmem w) (wfile w) P -> (forall k, In k (wpend w) -> In k P) ->
  ~ In x (footprint_rep w o) ->
  fget x (flat (wfile (fst (step w o)))) = fget x (flat (wfile w)).
Proof.
  intros w o x P R Hin Hx.
  destruct o as [k u p nm ar | e n | e b | e v | e q | e | e | k | | o g nm ms | o g | e q ids];
    try (apply step_frame; exact Hx).
  - (* Move *) unfold footprint_rep, parent_list in Hx. unfold step, do_move.
    destruct (find e (wmem w)) as [te|] eqn:Fe; [|reflexivity].
    destruct (find q (wmem w)); [|reflexivity].
    destruct (parent_of e (wmem w)) as [p|] eqn:Pe; [|reflexivity].
    destruct (negb (can_hold (fst q) (fst e)) || mem_key q (keys_of te) || key_eqb p q); [reflexivity|]. simpl.
    destruct (child_ctx _ _ _ _ (rep_nodup _ _ _ R) Fe Pe) as [C [a [l1 [l2 [Ht Hk]]]]].
    rewrite Ht in R. subst e. rewrite (move_file _ _ _ _ _ _ _ _ q R).
    rewrite w_link_frame by (intros ->; apply Hx; right; left; reflexivity).
    apply w_unlink_frame. intros ->. apply Hx. left. reflexivity.
  - (* Reopen *) unfold step. rewrite reopen_file.
    destruct (close_file_rep_file w P R Hin) as [-> _]. unfold sweep_file. apply del_all_frame. exact Hx.
Qed.

Theorem step_frame_rep : forall w o x, Rep (wmem w) (wfile w) (wpend w) -> ~ In x (footprint_rep w o) ->
  fget x (flat (wfile (fst (step w o)))) = fget x (flat (wfile w)).
Proof. intros w o x R. apply step_frame_rep_gen with (P := wpend w); [exact R | intros k Hk; exact Hk]. Qed.

